#!/usr/bin/env python3
"""Regenerates /verif/MANIFEST.json from legs.py (which properties have checks) and the texts below."""
import json, os, sys
VERIF = os.path.dirname(os.path.abspath(__file__))
sys.path.insert(0, VERIF)
from legs import PROPS

TEXT = {
 "C01": dict(
  technique="runtime monitoring: recorded stream history vs exactly-once/order oracle; Miri + TSan on the same workload",
  level="Exploration over schedules and inputs: thousands of multi-producer histories against the real BackgroundQueue with unique ids, seeded schedule perturbation at hook points, scripted per-entry stream errors; an offline checker over the stream's call log decides exactly-once, per-producer order and 'nothing else but the rate-limited report entry'. Miri explores schedules of a tiny instance and watches for data races/UB/leaks; TSan watches the native stress (thorough). Held on the executions produced, nothing more. Also histories without a metrics recorder, and a tracing subscriber installed after the queue was built. Scenarios: last queue handle dropped while the writer is held inside the stream (forgotten / live join handle); shutdown arriving in an old, stalled writer iteration; a leg with a subscriber that filters everything. Pipelines: appends made on a writer thread (a stream forwarding into another queue / feeding its own queue). The in-band report entry itself refused or failing in two thirds of the histories.",
  note="Trusted: the recording stream (logs under its own lock on the writer thread), the harness flow control that keeps the queue from overflowing (confirmed per history by a local metrics recorder), Miri/TSan themselves.",
  ref="DESIGN.md §7 C01"),
 "C04": dict(
  technique="runtime monitoring: barrier oracle over recorded stream history (incl. gated stream making early completion definite), logical-unit progress bound, stepping the real WakerTracker via hook; Miri + TSan",
  level="Exploration over schedules and histories. Monitor 1: multi-thread histories with flush requests from every thread; every entry whose append returned before a completed request must be in the stream log before the completion with a stream flush after the last of them; in the gated variant the stream's next()/flush() are held closed and a Ready future is a definite violation. Monitor 2: never-empty queue with a fuel-gated stream: Ready within roundup32(capacity)+64 consumed entries (logical units, no clock). Monitor 3: the real WakerTracker (hook H3) stepped through every op sequence up to a length bound for capacities 1-4 and 10^5-10^6 random long ones, asserting S1/S2/L1. Special scenarios: parked writer with 59 s interval, after shutdown, racing with shutdown. Special scenarios: a request pending with a backlog when shutdown begins (stream fed one entry at a time), bursts of up to 20000 outstanding requests while the writer is held. Streams that refuse entries (errors still count as writer progress). Monitor 2 also with a lock-step producer keeping a small constant backlog. Abandoned requests in the same batch as the awaited one.",
  note="Trusted: recording stream log; 'never' is decided by a progress watchdog (20 s without a meaningful event) only together with logical evidence. Monitor 3 drives the tracker through a cfg(metrique_verif) wrapper that forwards to the private methods unchanged.",
  ref="DESIGN.md §7 C04"),
 "C05": dict(
  technique="runtime monitoring: recorded stream history + Drop/thread-exit observation vs shutdown oracle; Miri (leak/race) + TSan",
  level="Exploration over histories and schedules: typed/boxed/global-attached queues, 1-4 client threads with clones and flushes, racer threads appending across the drop, writer optionally held inside next()/flush() so that a backlog exists when the handle is dropped; forget path included. Oracle over the stream log and the Drop / thread-exit tickets. Backlogs of up to 70000 entries at shutdown; queues with and without a metrics recorder. Racers through the global itself; drops by unwinding; retained flush futures; writer held inside the metrics recorder; runs of I/O errors; shutdown under sustained load bounded in hook-counted loop iterations. The last two handles of a forgotten queue dropped at the same moment; a refused tail of the backlog.",
  note="Trusted: Drop impl of the recording stream and a TLS destructor on the writer thread as observation points; capacity is chosen so the queue never overflows in these histories.",
  ref="DESIGN.md §7 C05"),
 "C09": dict(
  technique="runtime monitoring: gate-controlled sequential histories vs reference ring (exact), concurrent histories vs linearization-invariant constraints; Miri + TSan",
  level="Exploration over histories and schedules: (a) deterministic sequential histories (writer held inside next() with one entry in hand) compared exactly with a displace-oldest reference ring incl. the overflow counter; (b) 1-6 producers against a stalled/slow/free writer: per-producer order, conservation appended = delivered + overflow counter, every lost entry has >= capacity later appends; appends must return while the stream gate is closed. Scripted I/O errors of every kind and pending flush requests in overflow histories; global recorder with named queues; 16 KiB entries; appends during a pending shutdown. capacity set first, in the middle or last among the builder calls. The counter is also read while the writer is completely stalled.",
  note="Trusted: the gate protocol that makes (a) sequential (waits for the stream's own 'blocked' flag); local metrics recorder for the counter.",
  ref="DESIGN.md §7 C09"),
 "C02": dict(
  technique="runtime monitoring: differential of formatter output against a strict RFC 8259 parser over generated hostile entries/configurations; Miri + ASan on the unsafe string path",
  level="Exploration over inputs and configurations: ~10^5-10^6 generated entries per run (hostile names/strings, NaN/inf/zero-occurrence observations in every position with all skip masks enumerated for lists up to 6, all units, dimensions, flags, every listed defect, in-band errors) x formatter configurations x sampling; the oracle parses every emitted line strictly and checks the _aws structure; a validation error must leave zero bytes. Formats into failing writers are interleaved so that a later success on the same formatter is also checked. Every third plain format goes to an output that takes only a few bytes per (vectored) call. One formatter kept for 86 000 format calls with dimension sets dormant for more than 2^16 calls.",
  note="Trusted: vcommon::strict_json (cross-checked against serde_json on every line; disagreement = inconclusive).",
  ref="DESIGN.md §7 C02"),
 "C03": dict(
  technique="runtime monitoring: differential of parsed formatter output against an independent reference interpretation of the recorded entry",
  level="Exploration over inputs and configurations: generated entries inside the documented domain are formatted by the real formatter and, independently, replayed into a recording writer from which a reference (written from the documentation, no shared code) computes the expected set of records: members, exact number tokens, Values/Counts, per-namespace definitions with unit and storage resolution, dimension sets, Timestamp, LogGroupName; compared as a multiset of records. One formatter object serves several entries with injected output failures in between; per-metric dimension sets overlap, contain each other and share values. Floats over the whole value range, hostile custom unit names, dimension values that spell out another set.",
  note="Trusted: the reference in checks/src/emf_util.rs; the documented domain as encoded by the generator (unique names, declared dimensions written as strings...).",
  ref="DESIGN.md §7 C03"),
 "C08": dict(
  technique="runtime monitoring: reference validity predicate + transparency differential + duplicate-member detection, in debug and release builds",
  level="Exploration over inputs and configurations in both build profiles: valid entries with 0-3 injected defects of every listed kind; must-reject entries have to yield a validation error and zero bytes wherever validation is documented to be on; valid entries must be accepted with output identical (multiset of lines) to the non-validating formatter, also on a long-lived formatter after earlier rejected entries; every accepted record is scanned for duplicate member names by a duplicate-preserving parser. Known finding F4 is matched by signature and reported as KNOWN-FINDING. Wide entries with 40-170 distinct per-metric dimension sets. Error-report entries interleaved; owned and borrowed names. Per-metric dimensions through iterators with inexact size hints. One name twice under one dimension set listed in two orders.",
  note="Trusted: the reference predicate; 'validation promised' = Emf::all_validations in every profile, Emf::builder() only with debug assertions (as documented).",
  ref="DESIGN.md §7 C08"),
 "C14": dict(
  technique="runtime monitoring: differential long-lived formatter vs fresh formatter at every position of generated entry sequences",
  level="Exploration over histories: sequences of 2-20 items (valid, each defect, split, entry dimensions, in-band error report, multi-megabyte, failing writer) on one long-lived plain or sampled formatter; at every position decision and records must equal those of a fresh formatter. Per-metric dimension sets are shared across the entries of a sequence. Per-item call mode on sampled formatters; entries with hundreds of thousands of observations. The in-band error report merged with globals that provide the default dimensions.",
  note="Trusted: multiset-of-lines comparison; Timestamp masking for entries without timestamp (with a lower bound check).",
  ref="DESIGN.md §7 C14"),
 "C16": dict(
  technique="runtime monitoring with fault injection: scripted io::Write / EntryIoStream objects, byte-exact oracle against reference records; Miri + ASan on the vectored-write loop",
  level="Fault enumeration: for every generated record (single, multi-namespace, split into 2-4 lines) every first-write size k in 1..L is tried for vectored and plain writers, then hundreds of random scripts of short writes / Interrupted / Ok(0) / hard errors; received bytes must be a permutation of the reference lines (or a prefix of one on error) and the next entry must be intact. Sinks (queue, FlushImmediately x3, tee) are driven with streams that fail per entry and on flush; each stream must see every entry exactly once. Hard errors of every kind incl. WouldBlock with retry detection; output_to_makewriter path; flush after every append of immediate-flush sinks; eight queues failing together with writers running flat out. A long record through a 1-3-byte writer that is interrupted before every successful call. The in-band report refused or failing; twelve kinds of hard error incl. InvalidInput.",
  note="Trusted: the scripted writer/stream as fault model; reference bytes from a Vec writer.",
  ref="DESIGN.md §7 C16"),
 "C06": dict(
  technique="runtime monitoring: append events at a counting sink vs reference condition over exhaustively enumerated single-thread histories and concurrent drop/creation histories; Miri + TSan",
  level="Exploration over histories and schedules: (a) every single-thread create/drop history over owner, <=3 handles, <=3 flush guards, <=2 force-flush guards within an object bound is executed against the real types and the append count is compared with the reference condition after every operation; (b) the drops of random histories are dealt to 2-4 threads (perturbed at the keep-alive hook points) and flush guards are created concurrently from &owner; exactly one append, not before the drops any linearization needs, content = the owner's last tokens. Miri checks the UnsafeCell / unsafe Send+Sync protocol for races, UB and leaks. Drops by unwinding, Debug observers, force-flush guards created after concurrent flush guards, entries after a caught sink panic, stale force-flush guards of earlier entries. The entry must have reached the sink by the time the last owner/handle drop (or the releasing force-flush drop) has returned. The only flush guard held by a slot guard whose slot may have been replaced.",
  note="Trusted: the counting sink (ticket under its lock) as observation point; LIFO symmetry reduction among guards of one kind.",
  ref="DESIGN.md §7 C06"),
 "C10": dict(
  technique="runtime monitoring: conservation oracle over aggregates received by an inspector sink, unique input ids; Miri + TSan",
  level="Exploration over histories, schedules and inputs: inputs with unique ids and colliding (or thousands of distinct) keys merged into KeyedAggregator (by value/ref, several flush epochs), TeeSink, embedded Aggregate / MutexSink with merge-on-drop guards, WorkerSink with 1-8 producers, flush barriers and drop of the last handle. The oracle partitions the emitted aggregates by input id and checks sum / distribution / keep-last / one aggregate per key and flush / flush barrier / worker termination. Producers also request flushes concurrently with each other against a sometimes lagging worker; a hand-written Key whose Hash is coarser than its Eq. Nested distributions with repeated observations; contended MutexSink close; concurrent last drops and cancelled flushes on the worker sink. A float sort-and-merge distribution fed NaNs of both signs, infinities and -0.0 next to the integer one. An optional keep-last field; worker sinks that never flush periodically (Duration::MAX).",
  note="Trusted: inspector sink; Drop wrapper around the inner sink for termination; progress watchdog with the flush-call counter as evidence.",
  ref="DESIGN.md §7 C10"),
 "C11": dict(
  technique="runtime monitoring: differential of closed histogram observations against the recorded inputs (sorted matching), atomic vs non-atomic vs concurrent, re-aggregation; TSan",
  level="Exploration over inputs and schedules: every bucket boundary of the layout (from the formula) +-1, dense linear region, log-uniform values, repeated observations up to 2^40 occurrences, integer/float/Duration/unit-converted sources; conservation of counts, per-observation error bound, exact sort-and-merge output, equality of atomic / non-atomic / concurrently recorded histograms, and re-aggregation stability. Several recording windows through one strategy object with drain() in between; threads released together into a fresh shared histogram. Zero-occurrence observations; Miri leg. Negative zero; Duration sources with sub-microsecond parts, their conversion checked against harness arithmetic. Sources writing several observations per call with zero-occurrence ones anywhere.",
  note="Trusted: the value of a Repeated source is total/n in f64; counts < 2^40.",
  ref="DESIGN.md §7 C11"),
 "C12": dict(
  technique="runtime monitoring: exact-rational oracle on the hooked rate->weight split, scripted-RNG differential on sampling decisions, invariants on hooked congressional rates",
  level="Exploration over inputs and histories: the weight split is checked against the exact rational 1/rate for millions of f32 rates (thorough: every f32 in (0,1]) at both extreme draws incl. the expectation; the public sampled formatter's Counts must imply that one weight; FixedFractionSample/CongressSample decisions are compared with draw <= rate where the draw is recomputed by rand itself (the draw == rate boundary is forced); congressional rates are checked after every manually ended interval of random appear/disappear/burst histories. Congress intervals are shaped to land exactly on, one above and one below the target. Draws forced onto the congress rate boundary; steady scenarios with known group frequencies (ordering judged without the sampler's own averages). Two-pair sample groups in alternating pair order, validate_groups off in half of the steady scenarios. The default rng (weights of non-integer reciprocals, 8 sigma margins); congress rates a few ulps below 1 with the largest draw.",
  note="Trusted: u128 rational arithmetic; hooks H5/H6 forward to the private functions unchanged.",
  ref="DESIGN.md §7 C12"),
 "C13": dict(
  technique="runtime monitoring: entries at a counting sink vs reference over exhaustively enumerated op sequences and concurrent drops; Miri + TSan",
  level="Exploration over histories and schedules: every single-thread op sequence up to a depth bound over a parent with a Slot and a LazySlot (open wait/discard incl. second open, mutate, drop guard, wait_for_data, force-flush guard) is executed and the appended entries compared with the reference after every op; concurrently, parent / guards / force guard are dropped on separate threads with perturbation between the guard's send and the release of its flush guard. wait_for_data called repeatedly; guards dropped by unwinding (panic) as well as normally. Budget-exhausted tokio task; deprecated open_slot path; release-profile leg. delay_flush on open guards of either mode; a persistent observer Debug-formats a wait-mode guard while flush_guard() is taken. A wait_for_data future dropped un-polled.",
  note="Trusted: counting sink; linearization-invariant assertions only in the concurrent part.",
  ref="DESIGN.md §7 C13"),
 "C07": dict(
  technique="runtime monitoring over generated programs: the real proc-macro compiles generated type trees, their emitted items are compared with an independent naming reference",
  level="Translation validation over programs: each run generates hundreds (thorough: thousands) of #[metrics] type trees covering every attribute combination of the statement, has the real macro compile them, runs them, and compares the ordered (name, value, unit, kind) items and the sample group of every closed root with a reference built on the Inflector crate. Known finding F8 (sample-group keys lack flatten prefixes) is matched by an exact signature and reported as KNOWN-FINDING. Identifiers with acronym runs / underscores / leading capitals, prefix texts in both roles, names of 98..104 bytes by construction. no_close fields with and without unit; prefix chains of three and four segments crossing 100 bytes early and late.",
  note="Trusted: the naming reference and Inflector; rustc/cargo; the recording writer. Programs that do not compile are inconclusive.",
  ref="DESIGN.md §7 C07"),
 "C15": dict(
  technique="runtime monitoring: differential of recorded call logs, plain entry vs wrapped entry, against the documented effect of each wrapper",
  level="Exploration over inputs: generated entries (incl. errors, empty values, repeated names, configs, sample groups) under random compositions (depth <= 4) of boxed/Box/Option/Arc/Cow/merge/WithGlobalDimensions/WithDimensions/ForceFlag, values nested in Option/Box/Arc/Cow/&/WithDimensions/ForceFlag to depth 3, the stream/format adapters, RootEntry; ordered call log and sample group must equal the documented function of the plain entry's. Long-lived adapters with downstream failures in between; inexact sample-group size hints; an entry after an unwound boxed write. A flag constructor returning no flag; zero-sized config objects sharing one address. Zero-sized globals through merge_globals / merge; a long-lived WithGlobalDimensions whose dimensions are rotated.",
  note="Trusted: recording writer; the expected-effect functions in checks/src/bin/c15_wrappers.rs.",
  ref="DESIGN.md §7 C15"),
 "C17": dict(
  technique="runtime monitoring: op histories dispatched to threads/runtimes vs a reference routing state machine; racing appends vs detach with an exactly-one oracle; TSan",
  level="Exploration over histories and schedules: random histories of attach / detach / thread-local and runtime test sinks / append / try_append / sink() on 3 worker threads x {no runtime, 2 runtimes}, every outcome (destination, documented panic, entry handed back) compared with the reference; appends racing with the detach of a BackgroundQueue-backed attachment must be Ok <=> written before the detach returned. 2-4 threads attaching to a detached global at the same moment (exactly one may win). Drops by unwinding; noisy histories (contention from another runtime's context, rejected attaches); same-named global types; routing restored only after the detached sink flushed. attach_to_stream() (also inside runtime contexts / on threads with test sinks); appends that panic inside the destination. with_test_sink with returning and panicking closures; test sinks of four runtimes installed/used/dropped at once.",
  note="Trusted: the reference state machine; counting sinks; recording stream of the detached queue.",
  ref="DESIGN.md §7 C17"),
 "C18": dict(
  technique="runtime monitoring: exhaustive and random op sequences on a manually advanced clock vs a sequential reference after every prefix",
  level="Exploration over histories: every stopwatch op sequence up to length 8 (thorough 9) with owned and borrowed guards, plus random sequences up to length 200, checked after every prefix; timers, timestamps in three epoch units, and the time-source resolution order. Closing by value with owned guards still live; 2-5 owned guards ended at the same moment on separate threads (also under Miri and TSan). Closes by reference racing with guards stopped elsewhere; values closed under a foreign time source; owned guards dropped by unwinding. A clock that ticks on every reading; nested thread-local time-source injections.",
  note="Trusted: ManuallyAdvancedTimeSource; the reference total (sum of completed, non-discarded spans since the last clear/overwrite).",
  ref="DESIGN.md §7 C18"),
 "C19": dict(
  technique="runtime monitoring: every convertible unit pair (macro-generated table) against an independent scale table, through recorded ValueWriter calls",
  level="Exhaustive over the 435 ordered pairs of convertible units (the table is complete by construction: other pairs do not compile) x extreme and random magnitudes of all observation kinds; also the #[metrics(unit=..)] attribute through generated structs, Duration/Option/Distribution/Mean and the two error cases (incl. identity conversions). Distributions in which an element at any position writes a unit other than promised; durations over the whole range of Duration. Refused values must leave a long-lived Mean untouched; same-kind other-scale lies. A promised unit with an untagged number written.",
  note="Trusted: the harness scale table; 4-ulp tolerance for 'floating-point rounding'.",
  ref="DESIGN.md §7 C19"),
 "C20": dict(
  technique="runtime monitoring: conservation oracle over all readouts (tight reader + real reporter task + final) of concurrently updated metrics; Miri + TSan",
  level="Exploration over schedules and histories: 1-12 updater threads with known scripts on 1-20 keys, concurrent readouts from a reader loop and the real MetricReporter task; counters sum to the total, histogram occurrences equal observations within bucket error, gauges end at the last value, names/labels/units as registered. Fresh metrics are described, registered and first updated while readouts run over registries padded with up to 20000 idle counters. record_many, values beyond 2^32, gauges ending on infinity.",
  note="Trusted: recording writer for readouts; one writer per gauge.",
  ref="DESIGN.md §7 C20"),
}

NOT_YET = "check not built yet in this round (design in DESIGN.md §7); not claimed"

def main():
    props = [json.loads(l) for l in open(os.path.join(VERIF, "properties.jsonl"))]
    checks, na = [], []
    for p in props:
        pid = p["id"]
        if pid in PROPS and pid in TEXT:
            t = TEXT[pid]
            checks.append({
                "property_id": pid,
                "quick_cmd": f"./check {pid} quick",
                "thorough_cmd": f"./check {pid} thorough",
                "evidence_file": f"/verif/evidence/{pid}.json",
                "replay_cmd_template": f"./check {pid} quick --replay {{path}}",
                "engine": "harness",
                "level_claimed": {"category": PROPS[pid]["level"], "text": t["level"], "design_ref": t["ref"]},
                "level_note": t["note"],
                "technique": t["technique"],
            })
        else:
            na.append({"property_id": pid, "reason": PROPS.get(pid, {}).get("na_reason", NOT_YET)})
    hooks = [l.split()[0] for l in os.popen("git -C /repo log --format='%h %s' | grep 'verif hook'").read().splitlines()]
    m = {
        "version": 1,
        "setup_cmd": "./setup.sh",
        "hooks": {
            "guard": "cfg(metrique_verif)",
            "enable": "RUSTFLAGS=\"--cfg metrique_verif\" (set by ./check for every flavour; the harness workspace depends on /repo's crates by path)",
            "baseline_off_cmd": "cd /repo && cargo nextest run --workspace --no-fail-fast --offline || cargo test --workspace --no-fail-fast --offline",
            "source_commits": hooks,
            "add_only": True,
        },
        "engines": [{
            "name": "harness",
            "path": "/verif/harness",
            "serves_properties": [c["property_id"] for c in checks],
            "kind_free_text": "cargo workspace of monitor binaries (one per property) + vcommon (tickets, recording writer/stream, strict JSON, perturbation); driven by /verif/check which also runs the Miri / TSan / ASan legs",
        }],
        "checks": checks,
        "not_applicable": na,
        "notes": "Family: runtime monitoring and sanitizers. Exit 0 held / 1 VIOLATION / 2 INCONCLUSIVE (never folded). Known findings: /verif/known_findings.json. Seeded breaks used to test the monitors: /verif/seeded/.",
    }
    if not na:
        m.pop("not_applicable")
    json.dump(m, open(os.path.join(VERIF, "MANIFEST.json"), "w"), indent=1)
    print("checks:", [c["property_id"] for c in checks], "not_applicable:", [x["property_id"] for x in na])

if __name__ == "__main__":
    main()
