#!/usr/bin/env python3
"""Regenerates /verif/MANIFEST.json from legs.py (which properties have checks) and the texts below."""
import json, os, sys
VERIF = os.path.dirname(os.path.abspath(__file__))
sys.path.insert(0, VERIF)
from legs import PROPS

TEXT = {
 "C01": dict(
  technique="runtime monitoring: recorded stream history vs exactly-once/order oracle; Miri + TSan on the same workload",
  level="Exploration over schedules and inputs: thousands of multi-producer histories against the real BackgroundQueue with unique ids, seeded schedule perturbation at hook points, scripted per-entry stream errors; an offline checker over the stream's call log decides exactly-once, per-producer order and 'nothing else but the rate-limited report entry'. Miri explores schedules of a tiny instance and watches for data races/UB/leaks; TSan watches the native stress (thorough). Held on the executions produced, nothing more.",
  note="Trusted: the recording stream (logs under its own lock on the writer thread), the harness flow control that keeps the queue from overflowing (confirmed per history by a local metrics recorder), Miri/TSan themselves.",
  ref="DESIGN.md §7 C01"),
}

NOT_YET = "check not built yet in this round (design in DESIGN.md §7); not claimed"

def main():
    props = [json.loads(l) for l in open(os.path.join(VERIF, "properties.jsonl"))]
    checks, na = [], []
    for p in props:
        pid = p["id"]
        if pid in PROPS and pid in TEXT:
            t = TEXT[pid]
            checks.append({
                "property_id": pid,
                "quick_cmd": f"./check {pid} quick",
                "thorough_cmd": f"./check {pid} thorough",
                "evidence_file": f"/verif/evidence/{pid}.json",
                "replay_cmd_template": f"./check {pid} quick --replay {{path}}",
                "engine": "harness",
                "level_claimed": {"category": PROPS[pid]["level"], "text": t["level"], "design_ref": t["ref"]},
                "level_note": t["note"],
                "technique": t["technique"],
            })
        else:
            na.append({"property_id": pid, "reason": PROPS.get(pid, {}).get("na_reason", NOT_YET)})
    hooks = [l.split()[0] for l in os.popen("git -C /repo log --format='%h %s' | grep 'verif hook'").read().splitlines()]
    m = {
        "version": 1,
        "setup_cmd": "./setup.sh",
        "hooks": {
            "guard": "cfg(metrique_verif)",
            "enable": "RUSTFLAGS=\"--cfg metrique_verif\" (set by ./check for every flavour; the harness workspace depends on /repo's crates by path)",
            "baseline_off_cmd": "cd /repo && cargo nextest run --workspace --no-fail-fast --offline || cargo test --workspace --no-fail-fast --offline",
            "source_commits": hooks,
            "add_only": True,
        },
        "engines": [{
            "name": "harness",
            "path": "/verif/harness",
            "serves_properties": [c["property_id"] for c in checks],
            "kind_free_text": "cargo workspace of monitor binaries (one per property) + vcommon (tickets, recording writer/stream, strict JSON, perturbation); driven by /verif/check which also runs the Miri / TSan / ASan legs",
        }],
        "checks": checks,
        "not_applicable": na,
        "notes": "Family: runtime monitoring and sanitizers. Exit 0 held / 1 VIOLATION / 2 INCONCLUSIVE (never folded). Known findings: /verif/known_findings.json. Seeded breaks used to test the monitors: /verif/seeded/.",
    }
    if not na:
        m.pop("not_applicable")
    json.dump(m, open(os.path.join(VERIF, "MANIFEST.json"), "w"), indent=1)
    print("checks:", [c["property_id"] for c in checks], "not_applicable:", [x["property_id"] for x in na])

if __name__ == "__main__":
    main()
