#!/usr/bin/env python3
"""Run every seeded defect under /verif/seeded against the quick check of its property (apply the
patch to /repo, run ./check, ALWAYS revert) and record which monitors fired.
usage: seed_sweep.py [ids...]      results: /verif/seeded/RESULTS.json and each meta.json"""
import json, os, re, subprocess, sys, time
V = "/verif"
ids = sys.argv[1:] or sorted(os.listdir(f"{V}/seeded"))
res = {}
try:
    res = json.load(open(f"{V}/seeded/RESULTS.json"))
except Exception:
    pass
for sid in ids:
    d = f"{V}/seeded/{sid}"
    if not os.path.isfile(f"{d}/patch.diff"):
        continue
    prop = sid.split("-")[0]
    assert subprocess.run(["git", "-C", "/repo", "status", "--porcelain"], capture_output=True, text=True).stdout.strip() == "", "/repo not clean"
    r = subprocess.run(["git", "-C", "/repo", "apply", f"{d}/patch.diff"], capture_output=True, text=True)
    if r.returncode != 0:
        res[sid] = {"applied": False, "error": r.stderr[-300:]}
        continue
    t0 = time.time()
    try:
        p = subprocess.run(["./check", prop, "quick"], cwd=V, capture_output=True, text=True, timeout=3000)
        out, rc = p.stdout, p.returncode
    except subprocess.TimeoutExpired:
        out, rc = "", 124
    finally:
        subprocess.run(["git", "-C", "/repo", "checkout", "--", "."])
    kinds = sorted(set(re.findall(r"^  kind: (\S+)", out, re.M)))
    res[sid] = {"applied": True, "check": f"./check {prop} quick", "exit": rc, "detected": rc == 1, "violation_kinds": kinds, "wall_s": round(time.time() - t0, 1)}
    print(sid, res[sid], flush=True)
    try:
        m = json.load(open(f"{d}/meta.json"))
        m["detected_by"] = {"check": f"./check {prop} quick", "detected": rc == 1, "violation_kinds": kinds}
        m["what_i_ran"] = ["python3 confirm_seed.py (demo fails with patch / passes without; whole suite passes with patch) - see confirmed_by_me", f"git -C /repo apply seeded/{sid}/patch.diff && ./check {prop} quick ; git -C /repo checkout -- ."]
        json.dump(m, open(f"{d}/meta.json", "w"), indent=1)
    except Exception as e:
        print("meta update failed", e)
    json.dump(res, open(f"{V}/seeded/RESULTS.json", "w"), indent=1)
print("detected", sum(1 for v in res.values() if v.get("detected")), "of", len(res))
