#!/usr/bin/env python3
"""Run every seeded defect under /verif/seeded against the quick check of its property (in a scratch
worktree + scratch copy of /verif, see seedrun2.sh; /repo is never touched) and record which monitors fired.
usage: seed_sweep.py [ids...]      results: /verif/seeded/RESULTS.json and each meta.json"""
import json, os, re, subprocess, sys, time
V = "/verif"
ids = sys.argv[1:] or sorted(os.listdir(f"{V}/seeded"))
# several sweeps may run side by side (different SEEDWS scratch dirs): each then writes its own
# results file (SEED_RESULTS), merged afterwards with `seed_sweep.py --merge f1 f2 ...`
RESULTS = os.environ.get("SEED_RESULTS", f"{V}/seeded/RESULTS.json")
if ids and ids[0] == "--merge":
    res = json.load(open(f"{V}/seeded/RESULTS.json"))
    for f in ids[1:]:
        res.update(json.load(open(f)))
    json.dump(dict(sorted(res.items())), open(f"{V}/seeded/RESULTS.json", "w"), indent=1)
    print("detected", sum(1 for v in res.values() if v.get("detected")), "of", len(res))
    sys.exit(0)
res = {}
try:
    res = json.load(open(RESULTS))
except Exception:
    pass
for sid in ids:
    d = f"{V}/seeded/{sid}"
    if not os.path.isfile(f"{d}/patch.diff"):
        continue
    prop = sid.split("-")[0]
    # isolated: seedrun2.sh patches a scratch worktree and runs a scratch copy of /verif against it
    t0 = time.time()
    try:
        p = subprocess.run([f"{V}/seedrun2.sh", f"{d}/patch.diff", prop, "quick"], cwd=V, capture_output=True, text=True, timeout=3000)
        out, rc = p.stdout, p.returncode
    except subprocess.TimeoutExpired:
        out, rc = "", 124
    if rc == 9:
        res[sid] = {"applied": False, "error": (p.stderr or "")[-300:]}
        continue
    kinds = sorted(set(re.findall(r"^  kind: (\S+)", out, re.M)))
    res[sid] = {"applied": True, "check": f"./check {prop} quick", "exit": rc, "detected": rc == 1, "violation_kinds": kinds, "wall_s": round(time.time() - t0, 1)}
    print(sid, res[sid], flush=True)
    try:
        m = json.load(open(f"{d}/meta.json"))
        m["detected_by"] = {"check": f"./check {prop} quick", "detected": rc == 1, "violation_kinds": kinds}
        m["what_i_ran"] = ["python3 confirm_seed.py (demo fails with patch / passes without; whole suite passes with patch) - see confirmed_by_me", f"./seedrun2.sh seeded/{sid}/patch.diff {prop} quick   (scratch worktree of /repo HEAD + patch, scratch copy of /verif pointed at it)"]
        json.dump(m, open(f"{d}/meta.json", "w"), indent=1)
    except Exception as e:
        print("meta update failed", e)
    json.dump(res, open(RESULTS, "w"), indent=1)
print("detected", sum(1 for v in res.values() if v.get("detected")), "of", len(res))
