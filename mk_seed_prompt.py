#!/usr/bin/env python3
"""Prepare a sub-agent prompt + scratch worktree for one more round of seeded defects.

usage: mk_seed_prompt.py <root_dir> <variant1> <variant2> <Cnn> [<Cnn> ...]
  creates <root_dir>/<Cnn> (detached worktree of /repo HEAD) and <root_dir>/<Cnn>.prompt.txt.
The prompt contains ONLY the property text (id, title, statement, quantifier) and one-line
summaries of the defects other people already produced for it (from seeded/<Cnn>-*/meta.json),
nothing else from /verif.
"""
import json, os, subprocess, sys, glob

root, v1, v2, props = sys.argv[1], sys.argv[2], sys.argv[3], sys.argv[4:]
P = {json.loads(l)["id"]: json.loads(l) for l in open("/verif/properties.jsonl")}
os.makedirs(root, exist_ok=True)
for pid in props:
    p = P[pid]
    wt = f"{root}/{pid}"
    if not os.path.isdir(wt):
        subprocess.run(["git", "-C", "/repo", "worktree", "add", "--detach", wt, "HEAD"], check=True, capture_output=True)
    prior = []
    for m in sorted(glob.glob(f"/verif/seeded/{pid}-*/meta.json")):
        prior.append(json.load(open(m)).get("breaks", "")[:300].replace("\n", " "))
    prior_txt = " ".join(f"({i + 1}) {t}" for i, t in enumerate(prior))
    txt = f"""You are helping test a verification effort for the Rust repository awslabs/metrique (crates for unit-of-work metrics: a #[metrics] proc macro, an Amazon EMF JSON formatter, a background writer queue, aggregation/histogram sinks). Your job is to write *seeded defects*: realistic source changes that BREAK one stated semantic property while the code still compiles and the existing test-suite still passes.

You have your own scratch git worktree of the repository at: {wt}
Work ONLY inside that directory. Never read, list or modify /verif or /repo (they are off limits; your result must be independent of them). The sandbox has no network; use `cargo ... --offline`. The machine is shared: use at most `-j 6` for cargo builds/tests (e.g. `cargo nextest run --workspace --offline --no-fail-fast -j 6 --build-jobs 6`, or `cargo test --workspace --offline -j 6`).

The property (this is all you are told about it):

Property {pid}: {p['title']}

Statement: {p['statement']}

Quantified over: {p['quantifier']['text']}


Task: produce TWO different changes (call them {v1} and {v2}) to the library source (not to tests) such that for each:
 1. the workspace still compiles, and the existing test-suite still passes completely with the change applied (run the whole suite: `cargo nextest run --workspace --offline --no-fail-fast -j 6 --build-jobs 6`; 349 tests; a couple of trybuild "ui" tests are slow-ish but pass);
 2. the property above is violated by the changed code;
 3. the violation needs something SPECIFIC to manifest - a particular interleaving or race window, a fault at a particular point, a multi-step sequence of operations, an unusual input or configuration, or two cooperating sites that each look fine alone. Do NOT make changes that ordinary use would expose at once (e.g. "drop every entry"). Prefer the kind of bug a real maintainer could plausibly introduce in a refactor or "optimisation": an off-by-one, a wrong ordering of two statements, a missing wake-up, a wrong comparison operator, a cleared/un-cleared buffer, a lost update, a relaxed check. {v1} and {v2} should break the property in different ways / at different code sites. Make them HARD to detect: prefer defects that only show under a rare interleaving, a rare input value or configuration, after a long or unusual sequence of operations, or that corrupt only a small part of the observable behaviour (one entry out of many, one field, one corner of the input space). Other people already produced the following defects for this property; do NOT repeat them or close variants of them: {prior_txt}
 4. you provide a demonstration: a new test file or small program (it may live in the worktree, e.g. a new file under some crate's tests/ directory or examples/) that FAILS (or hangs past a generous timeout that you enforce yourself) with the change and PASSES without it. If the bug is schedule-dependent, the demonstration may force the schedule (sleeps, gates, loops until it shows) - say how reliable it is. Run the demonstration both ways yourself and report the outputs.

The code contains a few `#[cfg(metrique_verif)]` lines: these are inert instrumentation hooks; leave them alone (do not rely on them, do not remove them).

Deliverables - create these files (and nothing else outside the worktree):
  {wt}/_out/{v1}/patch.diff      (output of `git diff` for the library change ONLY, relative to the worktree root, applicable with `git apply`)
  {wt}/_out/{v1}/demo/...        (the demonstration file(s), plus {wt}/_out/{v1}/demo/README.md: where the file must be placed in the tree, the exact command to run it, expected output with and without the patch)
  {wt}/_out/{v1}/meta.json       ({{"property": "{pid}", "summary": "...", "needs_to_manifest": "...", "files_changed": [...], "ran": ["commands you ran and their result"], "suite_passes_with_patch": true/false}})
  and the same under {wt}/_out/{v2}/.
When you are done, restore the worktree source to its original state (`git checkout -- .`; leave _out/ in place), delete the worktree's `target/` directory to free disk space, and reply with a short summary of {v1} and {v2} (what was changed, how it manifests, how reliable the demo is). If you could only produce one, say so.
"""
    open(f"{root}/{pid}.prompt.txt", "w").write(txt)
    print("prepared", pid)
