#!/bin/sh
# usage: mutrun.sh <file-in-repo> <python-old-string> <python-new-string> -- <command...>
# applies a textual mutation to /repo, runs the command from /verif, always reverts.
f="$1"; old="$2"; new="$3"; shift 4
python3 - "$f" "$old" "$new" <<'PY' || exit 9
import sys
p='/repo/'+sys.argv[1]; s=open(p).read()
old=sys.argv[2]; new=sys.argv[3]
assert s.count(old)>=1, "pattern not found"
open(p,'w').write(s.replace(old,new,1))
PY
cd /verif && "$@"; rc=$?
git -C /repo checkout -- . ; echo "mutrun exit=$rc"
