#!/usr/bin/env python3
"""Validate MANIFEST.json and every evidence file against the given schemas (run with python3-vt)."""
import json, sys, glob
import jsonschema
ok = True
m = json.load(open('/verif/MANIFEST.json'))
jsonschema.validate(m, json.load(open('/root/.vp/MANIFEST.schema.json')))
print("MANIFEST valid;", len(m['checks']), "checks")
s = json.load(open('/root/.vp/EVIDENCE.schema.json'))
for f in sorted(glob.glob('/verif/evidence/C*.json')):
    try:
        jsonschema.validate(json.load(open(f)), s)
        print("ok", f)
    except Exception as e:
        ok = False
        print("INVALID", f, str(e)[:300])
sys.exit(0 if ok else 1)
