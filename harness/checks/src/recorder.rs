//! A local `metrics::Recorder` that sums counter increments / keeps histogram samples by name,
//! used to observe `metrique_queue_overflows` and friends.

use metrics::{
    Counter, CounterFn, Gauge, GaugeFn, Histogram, HistogramFn, Key, KeyName, Metadata, Recorder,
    SharedString, Unit,
};
use std::collections::BTreeMap;
use std::sync::atomic::{AtomicU64, Ordering};
use std::sync::{Arc, Mutex};

#[derive(Default)]
pub struct Counts {
    counters: Mutex<BTreeMap<String, Arc<AtomicU64>>>,
    /// the same increments, kept apart by (name, label values)
    labelled: Mutex<BTreeMap<(String, Vec<String>), Arc<AtomicU64>>>,
    /// while set, every histogram `record` call blocks (the caller is held inside the recorder)
    pub hold_histograms: std::sync::atomic::AtomicBool,
    /// number of histogram `record` calls currently held
    pub held: AtomicU64,
    histograms: Mutex<BTreeMap<String, Arc<Mutex<Vec<f64>>>>>,
}

impl Counts {
    pub fn counter(&self, name: &str) -> u64 {
        self.counters
            .lock()
            .unwrap()
            .get(name)
            .map(|c| c.load(Ordering::SeqCst))
            .unwrap_or(0)
    }
    /// sum over the counters called `name` that carry a label with this value
    pub fn counter_with_label_value(&self, name: &str, value: &str) -> u64 {
        self.labelled.lock().unwrap().iter().filter(|((n, l), _)| n == name && l.iter().any(|v| v == value)).map(|(_, c)| c.load(Ordering::SeqCst)).sum()
    }
    /// label value lists under which `name` was registered
    pub fn label_sets(&self, name: &str) -> Vec<Vec<String>> {
        self.labelled.lock().unwrap().keys().filter(|(n, _)| n == name).map(|(_, l)| l.clone()).collect()
    }
    pub fn histogram_len(&self, name: &str) -> usize {
        self.histograms.lock().unwrap().get(name).map(|h| h.lock().unwrap().len()).unwrap_or(0)
    }
}

#[derive(Clone, Default)]
pub struct CountingRecorder(pub Arc<Counts>);

struct C(Arc<AtomicU64>, Arc<AtomicU64>);
impl CounterFn for C {
    fn increment(&self, value: u64) {
        self.0.fetch_add(value, Ordering::SeqCst);
        self.1.fetch_add(value, Ordering::SeqCst);
    }
    fn absolute(&self, value: u64) {
        self.0.fetch_max(value, Ordering::SeqCst);
        self.1.fetch_max(value, Ordering::SeqCst);
    }
}
struct H(Arc<Mutex<Vec<f64>>>, Arc<Counts>);
impl HistogramFn for H {
    fn record(&self, value: f64) {
        if self.1.hold_histograms.load(Ordering::SeqCst) {
            self.1.held.fetch_add(1, Ordering::SeqCst);
            while self.1.hold_histograms.load(Ordering::SeqCst) {
                std::thread::sleep(std::time::Duration::from_micros(200));
            }
            self.1.held.fetch_sub(1, Ordering::SeqCst);
        }
        self.0.lock().unwrap().push(value);
    }
}
struct G;
impl GaugeFn for G {
    fn increment(&self, _value: f64) {}
    fn decrement(&self, _value: f64) {}
    fn set(&self, _value: f64) {}
}

impl Recorder for CountingRecorder {
    fn describe_counter(&self, _key: KeyName, _unit: Option<Unit>, _description: SharedString) {}
    fn describe_gauge(&self, _key: KeyName, _unit: Option<Unit>, _description: SharedString) {}
    fn describe_histogram(&self, _key: KeyName, _unit: Option<Unit>, _description: SharedString) {}
    fn register_counter(&self, key: &Key, _metadata: &Metadata<'_>) -> Counter {
        let c = self
            .0
            .counters
            .lock()
            .unwrap()
            .entry(key.name().to_string())
            .or_default()
            .clone();
        let labels: Vec<String> = key.labels().map(|l| l.value().to_string()).collect();
        let l = self.0.labelled.lock().unwrap().entry((key.name().to_string(), labels)).or_default().clone();
        Counter::from_arc(Arc::new(C(c, l)))
    }
    fn register_gauge(&self, _key: &Key, _metadata: &Metadata<'_>) -> Gauge {
        Gauge::from_arc(Arc::new(G))
    }
    fn register_histogram(&self, key: &Key, _metadata: &Metadata<'_>) -> Histogram {
        let h = self
            .0
            .histograms
            .lock()
            .unwrap()
            .entry(key.name().to_string())
            .or_default()
            .clone();
        Histogram::from_arc(Arc::new(H(h, self.0.clone())))
    }
}
