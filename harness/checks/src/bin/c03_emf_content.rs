//! C03 — EMF records carry exactly the entry's values, units, counts, dimensions and time.
//! Shape R: parsed output vs an independent reference interpretation of the same entry
//! replayed into a recording EntryWriter. See DESIGN.md §7 C03.

use checks::emf_util::*;
use metrique_writer::format::Format;
use metrique_writer::sample::SampledFormat;
use metrique_writer_format_emf::{Emf, SampledEmf};
use std::sync::Arc;
use std::sync::atomic::{AtomicU64, Ordering};
use std::time::{Duration, Instant};
use vcommon::recording::{ProgramEntry, log_json, record};
use vcommon::serde_json::json;
use vcommon::{Args, Fnv, Report, Rng};

/// an RNG whose (constant) output is set by the harness before every entry
pub struct ScriptRng(pub Arc<AtomicU64>);
impl ScriptRng {
    fn v(&self) -> u64 {
        self.0.load(Ordering::Relaxed)
    }
}
impl rand::RngCore for ScriptRng {
    fn next_u32(&mut self) -> u32 {
        (self.v() >> 32) as u32
    }
    fn next_u64(&mut self) -> u64 {
        self.v()
    }
    fn fill_bytes(&mut self, dst: &mut [u8]) {
        for (i, b) in dst.iter_mut().enumerate() {
            *b = (self.v() >> (8 * (i % 8))) as u8;
        }
    }
}

/// The formatters under test live as long as their configuration is in use: entries are
/// formatted one after the other by the same object, with output failures in between.
struct Formatters {
    plain: Emf,
    sampled: SampledEmf<ScriptRng>,
    draw: Arc<AtomicU64>,
}

/// an output that accepts `budget` bytes and then fails every write
struct FailingOutput {
    budget: usize,
    written: usize,
}
impl std::io::Write for FailingOutput {
    fn write(&mut self, buf: &[u8]) -> std::io::Result<usize> {
        if self.written + buf.len() > self.budget {
            let n = self.budget - self.written;
            if n == 0 {
                return Err(std::io::Error::other("injected output failure"));
            }
            self.written += n;
            return Ok(n);
        }
        self.written += buf.len();
        Ok(buf.len())
    }
    fn flush(&mut self) -> std::io::Result<()> {
        Ok(())
    }
}

/// floor and ceiling of 1/rate computed exactly from the f32 bits (rate in (0,1], 1/rate < 2^63)
fn inv_floor_ceil(rate: f32) -> (u64, u64) {
    // rate = m * 2^e exactly, with integer m
    let bits = rate.to_bits();
    let exp = ((bits >> 23) & 0xff) as i32;
    let frac = (bits & 0x7f_ffff) as u128;
    let (m, e) = if exp == 0 { (frac, -149) } else { (frac | 0x80_0000, exp - 150) };
    // 1/rate = 2^-e / m
    assert!(e <= 0);
    let sh = (-e) as u32;
    assert!(sh < 127);
    let num: u128 = 1u128 << sh;
    let fl = num / m;
    let ce = if num % m == 0 { fl } else { fl + 1 };
    (fl as u64, ce as u64)
}

fn check_one(cfg: &Cfg, fm: &mut Formatters, history: &str, e: &ProgramEntry, sampling: Option<(f32, u64)>, start_millis: u128, rep: &Report) -> bool {
    let log = record(e);
    let v = validity(&log, cfg);
    if v != Validity::Valid {
        rep.inconclusive(&format!("generator produced an entry outside the valid domain: {v:?} (harness error)"));
        return false;
    }
    let (res, bytes, candidates): (FmtResult, Vec<u8>, Vec<Option<u64>>) = match sampling {
        None => {
            let (r, b) = format_to_vec(&mut fm.plain, e);
            (r, b, vec![None])
        }
        Some((rate, draw)) => {
            fm.draw.store(draw, Ordering::Relaxed);
            let mut out = vec![];
            let r = fm.sampled.format_with_sample_rate(e, &mut out, rate);
            let (fl, ce) = inv_floor_ceil(rate);
            (
                match r {
                    Ok(()) => FmtResult::Ok,
                    Err(metrique_writer::IoStreamError::Validation(v)) => FmtResult::Validation(v.to_string()),
                    Err(metrique_writer::IoStreamError::Io(i)) => FmtResult::Io(i.to_string()),
                },
                out,
                {
                    // below 2^53 the weight is the floor or the ceiling of 1/rate; above, "within 1 of 1/rate"
                    let mut c = vec![fl, ce];
                    if fl >= 1 << 53 {
                        // evaluated in double precision there (see C12): within 1 of the rounded quotient
                        let inv = (1.0f64 / rate as f64) as u64;
                        c.extend([fl - 1, ce.saturating_add(1), inv.saturating_sub(1), inv, inv.saturating_add(1)]);
                    }
                    c.sort_unstable();
                    c.dedup();
                    c.into_iter().map(Some).collect()
                },
            )
        }
    };
    let witness = |what: &str| json!({"what": what, "earlier_uses_of_this_formatter": history, "cfg": cfg.json(), "entry": e.json(), "recorded_log": log_json(&log), "sampling": format!("{sampling:?}"), "result": format!("{res:?}"), "output": short(&bytes)});
    if res != FmtResult::Ok {
        rep.violation("valid-entry-rejected", witness("an entry inside the documented domain was not accepted"));
        return false;
    }
    let lines = match parse_output(&bytes) {
        ParseOutcome::Ok(l) => l,
        ParseOutcome::Malformed(m) => {
            rep.violation("invalid-json", witness(&m));
            return false;
        }
        ParseOutcome::HarnessDisagreement(m) => {
            rep.inconclusive(&m);
            return false;
        }
    };
    let ts = expected_timestamp_millis(&log);
    let mut errs = vec![];
    for m in &candidates {
        let exp = expected_records(&log, cfg, *m);
        match records_match(&lines, &exp, cfg, ts, start_millis) {
            Ok(()) => {
                rep.count("records_compared", lines.len() as u64);
                rep.count("members_compared", exp.iter().map(|r| r.members.len() as u64).sum());
                if lines.len() > 1 {
                    rep.count("entries_with_split_records", 1);
                }
                if sampling.is_some() {
                    rep.count("entries_sampled", 1);
                }
                return true;
            }
            Err(e) => errs.push(format!("multiplicity {m:?}: {e}")),
        }
    }
    rep.violation("record-content-differs-from-reference", witness(&errs.join(" || ")));
    false
}

fn main() {
    let args = Args::parse();
    let rep = Report::new("C03", &args);
    rep.rule(
        "generated entries inside the documented domain (unique names, declared dimensions written as strings, per-metric dimensions only with \
         split or ignored-dimension mode, optional entry dimensions, any observations incl. NaN/inf/zero occurrences/u64 above 2^53, any unit, flags) x all formatter \
         configurations x sampling with a scripted RNG; one formatter object serves the 1-6 entries of a configuration, with injected output failures (Io errors) in between; oracle: the parsed records equal (as a multiset) the records computed by an independent reference \
         from the entry's recorded call log: members, exact number tokens, Values/Counts, unit/StorageResolution definitions in every namespace, dimension sets, Timestamp, LogGroupName. \
         distinct = distinct (entry shape, configuration) hashes",
    );
    let start_millis = now_millis();
    let budget = Duration::from_secs(args.get_u64("secs", args.by_tier(15, 200)));
    let start = Instant::now();
    std::thread::scope(|s| {
        for lane in 0..args.get_u64("lanes", 12) {
            let rep = &rep;
            let args = &args;
            s.spawn(move || {
                let mut rng = Rng::derive(args.seed, lane);
                while start.elapsed() < budget && rep.violation_count() == 0 {
                    let validate = *rng.pick(&[Validate::All, Validate::Off, Validate::BuilderDefault, Validate::BuilderSkipFalse]);
                    let hostile = rng.bool();
                    let cfg = gen_cfg(&mut rng, hostile, validate);
                    let draw = Arc::new(AtomicU64::new(0));
                    let mut fm = Formatters { plain: cfg.build(), sampled: cfg.build().with_sampling_and_rng(ScriptRng(draw.clone())), draw };
                    let mut history = String::new();
                    for _ in 0..1 + rng.below(6) {
                        let (ht, big) = (rng.bool(), rng.below(50) == 0);
                        if rng.below(4) == 0 {
                            // the output breaks while some entry is being written: an I/O error (never a
                            // validation error) is reported, and the formatter must be as good as new afterwards
                            let victim = gen_valid_entry(&mut rng, &cfg, ht, false);
                            let budget = if rng.bool() { rng.usize_below(60) } else { rng.usize_below(1500) };
                            let mut out = FailingOutput { budget, written: 0 };
                            let use_sampled = rng.bool();
                            let r = if use_sampled { fm.sampled.format_with_sample_rate(&victim, &mut out, 1.0) } else { fm.plain.format(&victim, &mut out) };
                            if let Err(metrique_writer::IoStreamError::Validation(v)) = &r {
                                rep.violation("valid-entry-rejected", json!({"what": "formatting a valid entry into a failing output reported a validation error", "error": v.to_string(), "entry": victim.json(), "cfg": cfg.json()}));
                                return;
                            }
                            rep.count(if r.is_err() { "output_failures_injected" } else { "output_failure_budget_not_reached" }, 1);
                            history.push_str(&format!("[{} formatter: output failed after {budget} bytes -> {}] ", if use_sampled { "sampled" } else { "plain" }, if r.is_err() { "Io error" } else { "fit" }));
                        }
                        let e = gen_valid_entry(&mut rng, &cfg, ht, big);
                        let sampling = match rng.below(3) {
                            0 => Some((
                                *rng.pick(&[1.0f32, 0.5, 0.3, 0.1, 0.7, 1e-3, 3e-5, 1e-10, 0.999_999_9, f32::EPSILON, 1.0 / 3.0, 2.0f32.powi(-40), 2.0f32.powi(-62)]),
                                *rng.pick(&[0u64, u64::MAX, 1 << 63, 0x1234_5678_9abc_def0]),
                            )),
                            _ => None,
                        };
                        rep.eval();
                        let mut h = Fnv::new();
                        h.str(&format!("{:?}", e.ops.iter().map(|o| format!("{o:?}").len()).collect::<Vec<_>>()));
                        h.str(&cfg.json().to_string()).u64(sampling.is_some() as u64);
                        rep.distinct(h.finish());
                        if rep.want_sample() && rng.below(100) == 0 {
                            rep.sample(|| json!({"cfg": cfg.json(), "entry": e.json(), "sampling": format!("{sampling:?}")}));
                        }
                        if !check_one(&cfg, &mut fm, &history, &e, sampling, start_millis, rep) {
                            return;
                        }
                        history.push_str(if sampling.is_some() { "[sampled: entry ok] " } else { "[plain: entry ok] " });
                    }
                }
            });
        }
    });
    rep.finish_and_exit();
}
