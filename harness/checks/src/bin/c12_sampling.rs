//! C12 — sampling is consistent and unbiased: emit iff draw <= rate, mean weight 1/rate.
//! Shapes R + I (hooks H5/H6). See DESIGN.md §7 C12.

use checks::emf_util::*;
use metrique_writer::format::Format;
use metrique_writer::sample::{CongressSampleBuilder, FixedFractionSample, SampledFormat};
use metrique_writer::{Entry, IoStreamError};
use rand::Rng as _;
use std::io;
use std::sync::{Arc, Mutex};
use std::time::{Duration, Instant};
use vcommon::recording::{Obs, POp, PVal, ProgramEntry};
use vcommon::serde_json::json;
use vcommon::strict_json::Js;
use vcommon::{Args, Fnv, Report, Rng};

#[derive(Clone)]
pub struct ConstRng(pub u64);
impl rand::RngCore for ConstRng {
    fn next_u32(&mut self) -> u32 {
        (self.0 >> 32) as u32
    }
    fn next_u64(&mut self) -> u64 {
        self.0
    }
    fn fill_bytes(&mut self, dst: &mut [u8]) {
        for (i, b) in dst.iter_mut().enumerate() {
            *b = (self.0 >> (8 * (i % 8))) as u8;
        }
    }
}

/// a scripted generator whose state is shared with the harness, so that the harness can see
/// whether a draw was consumed and recompute it independently with `rand` itself
#[derive(Clone)]
pub struct SharedRng(Arc<Mutex<(u64, u64)>>, Arc<Mutex<Option<u64>>>); // (xorshift state, words drawn), word forced for the next draw
impl SharedRng {
    fn new(seed: u64) -> Self {
        SharedRng(Arc::new(Mutex::new((seed | 1, 0))), Default::default())
    }
    fn snapshot(&self) -> (u64, u64) {
        *self.0.lock().unwrap()
    }
    /// the next word drawn will be `w` (the xorshift state is not advanced by that draw)
    fn force_next(&self, w: u64) {
        *self.1.lock().unwrap() = Some(w);
    }
    fn forced(&self) -> Option<u64> {
        *self.1.lock().unwrap()
    }
}
fn xorshift(s: &mut u64) -> u64 {
    *s ^= *s << 13;
    *s ^= *s >> 7;
    *s ^= *s << 17;
    *s
}
impl rand::RngCore for SharedRng {
    fn next_u32(&mut self) -> u32 {
        (self.next_u64() >> 32) as u32
    }
    fn next_u64(&mut self) -> u64 {
        let mut g = self.0.lock().unwrap();
        g.1 += 1;
        if let Some(w) = self.1.lock().unwrap().take() {
            return w;
        }
        xorshift(&mut g.0)
    }
    fn fill_bytes(&mut self, dst: &mut [u8]) {
        for c in dst.chunks_mut(8) {
            let v = self.next_u64().to_le_bytes();
            c.copy_from_slice(&v[..c.len()]);
        }
    }
}
/// a private copy that starts from a snapshot: what `rand` would draw next
struct Replay(u64);
impl rand::RngCore for Replay {
    fn next_u32(&mut self) -> u32 {
        (self.next_u64() >> 32) as u32
    }
    fn next_u64(&mut self) -> u64 {
        xorshift(&mut self.0)
    }
    fn fill_bytes(&mut self, dst: &mut [u8]) {
        for c in dst.chunks_mut(8) {
            let v = self.next_u64().to_le_bytes();
            c.copy_from_slice(&v[..c.len()]);
        }
    }
}

// ------------------------------------------------------------------------------------------
// 1. the weight split (hook H6)

/// exact floor(1/rate) and remainder for rate = m * 2^e; requires rate >= 2^-63
fn exact_inverse(rate: f32) -> (u128, u128, u128) {
    let bits = rate.to_bits();
    let exp = ((bits >> 23) & 0xff) as i32;
    let frac = (bits & 0x7f_ffff) as u128;
    let (m, e) = if exp == 0 { (frac, -149) } else { (frac | 0x80_0000, exp - 150) };
    let sh = (-e) as u32;
    let num: u128 = 1u128 << sh;
    (num / m, num % m, m)
}

#[cfg(metrique_verif)]
fn check_rate(rate: f32, rep: &Report) -> bool {
    use metrique_writer_format_emf::{verif_rate_to_n, verif_rate_to_n_alpha};
    let two_m63 = 2.0f32.powi(-63);
    let n0 = verif_rate_to_n(rate, &mut ConstRng(0));
    let n1 = verif_rate_to_n(rate, &mut ConstRng(u64::MAX));
    let bad = |kind: &str, what: &str, extra: vcommon::serde_json::Value| {
        rep.violation(kind, json!({"what": what, "rate": format!("{rate:e}"), "rate_bits": format!("{:#010x}", rate.to_bits()), "n_at_draw_0": n0.to_string(), "n_at_draw_max": n1.to_string(), "extra": extra}));
        false
    };
    if rate < two_m63 {
        if n0 != u64::MAX || n1 != u64::MAX {
            return bad("weight-not-saturated", "rate below 2^-63 must give the largest 64-bit weight", json!({}));
        }
        return true;
    }
    let (fl, rem, m) = exact_inverse(rate);
    let ce = if rem == 0 { fl } else { fl + 1 };
    if fl < (1u128 << 53) {
        for n in [n0, n1] {
            if n as u128 != fl && n as u128 != ce {
                return bad("weight-not-floor-or-ceiling", "weight is neither floor nor ceiling of 1/rate (1/rate < 2^53)", json!({"floor": fl.to_string(), "ceil": ce.to_string()}));
            }
        }
        // expectation over the draw: n_lo + 1 - P(draw < alpha) must be 1/rate
        let (n_lo, alpha) = verif_rate_to_n_alpha(rate);
        let p = if alpha <= 0.0 {
            0.0
        } else if alpha >= 1.0 {
            1.0
        } else {
            // draw = k / 2^53, k uniform in 0..2^53: P(draw < alpha) = ceil(alpha * 2^53) / 2^53
            (alpha * 9007199254740992.0).ceil() / 9007199254740992.0
        };
        let diff = (n_lo as i128 - fl as i128) as f64 + 1.0 - p - (rem as f64 / m as f64);
        let tol = 2f64.powi(-50) * (fl as f64).max(1.0);
        if diff.abs() > tol {
            return bad("weight-expectation-biased", "expected weight over the draw differs from 1/rate", json!({"n_lo": n_lo.to_string(), "alpha": alpha, "bias": diff, "tolerance": tol}));
        }
    } else {
        // above 2^53 doubles no longer resolve integers: "1/rate" is the correctly rounded
        // double-precision quotient (an integer), and the weight must be within 1 of it
        let inv = 1.0f64 / (rate as f64);
        let inv_int = inv as u128;
        // sanity of the harness: the rounded quotient is within one double-spacing of the exact value
        let spacing = (fl >> 52).max(1);
        if inv_int.abs_diff(fl) > spacing {
            rep.inconclusive("harness: rounded 1/rate further than one ulp from the exact value");
            return false;
        }
        for n in [n0, n1] {
            if (n as u128).abs_diff(inv_int) > 1 {
                return bad("weight-not-within-one", "weight is not within 1 of 1/rate (1/rate >= 2^53, evaluated in double precision)", json!({"exact_floor": fl.to_string(), "double_quotient": inv_int.to_string()}));
            }
        }
    }
    true
}

#[cfg(metrique_verif)]
fn rates_part(args: &Args, rep: &Report) {
    let exhaustive = args.get_u64("all_f32", 0) == 1;
    // positive f32 up to 1.0: bit patterns 1 ..= 0x3f800000
    let top = 0x3f80_0000u32;
    let threads = args.get_u64("lanes", 14) as u32;
    let stride = if exhaustive { 1 } else { args.get_u64("stride", 251) as u32 };
    let counted = std::sync::atomic::AtomicU64::new(0);
    std::thread::scope(|s| {
        for t in 0..threads {
            let counted = &counted;
            s.spawn(move || {
                let mut b = 1 + t * stride;
                let mut n = 0u64;
                while b <= top {
                    if !check_rate(f32::from_bits(b), rep) {
                        return;
                    }
                    n += 1;
                    if n % 65536 == 0 && rep.violation_count() > 0 {
                        return;
                    }
                    b = match b.checked_add(stride * threads) {
                        Some(x) => x,
                        None => break,
                    };
                }
                counted.fetch_add(n, std::sync::atomic::Ordering::SeqCst);
            });
        }
    });
    let mut n = counted.load(std::sync::atomic::Ordering::SeqCst);
    // the corners: powers of two +-1 ulp, subnormals, 1.0, the 2^-63 and 2^-53 thresholds
    for e in -149..=0 {
        let p = 2f32.powi(e);
        for d in [-2i32, -1, 0, 1, 2] {
            let b = (p.to_bits() as i64 + d as i64).clamp(1, top as i64) as u32;
            if !check_rate(f32::from_bits(b), rep) {
                return;
            }
            n += 1;
        }
    }
    for r in [0.3f32, 0.1, 1.0 / 3.0, 0.7, 1e-3, 3e-9, 1e-6, 3e-5, f32::MIN_POSITIVE, f32::EPSILON] {
        if !check_rate(r, rep) {
            return;
        }
        n += 1;
    }
    rep.eval_n(n);
    rep.set("rates_checked", n);
    rep.set("rates_exhaustive_all_f32_in_0_1", exhaustive as u64);
    rep.distinct_many((0..64).map(|i| Fnv::new().str("rate-class").u64(i).finish()));
    rep.sample(|| json!({"rate": "0.3", "exact_floor_of_inverse": exact_inverse(0.3).0.to_string(), "n_at_draw_0": metrique_writer_format_emf::verif_rate_to_n(0.3, &mut ConstRng(0))}));
}

// ------------------------------------------------------------------------------------------
// 2. through the public API

fn counts_of(rec: &Js) -> Vec<(String, Vec<String>)> {
    let mut out = vec![];
    for (k, v) in rec.members().unwrap_or(&[]) {
        if let Some(c) = v.get("Counts").and_then(|c| c.arr()) {
            out.push((k.clone(), c.iter().map(|x| x.num().unwrap_or("?").to_string()).collect()));
        }
    }
    out
}

/// The library's DEFAULT rng (no rng injected): for rates whose reciprocal is not an integer the
/// weight must take both neighbouring integers, in the proportion that makes its mean 1/rate.
/// The margins are 8 standard deviations wide (a false alarm has probability below 1e-14).
fn default_rng_part(rep: &Report) {
    let cfg = Cfg { validate: Validate::All, namespaces: vec!["NS".into()], default_dims: vec![vec![]], directives: vec![], log_group: None, ignored_dims: false };
    let e = ProgramEntry::new(vec![POp::Value("one".into(), PVal::Metric { obs: vec![Obs::U(7), Obs::U(9)], unit: metrique_writer_core::Unit::None, dims: vec![], flags: None })]);
    let n = 6000u64;
    for rate in [0.4f32, 0.75, 0.3, 0.013] {
        let mut s = cfg.build().with_sampling();
        let inv = 1.0 / rate as f64;
        let (lo, hi) = (inv.floor() as u64, inv.ceil() as u64);
        let p_hi = inv - inv.floor();
        let (mut n_lo, mut n_hi, mut other) = (0u64, 0u64, None);
        for _ in 0..n {
            let mut out = vec![];
            if s.format_with_sample_rate(&e, &mut out, rate).is_err() {
                rep.inconclusive("formatting a plain entry with the default rng failed (harness error)");
                return;
            }
            let weights: Vec<String> = match parse_output(&out) {
                ParseOutcome::Ok(lines) => lines.iter().flat_map(counts_of).flat_map(|c| c.1).collect(),
                _ => vec![],
            };
            match weights.first().and_then(|w| w.parse::<u64>().ok()) {
                Some(w) if w == lo => n_lo += 1,
                Some(w) if w == hi => n_hi += 1,
                w => other = Some(format!("{w:?} in {weights:?}")),
            }
            rep.eval();
        }
        let sd = (n as f64 * p_hi * (1.0 - p_hi)).sqrt();
        let dev = (n_hi as f64 - n as f64 * p_hi).abs();
        if other.is_some() || n_hi == 0 || n_lo == 0 || dev > 8.0 * sd {
            rep.violation(
                "default-rng-weights-biased",
                json!({"what": "sampled formatter with the library's default rng: the weight (Counts entry) must be floor(1/rate) or ceil(1/rate), the upper one with probability frac(1/rate), so that the expected weight is 1/rate",
                       "rate": rate, "formats": n, "weight_low": lo, "times_low": n_lo, "weight_high": hi, "times_high": n_hi, "expected_times_high": n as f64 * p_hi, "standard_deviation": sd, "other_weight_seen": other}),
            );
            return;
        }
        rep.count("default_rng_weights_checked", n);
    }
}

fn public_api_part(args: &Args, rep: &Report) {
    let mut rng = Rng::derive(args.seed, 0x12);
    let cfg = Cfg { validate: Validate::All, namespaces: vec!["NS".into()], default_dims: vec![vec![]], directives: vec![], log_group: None, ignored_dims: false };
    let rounds = args.get_u64("api_rounds", args.by_tier(20_000, 200_000));
    for _ in 0..rounds {
        let rate = match rng.below(5) {
            0 => *rng.pick(&[1.0f32, 0.5, 0.3, 0.1, 1e-3, 3e-9, 2e-19, 1e-30, f32::MIN_POSITIVE]),
            1 => f32::from_bits(1 + rng.below(0x3f80_0000) as u32),
            2 => *rng.pick(&[0.0f32, -0.0, -1.0, f32::NAN, f32::NEG_INFINITY]),
            _ => (rng.f64() as f32).max(f32::MIN_POSITIVE),
        };
        let rnd = rng.next_u64();
        let draw = *rng.pick(&[0u64, u64::MAX, 1 << 63, rnd]);
        let occs: Vec<u64> = (0..1 + rng.below(3)).map(|_| 1 + rng.below(50)).collect();
        let mut ops = vec![POp::Value("plain".into(), PVal::Metric { obs: vec![Obs::U(5), Obs::F(2.5f64.to_bits())], unit: metrique_writer_core::Unit::None, dims: vec![], flags: None })];
        ops.push(POp::Value("rep".into(), PVal::Metric { obs: occs.iter().map(|o| Obs::R { total: (*o as f64 * 2.0).to_bits(), occ: *o }).collect(), unit: metrique_writer_core::Unit::Count, dims: vec![], flags: None }));
        let split = rng.bool();
        if split {
            ops.insert(0, POp::Config(Arc::new(metrique_writer_core::config::AllowSplitEntries::new())));
            ops.push(POp::Value("dimmed".into(), PVal::Metric { obs: vec![Obs::U(1), Obs::U(2)], unit: metrique_writer_core::Unit::None, dims: vec![("k".into(), "v".into())], flags: None }));
        }
        let e = ProgramEntry::new(ops);
        let mut s = cfg.build().with_sampling_and_rng(ConstRng(draw));
        let mut out = vec![];
        let r = s.format_with_sample_rate(&e, &mut out, rate);
        rep.eval();
        let witness = |what: &str| json!({"what": what, "rate": format!("{rate:e}"), "draw_word": draw.to_string(), "output": short(&out)});
        if rate <= 0.0 || rate.is_nan() {
            if !matches!(r, Err(IoStreamError::Validation(_))) || !out.is_empty() {
                rep.violation("bad-rate-not-rejected", witness("a non-positive or NaN rate must give a validation error and no output"));
                return;
            }
            rep.count("bad_rates_rejected", 1);
            continue;
        }
        if r.is_err() {
            rep.violation("sampled-format-failed", witness("format_with_sample_rate failed for a valid rate"));
            return;
        }
        let ParseOutcome::Ok(lines) = parse_output(&out) else {
            rep.violation("sampled-output-not-json", witness("output is not valid JSON"));
            return;
        };
        #[cfg(metrique_verif)]
        let n_hook = metrique_writer_format_emf::verif_rate_to_n(rate, &mut ConstRng(draw));
        let mut ns: Vec<u128> = vec![];
        for l in &lines {
            for (name, counts) in counts_of(l) {
                let occ: Vec<u64> = match name.as_str() {
                    "plain" => vec![1, 1],
                    "rep" => occs.clone(),
                    "dimmed" => vec![1, 1],
                    _ => continue,
                };
                if counts.len() != occ.len() {
                    rep.violation("counts-length", witness("Counts length differs from the number of observations"));
                    return;
                }
                for (c, o) in counts.iter().zip(&occ) {
                    let c: u128 = c.parse().unwrap_or(u128::MAX);
                    // counts saturate at u64::MAX
                    if c == u64::MAX as u128 {
                        continue;
                    }
                    if c % *o as u128 != 0 {
                        rep.violation("count-not-multiple-of-occurrences", witness(&format!("count {c} of {name} is not a multiple of its occurrences {o}")));
                        return;
                    }
                    ns.push(c / *o as u128);
                }
            }
        }
        ns.sort_unstable();
        ns.dedup();
        if ns.len() > 1 {
            rep.violation("different-weights-in-one-entry", witness(&format!("the counts of one entry imply different weights {ns:?}")));
            return;
        }
        #[cfg(metrique_verif)]
        if let Some(n) = ns.first() {
            if *n != n_hook as u128 {
                rep.violation("weight-differs-from-split", witness(&format!("weight {n} applied to the record differs from the rate->n split {n_hook} for the same draw")));
                return;
            }
        }
        rep.count("sampled_entries_checked", 1);
        rep.distinct(Fnv::new().u64(rate.to_bits() as u64 >> 20).u64(split as u64).finish());
    }
}

// ------------------------------------------------------------------------------------------
// 3. decision consistency

/// records (entry id, rate) of every call that reaches the wrapped format; the log is shared
/// with the harness
#[derive(Default, Clone)]
struct RecFormat {
    calls: Arc<Mutex<Vec<(u64, f32)>>>,
}
impl RecFormat {
    fn len(&self) -> usize {
        self.calls.lock().unwrap().len()
    }
    fn last(&self) -> (u64, f32) {
        *self.calls.lock().unwrap().last().unwrap()
    }
    fn clear(&self) {
        self.calls.lock().unwrap().clear()
    }
}
fn entry_id(e: &impl Entry) -> u64 {
    match vcommon::stream::classify(e) {
        vcommon::stream::EntryKind::Id(i) => i,
        _ => u64::MAX,
    }
}
impl SampledFormat for RecFormat {
    fn format_with_sample_rate(&mut self, entry: &impl Entry, _output: &mut impl io::Write, rate: f32) -> Result<(), IoStreamError> {
        self.calls.lock().unwrap().push((entry_id(entry), rate));
        Ok(())
    }
}
impl Format for RecFormat {
    fn format(&mut self, entry: &impl Entry, _output: &mut impl io::Write) -> Result<(), IoStreamError> {
        self.calls.lock().unwrap().push((entry_id(entry), f32::NAN));
        Ok(())
    }
}

fn group_entry(id: u64, group: &str) -> ProgramEntry {
    ProgramEntry { ops: vec![POp::Value("id".into(), PVal::Metric { obs: vec![Obs::U(id)], unit: metrique_writer_core::Unit::None, dims: vec![], flags: None })], sample_group: vec![("op".into(), group.into())] }
}

fn fixed_fraction_part(args: &Args, rep: &Report) {
    let mut rng = Rng::derive(args.seed, 0x33);
    for round in 0..args.get_u64("ff_rounds", args.by_tier(300, 3000)) {
        let rate = match rng.below(4) {
            0 => 1.0f32,
            1 => *rng.pick(&[0.5f32, 0.25, 1e-3, f32::MIN_POSITIVE, 0.999_999_94]),
            _ => (rng.f64() as f32).clamp(f32::MIN_POSITIVE, 1.0),
        };
        let shared = SharedRng::new(rng.next_u64());
        // the boundary case "draw == rate" has probability 2^-24 per call: force it by choosing
        // the rate to be exactly what the generator will draw at the k-th call
        let rate = if round % 3 == 0 {
            let mut r = Replay(shared.snapshot().0);
            let k = rng.below(5);
            let mut d = 0f32;
            for _ in 0..=k {
                d = r.random::<f32>();
            }
            if d > 0.0 { d } else { rate }
        } else {
            rate
        };
        let rec = RecFormat::default();
        let mut f = FixedFractionSample::with_rng(rec.clone(), rate, shared.clone());
        for id in 0..200u64 {
            let before = shared.snapshot();
            let ncalls = rec.len();
            let _ = f.format(&group_entry(id, "g"), &mut io::sink());
            let after = shared.snapshot();
            let emitted = rec.len() > ncalls;
            rep.eval();
            // recompute the draw with rand itself from the state before the call
            let draw: Option<f32> = if after.1 > before.1 { Some(Replay(before.0).random::<f32>()) } else { None };
            let expect = match draw {
                Some(d) => d <= rate,
                None => rate == 1.0,
            };
            if emitted != expect || (draw.is_none() && rate != 1.0) {
                rep.violation(
                    "fixed-fraction-decision-inconsistent",
                    json!({"what": "emitted must be exactly (draw <= rate); always when the rate is 1", "rate": format!("{rate:e}"), "draw": draw.map(|d| format!("{d:e}")), "emitted": emitted, "round": round, "entry": id}),
                );
                return;
            }
            if emitted {
                let (eid, r) = rec.last();
                if eid != id || r.to_bits() != rate.to_bits() {
                    rep.violation("fixed-fraction-wrong-rate-passed-on", json!({"rate": format!("{rate:e}"), "passed": format!("{r:e}"), "entry": id, "passed_entry": eid}));
                    return;
                }
            }
        }
        rep.distinct(Fnv::new().str("ff").u64(rate.to_bits() as u64).finish());
    }
}

// ------------------------------------------------------------------------------------------
// 4. congressional sampler: decision consistency + rate invariants (hook H5)

#[cfg(metrique_verif)]
fn congress_history(rng: &mut Rng, thorough: bool, rep: &Report) -> bool {
    let target = *rng.pick(&[1u32, 5, 50, 200, 1500, 100_000]);
    let shared = SharedRng::new(rng.next_u64());
    let rec = RecFormat::default();
    let mut c = CongressSampleBuilder::default()
        .interval(Duration::from_secs(86_400)) // intervals are ended manually (hook H5)
        .target_entries_per_interval(target)
        .build_with_rng(rec.clone(), shared.clone());
    let ngroups = 1 + rng.usize_below(40);
    let base: Vec<u64> = (0..ngroups)
        .map(|_| {
            let scale = match rng.below(3) { 0 => 3, 1 => 40, _ => 400 };
            1 + rng.below(scale)
        })
        .collect();
    let intervals = 5 + rng.below(if thorough { 195 } else { 40 });
    let mut next_id = 0u64;
    let mut trace: Vec<String> = vec![];
    let mut known: std::collections::HashSet<usize> = Default::default();
    for iv in 0..intervals {
        // volumes for this interval: groups appear, disappear for a while, burst
        let mut plan: Vec<(usize, u64)> = vec![];
        for (g, b) in base.iter().enumerate() {
            let v = match rng.below(10) {
                0 | 1 => 0,
                2 => (*b * *rng.pick(&[10u64, 100, 1000])).min(6000),
                _ => *b,
            };
            if v > 0 {
                plan.push((g, v));
            }
        }
        // boundary shaping: every fourth interval or so lands exactly on the target, or one off it
        if rng.below(4) == 0 {
            let desired = (target as i64 + *rng.pick(&[0i64, 0, 0, 1, -1])).max(1) as u64;
            let mut total: u64 = plan.iter().map(|p| p.1).sum();
            while total > desired {
                let k = (0..plan.len()).max_by_key(|k| plan[*k].1).unwrap();
                let cut = (total - desired).min(plan[k].1);
                plan[k].1 -= cut;
                total -= cut;
                if plan[k].1 == 0 {
                    plan.swap_remove(k);
                }
            }
            if total < desired && desired - total <= 20_000 {
                if plan.is_empty() {
                    plan.push((rng.usize_below(ngroups), 0));
                }
                let k = rng.usize_below(plan.len());
                plan[k].1 += desired - total;
            }
            rep.count("congress_intervals_shaped_to_target_boundary", 1);
        }
        let total: u64 = plan.iter().map(|p| p.1).sum();
        let mut new_groups_ok = true;
        // feed, round-robin so groups interleave
        let mut remaining = plan.clone();
        while !remaining.is_empty() {
            let k = rng.usize_below(remaining.len());
            let (g, _) = remaining[k];
            remaining[k].1 -= 1;
            if remaining[k].1 == 0 {
                remaining.swap_remove(k);
            }
            let gname = format!("g{g}");
            let rates = c.verif_group_rates();
            let rate_before = rates.iter().find(|r| r.0.len() == 1 && r.0[0].1 == gname.as_str()).map(|r| r.1).unwrap_or(1.0);
            let is_new = !rates.iter().any(|r| r.0.len() == 1 && r.0[0].1 == gname.as_str());
            // the boundary draw == rate: whenever the rate in force lies on the grid of possible
            // draws (multiples of 2^-24), every fourth draw or so is forced onto it or next to it
            let grid = rate_before as f64 * 16_777_216.0;
            if rate_before < 1.0 && grid.fract() == 0.0 && rng.below(4) == 0 {
                let k = (grid as u64).saturating_add_signed(*rng.pick(&[0i64, 0, 1, -1])).min((1 << 24) - 1);
                shared.force_next(k << 40); // top 24 bits of the word become the draw
                rep.count("congress_draws_forced_to_rate_boundary", 1);
            }
            let before = shared.snapshot();
            let forced = shared.forced();
            let ncalls = rec.len();
            let _ = c.format(&group_entry(next_id, &gname), &mut io::sink());
            let after = shared.snapshot();
            let emitted = rec.len() > ncalls;
            let draw: Option<f32> = if after.1 > before.1 {
                Some(match forced {
                    Some(w) => ((w >> 40) as f32) / 16_777_216.0,
                    None => Replay(before.0).random::<f32>(),
                })
            } else {
                None
            };
            let expect = rate_before == 1.0 || draw.is_some_and(|d| d <= rate_before);
            if emitted != expect {
                rep.violation(
                    "congress-decision-inconsistent",
                    json!({"what": "emitted must be exactly (rate == 1 or draw <= rate)", "group": gname, "rate_in_force": format!("{rate_before:e}"), "draw": draw.map(|d| format!("{d:e}")), "emitted": emitted, "interval": iv}),
                );
                return false;
            }
            if emitted {
                let (eid, r) = rec.last();
                if eid != next_id || r.to_bits() != rate_before.to_bits() {
                    rep.violation("congress-wrong-rate-passed-on", json!({"group": gname, "rate_in_force": format!("{rate_before:e}"), "passed": format!("{r:e}")}));
                    return false;
                }
            }
            if is_new && rate_before != 1.0 {
                new_groups_ok = false;
            }
            next_id += 1;
            known.insert(g);
            rep.eval();
        }
        let _ = new_groups_ok;
        rec.clear();
        c.verif_end_interval();
        let rates = c.verif_group_rates();
        trace.push(format!("iv{iv}: total={total} groups={}", rates.len()));
        let witness = |what: &str, extra: vcommon::serde_json::Value| {
            json!({"what": what, "target": target, "interval": iv, "interval_total": total, "extra": extra,
                   "groups(rate,avg)": rates.iter().map(|r| format!("{}:{:e},{:e}", r.0[0].1, r.1, r.2)).take(24).collect::<Vec<_>>(), "history": trace.iter().rev().take(8).collect::<Vec<_>>()})
        };
        for r in &rates {
            if !(r.1 > 0.0 && r.1 <= 1.0) || !r.1.is_finite() {
                rep.violation("congress-rate-outside-unit-interval", witness("a sample rate is not in (0, 1]", json!({"group": r.0[0].1, "rate": format!("{:e}", r.1)})));
                return false;
            }
        }
        if total <= target as u64 {
            if let Some(r) = rates.iter().find(|r| r.1 != 1.0) {
                rep.violation("congress-sampling-below-target", witness("the previous interval saw no more than the target, yet a group is sampled", json!({"group": r.0[0].1, "rate": format!("{:e}", r.1)})));
                return false;
            }
        } else {
            let budget: f64 = rates.iter().map(|r| r.2 as f64 * r.1 as f64).sum();
            if budget > target as f64 * (1.0 + 1e-4) + 1e-3 {
                rep.violation("congress-budget-exceeded", witness("sum(average volume x rate) exceeds the target", json!({"sum": budget})));
                return false;
            }
            let mut sorted: Vec<&(Vec<_>, f32, f32, u32)> = rates.iter().collect();
            sorted.sort_by(|a, b| a.2.partial_cmp(&b.2).unwrap());
            for w in sorted.windows(2) {
                if w[0].2 < w[1].2 && (w[0].1 as f64) < w[1].1 as f64 * (1.0 - 1e-5) {
                    rep.violation(
                        "congress-rarer-group-sampled-lower",
                        witness("a rarer group is sampled at a lower rate than a more frequent one", json!({"rarer": format!("{}: avg {:e} rate {:e}", w[0].0[0].1, w[0].2, w[0].1), "more_frequent": format!("{}: avg {:e} rate {:e}", w[1].0[0].1, w[1].2, w[1].1)})),
                    );
                    return false;
                }
            }
            rep.count("congress_intervals_over_target", 1);
        }
        rep.count("congress_intervals", 1);
    }
    rep.distinct(Fnv::new().str("congress").u64(target as u64).u64(ngroups as u64).u64(intervals).finish());
    if rep.want_sample() {
        rep.sample(|| json!({"congress_history": {"target": target, "groups": ngroups, "intervals": intervals, "tail": trace.iter().rev().take(3).collect::<Vec<_>>()}}));
    }
    true
}

/// Steady patterns with KNOWN frequencies: every group has one constant volume whenever it is active
/// and is active every interval or every other interval, so which of two groups is the rarer is
/// beyond doubt (the sampler's own averages are not consulted). A quiet phase (total <= target) is
/// followed by a busy phase in which "burster" groups push the total over the target and new
/// constant groups appear. Whenever two constant groups that have been active before send in the
/// same interval, the rarer one must not be sampled at a lower rate (the rate in force when its
/// entries arrive) than the more frequent one.
#[cfg(metrique_verif)]
fn congress_steady_scenario(rng: &mut Rng, rep: &Report) -> bool {
    let target = *rng.pick(&[30u32, 100, 1000]);
    let shared = SharedRng::new(rng.next_u64());
    let rec = RecFormat::default();
    // group validation (a debug-build default) is on in half of the scenarios only
    let validate = rng.bool();
    let mut c = CongressSampleBuilder::default().interval(Duration::from_secs(86_400)).target_entries_per_interval(target).validate_groups(validate).build_with_rng(rec.clone(), shared.clone());
    struct G {
        /// 1: the group is the single pair (op, name); 2: two pairs, always in the same order;
        /// 3: two pairs whose order alternates from entry to entry (the order must not matter)
        shape: u8,
        name: String,
        volume: u64,
        period: u64,
        phase: u64,
        from: u64, // first interval in which the group exists
        constant: bool,
        active_before: bool,
    }
    let quiet = rng.below(40);
    let busy = 3 + rng.below(25);
    let mut groups: Vec<G> = vec![];
    // old groups: small constant volumes that together stay below the target
    let n_old = 1 + rng.below(4);
    let mut budget_left = target as u64;
    for i in 0..n_old {
        let v = 1 + rng.below((budget_left / (n_old - i + 1)).max(1));
        budget_left = budget_left.saturating_sub(v);
        groups.push(G { shape: 1 + rng.below(3) as u8, name: format!("old{i}"), volume: v, period: 1 + rng.below(2), phase: rng.below(2), from: 0, constant: true, active_before: false });
    }
    // constant groups that appear with the busy phase, and bursters that make it busy
    for i in 0..rng.below(4) {
        groups.push(G { shape: 1 + rng.below(3) as u8, name: format!("new{i}"), volume: 1 + rng.below(3 * target as u64), period: 1 + rng.below(2), phase: rng.below(2), from: quiet, constant: true, active_before: false });
    }
    for i in 0..1 + rng.below(2) {
        groups.push(G { shape: 1 + rng.below(3) as u8, name: format!("burst{i}"), volume: (2 + rng.below(20)) * target as u64, period: 1 + rng.below(2), phase: rng.below(2), from: quiet, constant: false, active_before: false });
    }
    let mut next_id = 0u64;
    let mut trace: Vec<String> = vec![];
    for iv in 0..quiet + busy {
        // (group index, lowest and highest rate in force for the group when its first entry of this
        // interval arrived: one and the same unless the sampler tracks the group under several keys)
        let mut seen: Vec<(usize, f32, f32)> = vec![];
        let mut order: Vec<usize> = (0..groups.len()).filter(|g| iv >= groups[*g].from && (iv + groups[*g].phase) % groups[*g].period == 0).collect();
        rng.shuffle(&mut order);
        for g in order {
            let rates = c.verif_group_rates();
            let mine: Vec<f32> = rates.iter().filter(|r| r.0.iter().any(|p| p.1 == groups[g].name.as_str())).map(|r| r.1).collect();
            let lo = mine.iter().copied().fold(1.0f32, f32::min);
            let hi = if mine.is_empty() { 1.0 } else { mine.iter().copied().fold(0.0f32, f32::max) };
            seen.push((g, lo, hi));
            for k in 0..groups[g].volume {
                let mut e = group_entry(next_id, &groups[g].name);
                if groups[g].shape >= 2 {
                    e.sample_group.push(("tier".into(), "gold".into()));
                    if groups[g].shape == 3 && k % 2 == 1 {
                        e.sample_group.reverse();
                        rep.count("congress_steady_entries_with_reversed_pair_order", 1);
                    }
                }
                let _ = c.format(&e, &mut io::sink());
                next_id += 1;
            }
            rep.eval();
        }
        trace.push(format!("iv{iv}: {}", seen.iter().map(|(g, lo, hi)| format!("{}(shape {})x{}@{:e}..{:e}", groups[*g].name, groups[*g].shape, groups[*g].volume, lo, hi)).collect::<Vec<_>>().join(" ")));
        for (a, ra, _) in &seen {
            for (b, _, rb) in &seen {
                let (ga, gb) = (&groups[*a], &groups[*b]);
                if ga.constant && gb.constant && ga.active_before && gb.active_before && ga.volume < gb.volume && ga.period >= gb.period && (*ra as f64) < *rb as f64 * (1.0 - 1e-4) {
                    rep.violation(
                        "congress-rarer-group-sampled-lower",
                        json!({"what": "steady pattern with known volumes: a group that is rarer beyond doubt (smaller constant volume, not active more often) is sampled at a lower rate than a more frequent one; both had been active before",
                               "target": target, "interval": iv, "quiet_intervals_before": quiet, "validate_groups": validate,
                               "rarer": format!("{}: {} per active interval, every {} interval(s), rate in force {:e}", ga.name, ga.volume, ga.period, ra),
                               "more_frequent": format!("{}: {} per active interval, every {} interval(s), rate in force {:e}", gb.name, gb.volume, gb.period, rb),
                               "history_tail": trace.iter().rev().take(6).collect::<Vec<_>>()}),
                    );
                    return false;
                }
            }
        }
        for (g, _, _) in &seen {
            groups[*g].active_before = true;
        }
        rec.clear();
        c.verif_end_interval();
        rep.count("congress_steady_intervals", 1);
    }
    rep.distinct(Fnv::new().str("steady").u64(target as u64).u64(quiet).u64(busy).u64(groups.len() as u64).finish());
    true
}

/// Rates just below 1: an interval that exceeds the target by a single entry of a singleton group
/// gives that group a rate a few ulps below 1 (exactly 1 - 2^-23 for many targets). Such a rate is
/// a rate like any other: with the largest possible draw (0.99999994) the entry is NOT emitted,
/// with a draw equal to the rate it is.
#[cfg(metrique_verif)]
fn congress_near_one_scenario(rep: &Report) {
    for target in (2300u32..2520).step_by(4).chain([50, 600, 6000]) {
        let shared = SharedRng::new(target as u64);
        let rec = RecFormat::default();
        let mut c = CongressSampleBuilder::default().interval(Duration::from_secs(86_400)).target_entries_per_interval(target).build_with_rng(rec.clone(), shared.clone());
        let mut id = 0u64;
        for _ in 0..target {
            let _ = c.format(&group_entry(id, "Common"), &mut io::sink());
            id += 1;
        }
        let _ = c.format(&group_entry(id, "Rare"), &mut io::sink());
        id += 1;
        c.verif_end_interval();
        let rates = c.verif_group_rates();
        let Some(rate) = rates.iter().find(|r| r.0.len() == 1 && r.0[0].1 == "Rare").map(|r| r.1) else { continue };
        rep.eval();
        if !(rate < 1.0 && rate > 0.999) {
            continue;
        }
        if rate == 1.0 - f32::EPSILON {
            rep.count("congress_rates_of_exactly_one_minus_2^-23", 1);
        }
        let grid = rate as f64 * 16_777_216.0;
        if grid.fract() != 0.0 {
            continue;
        }
        for k in [(1u64 << 24) - 1, grid as u64 + 1, grid as u64] {
            if k >= 1 << 24 {
                continue;
            }
            shared.force_next(k << 40);
            let before = rec.len();
            let _ = c.format(&group_entry(id, "Rare"), &mut io::sink());
            id += 1;
            let emitted = rec.len() > before;
            let draw = k as f32 / 16_777_216.0;
            if emitted != (draw <= rate) {
                rep.violation(
                    "congress-decision-inconsistent",
                    json!({"what": "a group whose rate is a few ulps below 1: emitted must be exactly (draw <= rate)", "target": target, "rate_in_force": format!("{rate:e}"), "rate_bits": format!("{:#x}", rate.to_bits()), "draw": format!("{draw:e}"), "emitted": emitted}),
                );
                return;
            }
            rep.count("congress_near_one_decisions_checked", 1);
        }
    }
}

fn main() {
    let args = Args::parse();
    let rep = Report::new("C12", &args);
    rep.rule(
        "(1) weight split via hook H6: for every checked f32 rate in (0,1] the exact rational 1/rate is computed from the bits; both extreme draws must give floor/ceiling (1/rate < 2^53), \
         the expectation n_lo + 1 - P(draw < alpha) must equal 1/rate, rates below 2^-63 saturate, larger inverses are within 1. quick: strided + all powers of two +-2 ulp; thorough: EVERY f32 in (0,1]. \
         (2) SampledEmf::format_with_sample_rate with a scripted RNG: all Counts of an entry imply one weight, equal to the split's answer; bad rates rejected with no output. \
         (3) FixedFractionSample / CongressSample over a recording SampledFormat with a shared scripted RNG: the draw is recomputed with rand itself; emitted iff draw <= rate (always at rate 1), the rate in force is passed on. \
         (4) congressional rates after each manually ended interval (hook H5): in (0,1], all 1 when the interval was within target, else sum(avg x rate) <= target and monotone in group volume",
    );
    let which = args.kv.get("part").cloned().unwrap_or_else(|| "all".into());
    #[cfg(not(metrique_verif))]
    rep.inconclusive("built without --cfg metrique_verif: hooks H5/H6 unavailable");
    #[cfg(metrique_verif)]
    if which == "all" || which == "rates" {
        rates_part(&args, &rep);
    }
    if (which == "all" || which == "api") && rep.violation_count() == 0 {
        public_api_part(&args, &rep);
    }
    if (which == "all" || which == "api") && rep.violation_count() == 0 {
        default_rng_part(&rep);
    }
    #[cfg(metrique_verif)]
    if (which == "all" || which == "congress") && rep.violation_count() == 0 {
        congress_near_one_scenario(&rep);
    }
    if (which == "all" || which == "decision") && rep.violation_count() == 0 {
        fixed_fraction_part(&args, &rep);
    }
    #[cfg(metrique_verif)]
    if (which == "all" || which == "congress") && rep.violation_count() == 0 {
        let budget = Duration::from_secs(args.get_u64("secs", args.by_tier(8, 90)));
        let start = Instant::now();
        std::thread::scope(|s| {
            for lane in 0..args.get_u64("lanes", 14).min(12) {
                let (rep, args) = (&rep, &args);
                s.spawn(move || {
                    let mut rng = Rng::derive(args.seed, 0x100 + lane);
                    while start.elapsed() < budget && rep.violation_count() == 0 {
                        if !congress_history(&mut rng, args.thorough(), rep) || !congress_steady_scenario(&mut rng, rep) {
                            return;
                        }
                        rep.count("congress_histories", 1);
                    }
                });
            }
        });
    }
    rep.finish_and_exit();
}
