//! C05 — shutdown drains, flushes and closes the stream; the writer thread terminates (also on
//! the forget path, once the last queue handle is gone).
//! See DESIGN.md §7 C05.

use metrique_writer::sink::{BackgroundQueue, BackgroundQueueBuilder, global_entry_sink};
use metrique_writer::{AnyEntrySink, AttachGlobalEntrySink, BoxEntrySink, EntrySink, GlobalEntrySink};
use std::collections::HashMap;
use std::sync::atomic::{AtomicBool, AtomicU64, Ordering};
use std::sync::Arc;
use vcommon::sync::SpinGate as Barrier;
use std::time::{Duration, Instant};
use vcommon::serde_json::{Value, json};
use vcommon::stream::{Ev, IdEntry, StreamShared, id_producer, id_seq, make_id};
use vcommon::sync::{block_on, default_stall, is_miri, poll_once, progress_tick, progress_wait, ticket};
use vcommon::{Args, Fnv, Report, Rng};

global_entry_sink! { G0 }
global_entry_sink! { G1 }
global_entry_sink! { G2 }
global_entry_sink! { G3 }
global_entry_sink! { G4 }
global_entry_sink! { G5 }
global_entry_sink! { G6 }
global_entry_sink! { G7 }

#[derive(Clone, Copy, Debug, PartialEq)]
enum Kind {
    Typed,
    Boxed,
    Global,
}

#[derive(Clone, Copy, Debug, PartialEq)]
enum GateMode {
    None,
    /// the writer is held inside next() while the drop starts: a backlog exists at shutdown
    HoldNext,
    /// the writer is held inside flush() while entries are appended and the drop starts
    HoldFlush,
}

#[derive(Clone, Debug)]
struct Plan {
    kind: Kind,
    lane: u64,
    clients: u32,
    per: u32,
    racers: u32,
    flush_us: u64,
    flush_pm: u64,
    clone_pm: u64,
    forget: bool,
    gate: GateMode,
    backlog: u32,
    after: u32,
    delay_pm: u64,
    /// the queue reports to a (local) metrics recorder
    recorder: bool,
    /// the drop under test happens while a panic unwinds through the handle's owner
    unwinding: bool,
    /// a flush future obtained before the drop is kept, un-polled, until the end of the history
    retain_flush: bool,
    /// forget path with a gate: the last queue handle is dropped BEFORE the writer is released
    drop_before_release: bool,
    /// the stream answers runs of 5 consecutive entries (out of every 12) with an I/O error
    err_runs: bool,
    seed: u64,
}

/// payload of the panics this harness raises on purpose (silenced in the panic hook)
struct IntentionalPanic;

fn drop_by_unwinding<T>(x: T) {
    let r = std::panic::catch_unwind(std::panic::AssertUnwindSafe(move || {
        let _held = x;
        std::panic::panic_any(IntentionalPanic);
    }));
    assert!(r.is_err());
}

#[derive(Clone)]
enum Q {
    Typed(BackgroundQueue<IdEntry>),
    Boxed(BoxEntrySink),
}
impl Q {
    fn append(&self, e: IdEntry) {
        match self {
            Q::Typed(q) => q.append(e),
            Q::Boxed(q) => q.append_any(e),
        }
    }
    fn flush_async(&self) -> metrique_writer::sink::FlushWait {
        match self {
            Q::Typed(q) => q.flush_async(),
            Q::Boxed(q) => AnyEntrySink::flush_async(q),
        }
    }
}

macro_rules! on_global {
    ($lane:expr, $g:ident => $body:expr) => {
        match $lane % 8 {
            0 => { type $g = G0; $body }
            1 => { type $g = G1; $body }
            2 => { type $g = G2; $body }
            3 => { type $g = G3; $body }
            4 => { type $g = G4; $body }
            5 => { type $g = G5; $body }
            6 => { type $g = G6; $body }
            _ => { type $g = G7; $body }
        }
    };
}

fn global_sink(lane: u64) -> Option<BoxEntrySink> {
    on_global!(lane, G => <G as AttachGlobalEntrySink>::try_sink())
}

struct Outcome {
    /// (id, call ticket, return ticket)
    calls: Vec<(u64, u64, u64)>,
    drop_start: u64,
    drop_end: u64,
    log_at_drop_end: Vec<Ev>,
    final_log: Vec<Ev>,
    dropped_at: u64,
    thread_exit_at: u64,
    forgot: bool,
    /// forget path: ticket after the last queue handle was dropped
    closed_observed: bool,
    flush_after_shutdown_ready: bool,
}

fn run_guarded<T: Send + 'static>(f: impl FnOnce() -> T + Send + 'static) -> Option<T> {
    let done = Arc::new(AtomicBool::new(false));
    let d2 = done.clone();
    let t = std::thread::spawn(move || {
        let r = f();
        d2.store(true, Ordering::SeqCst);
        r
    });
    if progress_wait(|| done.load(Ordering::SeqCst), default_stall() + Duration::from_secs(10)) { t.join().ok() } else { None }
}

fn history(plan: &Plan, rep: &Report) -> Option<u64> {
    let p2 = plan.clone();
    let phase = Arc::new(AtomicU64::new(0));
    let ph2 = phase.clone();
    let Some(o) = run_guarded(move || inner(&p2, &ph2)) else {
        let ph = phase.load(Ordering::SeqCst);
        rep.violation(
            if ph == 2 { "drop-of-handle-never-returned" } else { "history-stalled" },
            json!({"plan": format!("{plan:?}"), "phase": ph,
                   "evidence": "no meaningful progress for the stall period (phase 1 = clients appending, 2 = inside drop(handle), 3 = waiting for the forgotten queue to close)"}),
        );
        return None;
    };
    let witness = |what: &str, extra: Value| {
        json!({"what": what, "plan": format!("{plan:?}"), "extra": extra,
               "drop_start": o.drop_start, "drop_end": o.drop_end, "stream_dropped_at": o.dropped_at, "writer_thread_exit_at": o.thread_exit_at,
               "log_tail": o.final_log.iter().rev().take(12).rev().map(|e| format!("{e:?}")).collect::<Vec<_>>()})
    };
    let mut ok = true;
    let pos: HashMap<u64, usize> = o.final_log.iter().enumerate().filter_map(|(i, e)| e.id().map(|id| (id, i))).collect();
    if o.forgot {
        // (5) forget path
        if !o.closed_observed {
            rep.violation(
                "forgotten-queue-never-shut-down",
                witness("after forget() and the drop of the last queue handle the stream was not flushed-and-dropped / the writer thread did not exit (waited for the progress watchdog; the writer looks once per flush_interval)", json!({})),
            );
            return None;
        }
        for (id, _call, ret) in &o.calls {
            if *ret < o.drop_start && !pos.contains_key(id) {
                rep.violation("forget-path-entry-lost", witness("entry appended before the last queue handle was dropped never reached the stream", json!({"producer": id_producer(*id), "seq": id_seq(*id)})));
                ok = false;
                break;
            }
        }
    } else {
        // (3) closed before the drop returned
        if o.dropped_at == 0 || o.dropped_at > o.drop_end {
            rep.violation("stream-not-dropped-when-drop-returned", witness("drop(handle) returned but the stream object had not been dropped", json!({})));
            ok = false;
        }
        if o.thread_exit_at == 0 || o.thread_exit_at > o.drop_end {
            rep.violation("writer-thread-alive-when-drop-returned", witness("drop(handle) returned but the writer thread had not exited", json!({})));
            ok = false;
        }
        // (1) everything appended before the drop began is in the log when the drop returns
        let pos_end: HashMap<u64, usize> = o.log_at_drop_end.iter().enumerate().filter_map(|(i, e)| e.id().map(|id| (id, i))).collect();
        for (id, call, ret) in &o.calls {
            if *ret < o.drop_start && !pos_end.contains_key(id) {
                rep.violation(
                    "entry-appended-before-shutdown-not-written",
                    witness("append returned before drop(handle) began, but the entry was not handed to the stream by the time the drop returned",
                        json!({"producer": id_producer(*id), "seq": id_seq(*id), "append_return_ticket": ret})),
                );
                ok = false;
                break;
            }
            // (4) entries appended after the drop returned never appear
            if *call > o.drop_end && pos.contains_key(id) {
                rep.violation("entry-appended-after-shutdown-written", witness("entry appended after drop(handle) returned reached the stream", json!({"producer": id_producer(*id), "seq": id_seq(*id)})));
                ok = false;
                break;
            }
        }
        if o.final_log.len() != o.log_at_drop_end.len() {
            rep.violation("stream-used-after-shutdown", witness("the stream log grew after drop(handle) had returned", json!({"len_at_drop_end": o.log_at_drop_end.len(), "final_len": o.final_log.len()})));
            ok = false;
        }
        if !o.flush_after_shutdown_ready {
            rep.violation("flush-after-shutdown-pending", witness("flush_async() after shutdown was not immediately ready", json!({})));
            ok = false;
        }
    }
    // exactly-once also holds here
    let mut seen = std::collections::HashSet::new();
    for e in &o.final_log {
        if let Some(id) = e.id() {
            if !seen.insert(id) {
                rep.violation("entry-duplicated", witness("entry written twice", json!({"producer": id_producer(id), "seq": id_seq(id)})));
                ok = false;
                break;
            }
        }
    }
    // (2) a flush after the last next, and the stream closed after it
    match o.final_log.last() {
        Some(Ev::Flush { ticket, .. }) => {
            if o.dropped_at != 0 && *ticket > o.dropped_at {
                rep.inconclusive("flush logged after the stream was dropped (harness error)");
            }
        }
        Some(Ev::Next { .. }) => {
            rep.violation("no-flush-after-last-entry", witness("the stream was closed without a flush after the last entry handed to it", json!({})));
            ok = false;
        }
        None => {
            rep.violation("no-final-flush", witness("the stream was closed without ever being flushed", json!({})));
            ok = false;
        }
    }
    rep.count("entries_appended", o.calls.len() as u64);
    rep.count("entries_overlapping_drop", o.calls.iter().filter(|c| c.2 >= o.drop_start && c.1 <= o.drop_end).count() as u64);
    rep.count("entries_after_drop", o.calls.iter().filter(|c| c.1 > o.drop_end).count() as u64);
    rep.count("overlapping_entries_written", o.calls.iter().filter(|c| c.2 >= o.drop_start && c.1 <= o.drop_end && pos.contains_key(&c.0)).count() as u64);
    if !ok {
        return None;
    }
    let mut h = Fnv::new();
    h.u64(plan.kind as u64).u64(plan.gate as u64).u64(plan.forget as u64).u64(plan.clients as u64);
    for e in &o.final_log {
        h.u64(e.id().map(|i| id_producer(i) as u64).unwrap_or(77));
    }
    Some(h.finish())
}

fn inner(plan: &Plan, phase: &AtomicU64) -> Outcome {
    let sh = StreamShared::new(plan.seed);
    sh.delay_per_mille.store(plan.delay_pm, Ordering::Relaxed);
    if plan.err_runs {
        // runs of I/O errors; in every other such history the entries appended last (the backlog
        // and everything after it) are all REJECTED by the stream (validation errors): handed over
        // they were, and the flush after them is owed all the same
        let n = AtomicU64::new(0);
        let rejected_tail = plan.seed % 4 < 2;
        sh.set_script(move |k| match k {
            vcommon::stream::EntryKind::Id(id) if rejected_tail && id_producer(*id) >= 50 => vcommon::stream::Outcome::Validation,
            _ => {
                if (4..9).contains(&(n.fetch_add(1, Ordering::Relaxed) % 12)) {
                    vcommon::stream::Outcome::Io
                } else {
                    vcommon::stream::Outcome::Ok
                }
            }
        });
    }
    let total = (plan.clients * plan.per + plan.racers * 4000 + plan.backlog + plan.after + 16) as usize;
    let mut builder = BackgroundQueueBuilder::new()
        .capacity(total.max(4)) // never overflows
        .flush_interval(Duration::from_micros(plan.flush_us));
    if plan.recorder {
        let counts = Arc::new(checks::recorder::Counts::default());
        builder = builder.metrics_recorder_local::<dyn metrics::Recorder, _>(checks::recorder::CountingRecorder(counts));
    }
    // `handle_drop` performs the drop under test
    let unwinding = plan.unwinding;
    let (q, handle_drop): (Q, Box<dyn FnOnce(bool) + Send>) = match plan.kind {
        Kind::Typed => {
            let (q, h) = builder.build::<IdEntry>(sh.stream());
            (Q::Typed(q), Box::new(move |forget| if forget { h.forget() } else if unwinding { drop_by_unwinding(h) } else { h.shut_down() }))
        }
        Kind::Boxed => {
            let (q, h) = builder.build_boxed(sh.stream());
            (Q::Boxed(q), Box::new(move |forget| if forget { h.forget() } else if unwinding { drop_by_unwinding(h) } else { drop(h) }))
        }
        Kind::Global => {
            let (q, h) = builder.build_boxed(sh.stream());
            let lane = plan.lane;
            let ah = on_global!(lane, G => <G as AttachGlobalEntrySink>::attach((q, h)));
            let q = global_sink(lane).expect("attached");
            (Q::Boxed(q), Box::new(move |_forget| if unwinding { drop_by_unwinding(ah) } else { drop(ah) }))
        }
    };
    phase.store(1, Ordering::SeqCst);
    let stop_racers = Arc::new(AtomicBool::new(false));
    let barrier = Arc::new(Barrier::new(plan.clients as usize + 1));
    let mut threads = vec![];
    for c in 0..plan.clients {
        let (q, plan, barrier) = (q.clone(), plan.clone(), barrier.clone());
        threads.push(std::thread::spawn(move || {
            let mut rng = Rng::derive(plan.seed, c as u64 + 10);
            let mut calls = vec![];
            let mut extra: Vec<Q> = vec![];
            barrier.wait();
            for s in 0..plan.per {
                let id = make_id(c, s);
                let call = ticket();
                match extra.last() {
                    Some(cl) if rng.bool() => cl.append(IdEntry { id }),
                    _ => {
                        if plan.kind == Kind::Global && rng.bool() {
                            on_global!(plan.lane, G => <G as GlobalEntrySink>::append(IdEntry { id }))
                        } else {
                            q.append(IdEntry { id })
                        }
                    }
                }
                calls.push((id, call, ticket()));
                progress_tick();
                if rng.below(1000) < plan.clone_pm {
                    extra.push(q.clone());
                }
                if rng.below(1000) < plan.clone_pm && !extra.is_empty() {
                    extra.pop();
                }
                if rng.below(1000) < plan.flush_pm {
                    block_on(q.flush_async());
                }
            }
            calls
        }));
    }
    barrier.wait();
    let mut calls = vec![];
    for t in threads {
        calls.extend(t.join().expect("client panicked"));
    }
    // racers append across the drop
    let mut racer_threads = vec![];
    for r in 0..plan.racers {
        let (q, stop) = (q.clone(), stop_racers.clone());
        let c = 100 + r;
        // on a global sink, every other racer goes through the global itself (which holds the
        // global's lock for the duration of the append) instead of a sink handle obtained earlier
        let via_global = plan.kind == Kind::Global && r % 2 == 0;
        let lane = plan.lane;
        racer_threads.push(std::thread::spawn(move || {
            let mut calls = vec![];
            let mut s = 0u32;
            let cap = if is_miri() { 6 } else { 4000 };
            while !stop.load(Ordering::SeqCst) && s < cap {
                let id = make_id(c, s);
                let call = ticket();
                if via_global {
                    // handed back once nothing is attached any more: then it was never appended
                    if on_global!(lane, G => <G as AttachGlobalEntrySink>::try_append(IdEntry { id })).is_err() {
                        s += 1;
                        progress_tick();
                        continue;
                    }
                } else {
                    q.append(IdEntry { id });
                }
                calls.push((id, call, ticket()));
                progress_tick();
                s += 1;
                if s % 8 == 0 {
                    std::thread::yield_now();
                }
            }
            calls
        }));
    }
    // optional backlog: hold the writer, append, start the drop, then release
    match plan.gate {
        GateMode::HoldNext => sh.set_fuel(Some(0)),
        GateMode::HoldFlush => {
            sh.close_flush_gate(true);
            // make sure the writer actually goes into flush() (periodic or requested)
            drop(q.flush_async());
            let _ = progress_wait(|| sh.blocked_flush.load(Ordering::SeqCst), Duration::from_secs(if is_miri() { 30 } else { 2 }));
        }
        GateMode::None => {}
    }
    if plan.gate != GateMode::None {
        for s in 0..plan.backlog {
            let id = make_id(50, s);
            let call = ticket();
            q.append(IdEntry { id });
            calls.push((id, call, ticket()));
            progress_tick();
        }
    }
    let forgot = plan.forget && plan.kind != Kind::Global;
    // (served or not, polled or not: a flush future in somebody's hands must not keep anything alive)
    let retained = if plan.retain_flush { Some(q.flush_async()) } else { None };
    let mut o = Outcome {
        calls: vec![], drop_start: 0, drop_end: 0, log_at_drop_end: vec![], final_log: vec![],
        dropped_at: 0, thread_exit_at: 0, forgot, closed_observed: false, flush_after_shutdown_ready: true,
    };
    if forgot {
        handle_drop(true);
        // keep using the queue for a moment after the forget
        for s in 0..plan.after {
            let id = make_id(60, s);
            let call = ticket();
            q.append(IdEntry { id });
            calls.push((id, call, ticket()));
        }
        stop_racers.store(true, Ordering::SeqCst);
        for t in racer_threads {
            calls.extend(t.join().expect("racer panicked"));
        }
        if !plan.drop_before_release {
            sh.open_all();
        }
        phase.store(3, Ordering::SeqCst);
        o.drop_start = ticket();
        if plan.seed % 2 == 0 {
            // the last TWO queue handles go at the same moment, on two threads
            let other = q.clone();
            let gate = Arc::new(Barrier::new(2));
            let g2 = gate.clone();
            let t = std::thread::spawn(move || {
                g2.wait();
                drop(other);
            });
            gate.wait();
            drop(q);
            let _ = t.join();
        } else {
            drop(q); // last queue handle
        }
        o.drop_end = ticket();
        if plan.drop_before_release {
            // the writer is still held inside next() / flush(): it finds the last handle gone when it comes back
            if !is_miri() {
                std::thread::sleep(Duration::from_micros(200));
            }
            sh.open_all();
        }
        o.closed_observed = progress_wait(|| sh.is_dropped() && sh.thread_exited(), default_stall());
    } else {
        // release the gate shortly after the drop has begun (from another thread)
        let opener = if plan.gate != GateMode::None {
            let sh2 = sh.clone();
            let started = Arc::new(AtomicBool::new(false));
            let st2 = started.clone();
            let t = std::thread::spawn(move || {
                let _ = progress_wait(|| st2.load(Ordering::SeqCst), default_stall());
                for _ in 0..50 {
                    std::thread::yield_now();
                }
                if !is_miri() {
                    std::thread::sleep(Duration::from_micros(300));
                }
                sh2.open_all();
            });
            Some((t, started))
        } else {
            None
        };
        phase.store(2, Ordering::SeqCst);
        o.drop_start = ticket();
        if let Some((_, started)) = &opener {
            started.store(true, Ordering::SeqCst);
            progress_tick();
        }
        handle_drop(false);
        o.drop_end = ticket();
        progress_tick();
        o.log_at_drop_end = sh.log();
        stop_racers.store(true, Ordering::SeqCst);
        for t in racer_threads {
            calls.extend(t.join().expect("racer panicked"));
        }
        if let Some((t, _)) = opener {
            let _ = t.join();
        }
        // (4) appends after the drop returned: silently discarded
        if plan.kind != Kind::Global {
            for s in 0..plan.after {
                let id = make_id(70, s);
                let call = ticket();
                q.append(IdEntry { id });
                calls.push((id, call, ticket()));
            }
            let mut f = Box::pin(q.flush_async());
            o.flush_after_shutdown_ready = poll_once(f.as_mut()).is_ready();
        }
        if !is_miri() {
            std::thread::sleep(Duration::from_micros(500));
        }
        drop(q);
    }
    drop(retained);
    o.final_log = sh.log();
    o.dropped_at = sh.dropped_at.load(Ordering::SeqCst);
    o.thread_exit_at = sh.thread_exit_at.load(Ordering::SeqCst);
    o.calls = calls;
    o
}

fn gen_plan(rng: &mut Rng, lane: u64, thorough: bool) -> Plan {
    let kind = *rng.pick(&[Kind::Typed, Kind::Boxed, Kind::Global]);
    let gate = *rng.pick(&[GateMode::None, GateMode::None, GateMode::HoldNext, GateMode::HoldFlush]);
    Plan {
        kind,
        lane,
        clients: 1 + rng.below(4) as u32,
        per: rng.below(if thorough { 400 } else { 120 }) as u32,
        racers: rng.below(3) as u32,
        flush_us: *rng.pick(&[1u64, 100, 1000, 5000, 20_000]),
        flush_pm: *rng.pick(&[0u64, 20, 200]),
        clone_pm: *rng.pick(&[0u64, 100, 400]),
        forget: rng.below(3) == 0,
        gate,
        // mostly small; now and then far more than any batch size inside the writer
        backlog: if gate == GateMode::HoldNext && rng.below(if thorough { 8 } else { 12 }) == 0 {
            *rng.pick(&[5_000u32, 9_000, 20_000, 70_000])
        } else {
            1 + rng.below(40) as u32
        },
        after: rng.below(6) as u32,
        delay_pm: *rng.pick(&[0u64, 0, 300]),
        recorder: rng.below(3) == 0,
        unwinding: rng.below(5) == 0,
        retain_flush: rng.below(4) == 0,
        drop_before_release: rng.bool(),
        err_runs: rng.below(4) == 0,
        seed: rng.next_u64(),
    }
}

/// The writer is held INSIDE the metrics recorder (its once-per-interval report of idle time and
/// queue length), i.e. between its periodic flush and its check of the shutdown flag; an entry is
/// appended, then the join handle is dropped, then the writer is released: the entry was appended
/// before the drop began and must be written.
fn held_in_recorder_scenarios(rep: &Report) {
    for (round, (boxed, forget)) in [(false, false), (true, false), (false, true), (true, true)].into_iter().enumerate() {
        rep.eval();
        let sh = StreamShared::new(round as u64);
        let counts = Arc::new(checks::recorder::Counts::default());
        let builder = BackgroundQueueBuilder::new()
            .capacity(64)
            .flush_interval(Duration::from_millis(2))
            .metrics_recorder_local::<dyn metrics::Recorder, _>(checks::recorder::CountingRecorder(counts.clone()));
        let (q, handle) = if boxed {
            let (q, h) = builder.build_boxed(sh.stream());
            (Q::Boxed(q), h)
        } else {
            let (q, h) = builder.build::<IdEntry>(sh.stream());
            (Q::Typed(q), h)
        };
        for s in 0..3 {
            q.append(IdEntry::new(0, s));
        }
        let _ = progress_wait(|| sh.consumed_ids.load(Ordering::SeqCst) == 3, default_stall());
        counts.hold_histograms.store(true, Ordering::SeqCst);
        let held = progress_wait(|| counts.held.load(Ordering::SeqCst) > 0, Duration::from_secs(10));
        if !held {
            counts.hold_histograms.store(false, Ordering::SeqCst);
            rep.inconclusive("held-in-recorder scenario: the writer never reported to the recorder");
            handle.forget();
            continue;
        }
        q.append(IdEntry::new(0, 99));
        let dropper = if forget {
            handle.forget();
            let t = std::thread::spawn(move || drop(q));
            t
        } else {
            let t = std::thread::spawn(move || {
                handle.shut_down();
                drop(q);
            });
            t
        };
        std::thread::sleep(Duration::from_millis(20));
        counts.hold_histograms.store(false, Ordering::SeqCst);
        let _ = dropper.join();
        let closed = progress_wait(|| sh.is_dropped(), default_stall());
        let ids: Vec<u32> = sh.log().iter().filter_map(|e| e.id()).map(id_seq).collect();
        if !closed || ids != vec![0, 1, 2, 99] {
            rep.violation(
                if closed { "entry-appended-before-shutdown-not-written" } else { "forgotten-queue-never-shut-down" },
                json!({"what": "writer held inside the metrics recorder (between its periodic flush and its shutdown check); entry 99 appended; then the handle dropped (or forgotten + last queue handle dropped); then the writer released",
                       "boxed": boxed, "forget": forget, "written": ids, "expected": [0, 1, 2, 99], "stream_closed": closed}),
            );
            return;
        }
        rep.count("held_in_recorder_scenarios", 1);
        rep.distinct(Fnv::new().str("held-in-recorder").u64(round as u64).finish());
    }
}

/// Shutdown while appenders NEVER stop and the stream is slower than they are: the queue is never
/// seen empty. Bounded-progress form of "the drop returns": once the shutdown flag is stored, the
/// writer may go round its loop only a few more times before it enters the final drain, which the
/// (short) shutdown timeout bounds. Counted in loop iterations (hook H1), not in wall time.
/// Runs alone: the hook counters are process-wide.
#[cfg(metrique_verif)]
fn sustained_load_shutdown(rep: &Report) {
    let hits = |name: &str| vcommon::sync::hook_hits().into_iter().find(|h| h.0 == name).map(|h| h.1).unwrap_or(0);
    for (round, boxed) in [false, true, false, true].into_iter().enumerate() {
        rep.eval();
        let sh = StreamShared::new(round as u64);
        sh.delay_per_mille.store(1000, Ordering::Relaxed); // every next() is delayed a little
        let builder = BackgroundQueueBuilder::new()
            .capacity(4096)
            .flush_interval(Duration::from_micros(1))
            .shutdown_timeout(Duration::from_millis(150));
        let (q, handle) = if boxed {
            let (q, h) = builder.build_boxed(sh.stream());
            (Q::Boxed(q), h)
        } else {
            let (q, h) = builder.build::<IdEntry>(sh.stream());
            (Q::Typed(q), h)
        };
        let stop = Arc::new(AtomicBool::new(false));
        let appenders: Vec<_> = (0..2u32)
            .map(|p| {
                let (q, stop, sh) = (q.clone(), stop.clone(), sh.clone());
                std::thread::spawn(move || {
                    let mut s = 0u32;
                    while !stop.load(Ordering::SeqCst) {
                        // stay ahead of the writer without overflowing by much
                        if (s as u64) < sh.consumed_ids.load(Ordering::SeqCst) / 2 + 1500 {
                            q.append(IdEntry::new(p, s));
                            s = s.wrapping_add(1);
                        } else {
                            std::thread::yield_now();
                        }
                        progress_tick();
                    }
                })
            })
            .collect();
        let _ = progress_wait(|| sh.consumed_ids.load(Ordering::SeqCst) > 300, Duration::from_secs(20));
        let stores_before = hits("bq.handle_drop.after_store");
        let done = Arc::new(AtomicBool::new(false));
        let d2 = done.clone();
        let dropper = std::thread::spawn(move || {
            handle.shut_down();
            d2.store(true, Ordering::SeqCst);
        });
        let _ = progress_wait(|| hits("bq.handle_drop.after_store") > stores_before, Duration::from_secs(20));
        let loops_at_store = hits("bq.run.after_drain");
        let consumed_at_store = sh.consumed_ids.load(Ordering::SeqCst);
        let began = Instant::now();
        let mut verdict = None;
        while !done.load(Ordering::SeqCst) {
            let loops = hits("bq.run.after_drain") - loops_at_store;
            if loops > 300 {
                verdict = Some(loops);
                break;
            }
            if began.elapsed() > Duration::from_secs(60) {
                rep.inconclusive("sustained-load shutdown: neither returned nor exceeded the loop bound within 60 s");
                break;
            }
            std::thread::sleep(Duration::from_millis(1));
        }
        let consumed_since = sh.consumed_ids.load(Ordering::SeqCst) - consumed_at_store;
        stop.store(true, Ordering::SeqCst);
        for a in appenders {
            let _ = a.join();
        }
        let _ = dropper.join();
        if let Some(loops) = verdict {
            rep.violation(
                "shutdown-not-noticed-under-sustained-load",
                json!({"what": "the join handle was dropped while appenders kept the queue non-empty: the writer went round its drain loop hundreds of times after the shutdown flag had been stored without starting the shutdown (the drop returned only once the appenders were stopped)",
                       "boxed": boxed, "writer_loop_iterations_after_flag_store": loops, "entries_written_since": consumed_since, "bound": 300}),
            );
            return;
        }
        if !sh.is_dropped() || !sh.thread_exited() {
            rep.violation("stream-not-closed-at-drop-return", json!({"what": "sustained-load shutdown returned, but the stream was not dropped / the thread had not exited", "boxed": boxed}));
            return;
        }
        rep.count("sustained_load_shutdowns", 1);
        rep.max("sustained_load_max_loops_after_flag", hits("bq.run.after_drain") - loops_at_store);
        rep.distinct(Fnv::new().str("sustained").u64(round as u64).finish());
        drop(q);
    }
}

/// Forgotten queues whose last TWO handles are dropped at the same instant on two threads, in
/// batches against one persistent partner thread (a history of the main part gets one such moment;
/// this part gets thousands): every one of them must shut down - stream dropped, thread gone.
fn concurrent_last_drops_rounds(rep: &Report, batches: usize) {
    const B: usize = 16;
    let gate = Barrier::new(2);
    let slot: std::sync::Mutex<Vec<metrique_writer::sink::BackgroundQueue<IdEntry>>> = std::sync::Mutex::new(vec![]);
    let quit = AtomicBool::new(false);
    std::thread::scope(|s| {
        s.spawn(|| loop {
            gate.wait(); // batch published (or quit)
            if quit.load(Ordering::SeqCst) {
                break;
            }
            let mine: Vec<_> = std::mem::take(&mut *slot.lock().unwrap());
            for q in mine {
                gate.wait();
                drop(q);
            }
            gate.wait(); // batch done
        });
        'outer: for batch in 0..batches {
            let mut shs = vec![];
            let mut ours = vec![];
            for i in 0..B {
                let sh = StreamShared::new((batch * B + i) as u64);
                let (q, h) = BackgroundQueueBuilder::new().capacity(8).flush_interval(Duration::from_micros(300)).build::<IdEntry>(sh.stream());
                h.forget();
                q.append(IdEntry { id: make_id(70, i as u32) });
                slot.lock().unwrap().push(q.clone());
                ours.push(q);
                shs.push(sh);
            }
            gate.wait();
            for q in ours {
                gate.wait();
                drop(q);
            }
            gate.wait();
            rep.eval();
            for (i, sh) in shs.iter().enumerate() {
                if !progress_wait(|| sh.is_dropped() && sh.thread_exited(), default_stall()) {
                    rep.violation(
                        "forgotten-queue-never-shut-down",
                        json!({"what": "join handle forgotten, then the last two queue handles dropped at the same instant on two threads: the writer must notice that no handle is left, drain, drop the stream and exit",
                               "batch": batch, "queue_in_batch": i, "stream_dropped": sh.is_dropped(), "writer_thread_exited": sh.thread_exited(), "entries_written": sh.log().iter().filter(|e| e.id().is_some()).count()}),
                    );
                    break 'outer;
                }
                if sh.log().iter().filter(|e| e.id().is_some()).count() != 1 {
                    rep.violation("forget-path-entry-lost", json!({"what": "the entry appended before the last two handles were dropped concurrently was not written exactly once", "batch": batch, "queue_in_batch": i}));
                    break 'outer;
                }
                progress_tick();
            }
            rep.count("forgotten_queues_with_concurrent_last_two_drops", B as u64);
        }
        quit.store(true, Ordering::SeqCst);
        gate.wait();
    });
}

fn native_main(args: &Args, rep: &Report) {
    rep.rule(
        "each evaluation is one history on a typed / boxed / global-sink-attached queue: 1-4 client threads append through handles and clones \
         (with flushes), 0-2 racer threads append across the drop, optionally the writer is held inside next() or flush() so a backlog exists when \
         drop(handle) (or drop(AttachHandle), or forget + drop of the last queue handle) happens; oracle on the stream log + Drop/thread-exit flags: \
         everything appended before the drop began is written before it returns, a flush follows the last entry, stream dropped and thread exited \
         before the return, nothing written afterwards. Then thousands of forgotten queues whose last two handles are dropped at the same instant on two threads. Finally, alone: shutdown while two appenders never stop and the stream is slow (queue never empty): \
         the writer must start its final drain within a few loop iterations of the flag store (counted at hook H1; the 150 ms shutdown timeout bounds the rest); distinct = distinct (kind, gate, forget, delivery order) signatures",
    );
    vcommon::sync::install_perturbation(args.seed, 50);
    let budget = Duration::from_secs(args.get_u64("secs", args.by_tier(12, 150)));
    let start = Instant::now();
    std::thread::scope(|s| {
        for lane in 0..args.get_u64("lanes", 6).min(8) {
            let rep = &rep;
            let args = &args;
            s.spawn(move || {
                let mut rng = Rng::derive(args.seed, lane);
                while start.elapsed() < budget && rep.violation_count() == 0 {
                    let plan = gen_plan(&mut rng, lane, args.thorough());
                    vcommon::sync::set_perturbation(plan.seed, *rng.pick(&[0u64, 50, 300]));
                    rep.eval();
                    if let Some(h) = history(&plan, rep) {
                        rep.distinct(h);
                        rep.count(&format!("histories:{:?}{}", plan.kind, if plan.forget && plan.kind != Kind::Global { "+forget" } else { "" }), 1);
                        rep.count(&format!("gate:{:?}", plan.gate), 1);
                        if rng.below(40) == 0 {
                            rep.sample(|| json!({"plan": format!("{plan:?}")}));
                        }
                    }
                }
            });
        }
    });
    if rep.violation_count() == 0 {
        held_in_recorder_scenarios(rep);
    }
    if rep.violation_count() == 0 {
        concurrent_last_drops_rounds(rep, args.by_tier(150, 1500) as usize);
    }
    #[cfg(metrique_verif)]
    if rep.violation_count() == 0 {
        sustained_load_shutdown(rep);
    }
    for (name, hits) in vcommon::sync::hook_hits() {
        rep.set(&format!("hook:{name}"), hits);
    }
}

fn tiny_main(args: &Args, rep: &Report) {
    rep.rule("tiny history under the interpreter/sanitizer (leak checking on: a writer thread that never exits is reported by Miri itself)");
    vcommon::sync::install_perturbation(args.seed, 1000);
    let v = args.get_u64("variant", 0);
    let plan = Plan {
        kind: [Kind::Typed, Kind::Boxed, Kind::Global][(v % 3) as usize],
        lane: 0,
        clients: 2,
        per: 2,
        racers: (v % 2) as u32,
        flush_us: if v % 2 == 0 { 1 } else { 2000 },
        flush_pm: 300,
        clone_pm: 300,
        forget: v % 4 == 1,
        gate: [GateMode::None, GateMode::HoldNext, GateMode::HoldFlush][((v / 2) % 3) as usize],
        backlog: 2,
        after: 1,
        delay_pm: 200,
        recorder: v % 5 == 2,
        unwinding: v % 3 == 1,
        retain_flush: v % 2 == 1,
        drop_before_release: v % 4 >= 2,
        err_runs: v % 3 == 2,
        seed: args.seed + v,
    };
    rep.eval();
    if let Some(sig) = history(&plan, rep) {
        println!("OUTCOME sig={sig:016x} variant={v}");
        rep.distinct(sig);
        rep.distinct(sig ^ 1);
    }
}

fn main() {
    let args = Args::parse();
    let rep = Report::new("C05", &args);
    let default_hook = std::panic::take_hook();
    std::panic::set_hook(Box::new(move |info| {
        if !info.payload().is::<IntentionalPanic>() {
            default_hook(info);
        }
    }));
    if is_miri() || args.get_u64("tiny", 0) == 1 {
        tiny_main(&args, &rep);
    } else {
        native_main(&args, &rep);
    }
    rep.finish_and_exit();
}
