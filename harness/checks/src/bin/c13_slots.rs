//! C13 — slot values are never lost in wait mode and never partial in discard mode.
//! (a) exhaustive single-thread op sequences over a parent with a `Slot` and a `LazySlot`
//! (b) concurrent: guard and parent dropped on different threads, perturbed at the H4 point
//!     between `send` and the release of the guard's flush guard.
//! See DESIGN.md §7 C13.

use checks::uow_util::{Appended, CountingSink};
use metrique::unit_of_work::metrics;
use metrique::{AppendAndCloseOnDrop, ForceFlushGuard, LazySlot, OnParentDrop, Slot, SlotGuard};
use std::sync::Arc;
use vcommon::sync::SpinGate as Barrier;
use std::time::{Duration, Instant};
use vcommon::serde_json::json;
use vcommon::sync::{block_on, is_miri, progress_tick, ticket};
use vcommon::{Args, Fnv, Report, Rng};

#[metrics]
#[derive(Default)]
struct ParentM {
    x: u64,
    y: u64,
    #[metrics(flatten)]
    s0: Slot<Child0>,
    #[metrics(flatten)]
    s1: LazySlot<Child1>,
}

#[metrics]
#[derive(Default, Debug)]
struct Child0 {
    v0: u64,
}

#[metrics]
#[derive(Default)]
struct Child1 {
    v1: u64,
}

type POwner = AppendAndCloseOnDrop<ParentM, CountingSink>;

/// payload of the panics this harness raises on purpose (silenced in the panic hook)
struct IntentionalPanic;

#[derive(Clone, Copy, Debug, PartialEq, Eq)]
enum Op {
    Open(usize, bool), // (slot, wait mode)
    MutateGuard(usize),
    DropGuard(usize),
    /// the guard is dropped by a panic unwinding through its owner (still a drop: the value counts)
    DropGuardUnwinding(usize),
    /// delay_flush() with a fresh flush guard of the parent on a guard that is open in EITHER mode
    /// (a guard already in wait mode stays in wait mode)
    DelayFlush(usize),
    WaitForData, // slot 0 only; may be called repeatedly
    /// a wait_for_data() future created and dropped without ever being polled (what `select!` does
    /// with a branch it never reaches): a no-op
    WaitForDataUnpolled,
    MutateParent,
    DropParent,
    CreateForce,
    DropForce,
}

#[derive(Clone, Copy, Debug, PartialEq, Eq)]
enum SlotState {
    Unopened,
    Open { wait: bool, token: u64 },
    Returned { token: u64 },
}

#[derive(Clone, Debug)]
struct Model {
    parent_alive: bool,
    xy: (u64, u64),
    slots: [SlotState; 2],
    waited: u8,
    delays: u8,
    unpolled: u8,
    force_alive: u32,
    force_created: u32,
    force_fired: bool,
    parent_mutations: u32,
    next_token: u64,
    /// expected content, fixed at the moment the entry becomes due
    emitted: Option<(u64, u64, Option<u64>, Option<u64>)>,
}

impl Model {
    fn new() -> Self {
        Model { parent_alive: true, xy: (1, 2), slots: [SlotState::Unopened; 2], waited: 0, delays: 0, unpolled: 0, force_alive: 0, force_created: 0, force_fired: false, parent_mutations: 0, next_token: 100, emitted: None }
    }
    fn due(&self) -> bool {
        !self.parent_alive && (self.force_fired || !self.slots.iter().any(|s| matches!(s, SlotState::Open { wait: true, .. })))
    }
    fn settle(&mut self) {
        if self.emitted.is_none() && self.due() {
            let v = |s: &SlotState| match s {
                SlotState::Returned { token } => Some(*token),
                _ => None,
            };
            self.emitted = Some((self.xy.0, self.xy.1, v(&self.slots[0]), v(&self.slots[1])));
        }
    }
    fn done(&self) -> bool {
        !self.parent_alive && self.force_alive == 0 && !self.slots.iter().any(|s| matches!(s, SlotState::Open { .. }))
    }
    fn enabled(&self) -> Vec<Op> {
        let mut v = vec![];
        if self.parent_alive {
            for i in 0..2 {
                // opening twice is part of the property: the second open must return None
                v.push(Op::Open(i, true));
                v.push(Op::Open(i, false));
            }
            if matches!(self.slots[0], SlotState::Returned { .. }) && self.waited < 2 {
                v.push(Op::WaitForData);
            }
            if self.parent_mutations < 1 {
                v.push(Op::MutateParent);
            }
            if self.unpolled < 1 && !matches!(self.slots[0], SlotState::Unopened) {
                v.push(Op::WaitForDataUnpolled);
            }
            if self.force_created < 1 {
                v.push(Op::CreateForce);
            }
            v.push(Op::DropParent);
            if self.delays < 1 {
                for i in 0..2 {
                    if matches!(self.slots[i], SlotState::Open { .. }) {
                        v.push(Op::DelayFlush(i));
                    }
                }
            }
        }
        for i in 0..2 {
            if matches!(self.slots[i], SlotState::Open { .. }) {
                v.push(Op::MutateGuard(i));
                v.push(Op::DropGuard(i));
                v.push(Op::DropGuardUnwinding(i));
            }
        }
        if self.force_alive > 0 {
            v.push(Op::DropForce);
        }
        v
    }
    /// returns whether an Open is expected to succeed
    fn apply(&mut self, op: Op) -> bool {
        let mut ok = true;
        match op {
            Op::Open(i, wait) => {
                if self.slots[i] == SlotState::Unopened {
                    self.slots[i] = SlotState::Open { wait, token: 10 + i as u64 };
                } else {
                    ok = false; // a slot can be opened at most once
                }
            }
            Op::MutateGuard(i) => {
                if let SlotState::Open { token, .. } = &mut self.slots[i] {
                    *token = self.next_token;
                    self.next_token += 1;
                }
            }
            Op::DropGuard(i) | Op::DropGuardUnwinding(i) => {
                if let SlotState::Open { token, .. } = self.slots[i] {
                    // the value is sent before the guard's flush guard is released
                    self.slots[i] = SlotState::Returned { token };
                }
            }
            Op::WaitForData => self.waited += 1,
            Op::WaitForDataUnpolled => self.unpolled += 1,
            Op::DelayFlush(i) => {
                if let SlotState::Open { wait, .. } = &mut self.slots[i] {
                    *wait = true;
                }
                self.delays += 1;
            }
            Op::MutateParent => {
                self.xy = (self.next_token, self.next_token + 1);
                self.next_token += 2;
                self.parent_mutations += 1;
            }
            Op::DropParent => self.parent_alive = false,
            Op::CreateForce => {
                self.force_alive += 1;
                self.force_created += 1;
            }
            Op::DropForce => {
                self.force_alive -= 1;
                self.force_fired = true;
            }
        }
        self.settle();
        ok
    }
}

struct Real {
    sink: CountingSink,
    parent: Option<POwner>,
    g0: Option<SlotGuard<Child0>>,
    g1: Option<SlotGuard<Child1>>,
    force: Vec<ForceFlushGuard>,
    legacy_open: bool,
}

impl Real {
    fn new() -> Self {
        let sink = CountingSink::new();
        let parent = ParentM { x: 1, y: 2, ..Default::default() }.append_on_drop(sink.clone());
        Real { sink, parent: Some(parent), g0: None, g1: None, force: vec![], legacy_open: false }
    }
    /// returns Some(opened?) for Open ops
    fn apply(&mut self, op: Op, m: &Model) -> Option<bool> {
        match op {
            Op::Open(i, wait) => {
                let p = self.parent.as_mut().unwrap();
                let mode = if wait { OnParentDrop::Wait(p.flush_guard()) } else { OnParentDrop::Discard };
                if i == 0 {
                    // every other sequence opens slot 0 the old way: the deprecated (still public)
                    // open_slot(), which defaults to discard mode, plus delay_flush() for wait mode
                    #[allow(deprecated)]
                    let opened = if self.legacy_open {
                        let g = p.s0.open_slot();
                        match (g, mode) {
                            (Some(mut g), OnParentDrop::Wait(fg)) => {
                                g.delay_flush(fg);
                                Some(g)
                            }
                            (g, _) => g,
                        }
                    } else {
                        p.s0.open(mode)
                    };
                    match opened {
                        Some(mut g) => {
                            g.v0 = 10;
                            self.g0 = Some(g);
                            Some(true)
                        }
                        None => Some(false),
                    }
                } else {
                    match p.s1.open(Child1 { v1: 11 }, mode) {
                        Some(g) => {
                            self.g1 = Some(g);
                            Some(true)
                        }
                        None => Some(false),
                    }
                }
            }
            Op::MutateGuard(i) => {
                let tok = match m.slots[i] {
                    SlotState::Open { token, .. } => token,
                    _ => unreachable!(),
                };
                if i == 0 {
                    self.g0.as_mut().unwrap().v0 = tok;
                } else {
                    self.g1.as_mut().unwrap().v1 = tok;
                }
                None
            }
            Op::DropGuard(i) => {
                if i == 0 {
                    drop(self.g0.take());
                } else {
                    drop(self.g1.take());
                }
                None
            }
            Op::DropGuardUnwinding(i) => {
                let (g0, g1) = if i == 0 { (self.g0.take(), None) } else { (None, self.g1.take()) };
                let r = std::panic::catch_unwind(std::panic::AssertUnwindSafe(move || {
                    let _held = (g0, g1);
                    std::panic::panic_any(IntentionalPanic);
                }));
                assert!(r.is_err());
                None
            }
            Op::DelayFlush(i) => {
                let fg = self.parent.as_ref().unwrap().flush_guard();
                if i == 0 {
                    self.g0.as_mut().unwrap().delay_flush(fg);
                } else {
                    self.g1.as_mut().unwrap().delay_flush(fg);
                }
                None
            }
            Op::WaitForDataUnpolled => {
                let p = self.parent.as_mut().unwrap();
                #[allow(deprecated)]
                let fut = p.s0.wait_for_data();
                drop(fut);
                None
            }
            Op::WaitForData => {
                let p = self.parent.as_mut().unwrap();
                let tok = match m.slots[0] {
                    SlotState::Returned { token } => token,
                    _ => unreachable!(),
                };
                // the value must be there, and be the guard's last value, on every call
                #[allow(deprecated)]
                let got = block_on(p.s0.wait_for_data()).as_ref().map(|c| c.v0);
                Some(got == Some(tok))
            }
            Op::MutateParent => {
                let p = self.parent.as_mut().unwrap();
                p.x = m.xy.0;
                p.y = m.xy.1;
                None
            }
            Op::DropParent => {
                drop(self.parent.take());
                None
            }
            Op::CreateForce => {
                self.force.push(self.parent.as_ref().unwrap().force_flush_guard());
                None
            }
            Op::DropForce => {
                drop(self.force.pop());
                None
            }
        }
    }
}

fn content(a: &Appended) -> (Option<u64>, Option<u64>, Option<u64>, Option<u64>) {
    (a.u64_field("x"), a.u64_field("y"), a.u64_field("v0"), a.u64_field("v1"))
}

fn run_sequential(ops: &[Op], rep: &Report) -> bool {
    let mut m = Model::new();
    let mut r = Real::new();
    r.legacy_open = ops.len() % 2 == 1;
    let mut all: Vec<Op> = ops.to_vec();
    let mut i = 0;
    loop {
        if i == all.len() {
            // clean-up so that every history ends at quiescence
            if m.done() {
                break;
            }
            let next = if m.parent_alive {
                Op::DropParent
            } else if matches!(m.slots[0], SlotState::Open { .. }) {
                if all.len() % 2 == 0 { Op::DropGuard(0) } else { Op::DropGuardUnwinding(0) }
            } else if matches!(m.slots[1], SlotState::Open { .. }) {
                Op::DropGuard(1)
            } else {
                Op::DropForce
            };
            all.push(next);
        }
        let op = all[i];
        let expect_open = m.apply(op);
        let got = r.apply(op, &m);
        let witness = |what: &str, extra: vcommon::serde_json::Value| json!({"what": what, "ops": format!("{all:?}"), "after_op_index": i, "slot0_opened_through_deprecated_open_slot": r.legacy_open, "op": format!("{op:?}"), "extra": extra, "model": format!("{m:?}")});
        match (op, got) {
            (Op::Open(..), Some(opened)) if opened != expect_open => {
                rep.violation(if opened { "slot-opened-twice" } else { "slot-open-refused" }, witness("open() result differs from 'a slot can be opened at most once'", json!({"opened": opened})));
                return false;
            }
            (Op::WaitForData, Some(false)) => {
                rep.violation("wait-for-data-lost-value", witness("wait_for_data() did not return the guard's last value although the guard had been dropped", json!({"wait_call_number": m.waited})));
                return false;
            }
            _ => {}
        }
        let apps = r.sink.snapshot();
        let expect_n = m.emitted.is_some() as usize;
        if apps.len() != expect_n {
            rep.violation(
                if apps.len() > expect_n { "entry-appended-before-wait-mode-guard-dropped" } else { "entry-not-appended-when-due" },
                witness("number of appended entries differs from the reference", json!({"observed": apps.len(), "expected": expect_n})),
            );
            return false;
        }
        if let (Some(e), Some(a)) = (m.emitted, apps.first()) {
            let c = content(a);
            if c != (Some(e.0), Some(e.1), e.2, e.3) {
                let kind = if c.0 != Some(e.0) || c.1 != Some(e.1) {
                    "non-slot-fields-affected"
                } else if (e.2.is_some() && c.2 != e.2) || (e.3.is_some() && c.3 != e.3) {
                    "slot-value-lost-or-stale"
                } else {
                    "slot-value-present-although-guard-alive"
                };
                rep.violation(kind, witness("content of the appended entry differs from the reference", json!({"observed": format!("{c:?}"), "expected": format!("{e:?}")})));
                return false;
            }
        }
        i += 1;
    }
    true
}

fn dfs(m: &Model, prefix: &mut Vec<Op>, depth: usize, count: &mut u64, rep: &Report) -> bool {
    if depth == 0 || m.done() {
        *count += 1;
        rep.eval();
        if prefix.iter().any(|o| matches!(o, Op::Open(..))) {
            let mut h = Fnv::new();
            h.str(&format!("{prefix:?}"));
            rep.distinct(h.finish());
        }
        if *count % 7001 == 1 {
            rep.sample(|| json!({"sequential_ops": format!("{prefix:?}")}));
        }
        return run_sequential(prefix, rep);
    }
    for op in m.enabled() {
        let mut m2 = m.clone();
        m2.apply(op);
        prefix.push(op);
        let ok = dfs(&m2, prefix, depth - 1, count, rep);
        prefix.pop();
        if !ok {
            return false;
        }
    }
    true
}

// ------------------------------------------------------------------------------------------
// the same op sequences inside a tokio task that has used up its cooperative-scheduling budget
// (any tokio resource polled there reports "not ready"; what a slot does must not depend on it)

fn busy_task_histories(rng: &mut Rng, n: usize, rep: &Report) -> bool {
    let rt = tokio::runtime::Builder::new_current_thread().build().expect("runtime");
    let mut seqs: Vec<Vec<Op>> = vec![];
    for _ in 0..n {
        let mut m = Model::new();
        let mut ops = vec![];
        for _ in 0..3 + rng.usize_below(7) {
            if m.done() {
                break;
            }
            // wait_for_data is left out here: awaiting inside a task without budget means yielding to
            // the runtime, which this synchronous driver cannot do
            let en: Vec<Op> = m.enabled().into_iter().filter(|o| !matches!(o, Op::WaitForData | Op::WaitForDataUnpolled)).collect();
            let op = *rng.pick(&en);
            m.apply(op);
            ops.push(op);
        }
        seqs.push(ops);
    }
    rt.block_on(async {
        for ops in seqs {
            // a fresh budget is 128 units; use all of them without yielding
            for _ in 0..128 {
                tokio::task::coop::consume_budget().await;
            }
            let exhausted = !tokio::task::coop::has_budget_remaining();
            rep.eval();
            if !run_sequential(&ops, rep) {
                return false;
            }
            rep.count(if exhausted { "busy_task_sequences_with_exhausted_budget" } else { "busy_task_sequences_budget_not_exhausted" }, 1);
            tokio::task::yield_now().await;
        }
        true
    })
}

// ------------------------------------------------------------------------------------------
// concurrent: parent and guard(s) dropped on different threads

fn concurrent_history(rng: &mut Rng, rep: &Report) -> Option<u64> {
    let sink = CountingSink::new();
    let mut parent: POwner = ParentM { x: 1, y: 2, ..Default::default() }.append_on_drop(sink.clone());
    let wait0 = rng.bool();
    let wait1 = rng.bool();
    let use1 = rng.bool();
    let tok = rng.below(1 << 40) + 1000;
    let mode0 = if wait0 { OnParentDrop::Wait(parent.flush_guard()) } else { OnParentDrop::Discard };
    let mut g0 = parent.s0.open(mode0).expect("first open");
    g0.v0 = tok;
    // a read-only observer may Debug-format slot 0's wait-mode guard on another thread at the very
    // moment the flush guard for slot 1 is taken (formatting a guard must not change what a flush
    // guard created meanwhile does)
    let observed = use1 && wait0 && wait1 && rng.below(2) == 0;
    let g1 = if use1 {
        let mode1 = if !wait1 {
            OnParentDrop::Discard
        } else if observed {
            let gate = Barrier::new(2);
            let stop = std::sync::atomic::AtomicBool::new(false);
            let spins = rng.below(400);
            let fg = std::thread::scope(|s| {
                s.spawn(|| {
                    use std::fmt::Write;
                    gate.wait();
                    let mut buf = String::new();
                    let mut n = 0u64;
                    while !stop.load(std::sync::atomic::Ordering::SeqCst) || n == 0 {
                        buf.clear();
                        let _ = write!(buf, "{:?}", g0);
                        n += 1;
                    }
                    rep.count("debug_formats_of_a_wait_mode_guard_while_a_flush_guard_was_taken", n);
                });
                gate.wait();
                for _ in 0..spins {
                    std::hint::spin_loop();
                }
                let fg = parent.flush_guard();
                stop.store(true, std::sync::atomic::Ordering::SeqCst);
                fg
            });
            OnParentDrop::Wait(fg)
        } else {
            OnParentDrop::Wait(parent.flush_guard())
        };
        let mut g = parent.s1.open(Child1 { v1: 0 }, mode1).expect("first open");
        g.v1 = tok + 1;
        Some(g)
    } else {
        None
    };
    parent.x = tok + 2;
    parent.y = tok + 3;
    let force = if rng.below(4) == 0 { Some(parent.force_flush_guard()) } else { None };
    let has_force = force.is_some();
    enum O {
        Parent(#[allow(dead_code)] POwner),
        G0(#[allow(dead_code)] SlotGuard<Child0>),
        G1(#[allow(dead_code)] SlotGuard<Child1>),
        Force(#[allow(dead_code)] ForceFlushGuard),
    }
    let mut objs: Vec<(u8, O)> = vec![(0, O::Parent(parent)), (1, O::G0(g0))];
    if let Some(g) = g1 {
        objs.push((2, O::G1(g)));
    }
    if let Some(f) = force {
        objs.push((3, O::Force(f)));
    }
    rng.shuffle(&mut objs);
    // the parent's thread may first wait for slot 0's data (once or twice); a guard's thread may
    // drop its guard by unwinding
    let waits = if rng.below(3) == 0 { 1 + rng.below(2) } else { 0 };
    let unwinding_mask = if rng.below(3) == 0 { rng.below(4) } else { 0 };
    let n = objs.len();
    let barrier = Arc::new(Barrier::new(n));
    let threads: Vec<_> = objs
        .into_iter()
        .map(|(k, o)| {
            let barrier = barrier.clone();
            let delay = rng.below(3);
            std::thread::spawn(move || {
                barrier.wait();
                for _ in 0..delay * 20 {
                    std::hint::spin_loop();
                }
                let mut waited_ok = true;
                let o = match o {
                    O::Parent(mut p) => {
                        for _ in 0..waits {
                            #[allow(deprecated)]
                            let got = block_on(p.s0.wait_for_data()).as_ref().map(|c| c.v0);
                            waited_ok &= got == Some(tok);
                        }
                        O::Parent(p)
                    }
                    o => o,
                };
                let start = ticket();
                if (k == 1 || k == 2) && unwinding_mask >> (k - 1) & 1 == 1 {
                    let r = std::panic::catch_unwind(std::panic::AssertUnwindSafe(move || {
                        let _held = o;
                        std::panic::panic_any(IntentionalPanic);
                    }));
                    assert!(r.is_err());
                } else {
                    drop(o);
                }
                let end = ticket();
                progress_tick();
                (k, start, end, waited_ok)
            })
        })
        .collect();
    let mut drops = vec![];
    for t in threads {
        match t.join() {
            Ok(d) => drops.push(d),
            Err(_) => {
                rep.violation("drop-panicked", json!({"wait0": wait0, "wait1": wait1}));
                return None;
            }
        }
    }
    let apps = sink.take();
    let witness = |what: &str| json!({"what": what, "parent_waits_for_data": waits, "guards_dropped_by_unwinding(bit0=slot0,bit1=slot1)": unwinding_mask, "slot0_guard_debug_formatted_while_slot1_flush_guard_taken": observed, "slot0_wait": wait0, "slot1": if use1 { Some(wait1) } else { None }, "force_guard": has_force, "drops(kind,start,end)": format!("{drops:?}"), "appends": apps.iter().map(|a| (a.ticket, format!("{:?}", content(a)))).collect::<Vec<_>>()});
    if apps.len() != 1 {
        rep.violation(if apps.is_empty() { "entry-never-appended" } else { "entry-appended-twice" }, witness("exactly one append expected"));
        return None;
    }
    let a = &apps[0];
    let c = content(a);
    if (c.0, c.1) != (Some(tok + 2), Some(tok + 3)) {
        rep.violation("non-slot-fields-affected", witness("parent fields differ"));
        return None;
    }
    if drops.iter().any(|x| !x.3) {
        rep.violation("wait-for-data-lost-value", witness("wait_for_data() on the parent's thread did not return the guard's last value"));
        return None;
    }
    if waits > 0 && c.2 != Some(tok) {
        rep.violation("slot-value-lost-or-stale", witness("the parent had received slot 0's value through wait_for_data() before it was dropped, but the entry lacks it"));
        return None;
    }
    let d = |k: u8| drops.iter().find(|x| x.0 == k).copied();
    let parent_drop = d(0).unwrap();
    let force_start = d(3).map(|x| x.1);
    for (k, wait, got, expect) in [(1u8, wait0, c.2, tok), (2u8, wait1, c.3, tok + 1)] {
        let Some(gd) = d(k) else { continue };
        // a present value must be the guard's last token
        if let Some(v) = got {
            if v != expect {
                rep.violation("slot-value-lost-or-stale", witness("slot value differs from the guard's last token"));
                return None;
            }
        }
        if wait {
            // never lost unless a force-flush guard released the entry first
            let forced_first = force_start.is_some_and(|f| f < gd.2);
            if got.is_none() && !forced_first {
                rep.violation("wait-mode-slot-value-lost", witness("wait-mode slot value missing although no force-flush guard drop started before the slot guard's drop returned"));
                return None;
            }
            if !forced_first && a.ticket < gd.1 {
                rep.violation("entry-appended-before-wait-mode-guard-dropped", witness("append ticket earlier than the start of the wait-mode guard's drop"));
                return None;
            }
        } else {
            // discard mode: present if the guard drop returned before the parent drop started;
            // absent if it started after the entry was appended; either otherwise
            if gd.2 < parent_drop.1 && got.is_none() {
                rep.violation("discard-mode-value-lost", witness("guard was dropped before the parent's drop began, but the value is missing"));
                return None;
            }
            if gd.1 > a.ticket && got.is_some() {
                rep.violation("slot-value-present-although-guard-alive", witness("guard drop started after the entry had been appended, but the value is present"));
                return None;
            }
        }
    }
    Some(Fnv::new().u64(waits).u64(observed as u64).u64(unwinding_mask).u64(wait0 as u64).u64(wait1 as u64 + 2 * use1 as u64).u64(has_force as u64).u64(c.2.is_some() as u64).u64(c.3.is_some() as u64)
        .u64(drops.iter().map(|x| x.1).enumerate().min_by_key(|x| x.1).map(|x| x.0 as u64).unwrap_or(0)).finish() | 1)
}

// ------------------------------------------------------------------------------------------
// a read-only observer Debug-formats a wait-mode guard of an entry at the moment a further flush
// guard of that entry is taken: many short rounds against one persistent observer thread

fn observed_flush_guard_rounds(rng: &mut Rng, n: usize, rep: &Report) -> bool {
    use std::sync::atomic::{AtomicBool, Ordering::SeqCst};
    let shared: std::sync::Mutex<Option<Arc<SlotGuard<Child0>>>> = std::sync::Mutex::new(None);
    let gate = Barrier::new(2);
    let (stop, quit, started) = (AtomicBool::new(false), AtomicBool::new(false), AtomicBool::new(false));
    let mut ok = true;
    std::thread::scope(|s| {
        s.spawn(|| {
            use std::fmt::Write;
            let mut buf = String::new();
            let mut formats = 0u64;
            loop {
                gate.wait();
                if quit.load(SeqCst) {
                    break;
                }
                let g = shared.lock().unwrap().take().expect("guard published");
                let mut first = true;
                while first || !stop.load(SeqCst) {
                    first = false;
                    buf.clear();
                    let _ = write!(buf, "{:?}", g);
                    formats += 1;
                    started.store(true, SeqCst);
                }
                drop(g);
                gate.wait();
            }
            rep.count("debug_formats_of_a_wait_mode_guard_while_a_flush_guard_was_taken", formats);
        });
        for _ in 0..n {
            let sink = CountingSink::new();
            let tok = rng.below(1 << 40) + 1000;
            let mut parent: POwner = ParentM { x: tok + 2, y: tok + 3, ..Default::default() }.append_on_drop(sink.clone());
            let fg0 = parent.flush_guard();
            let mut g0 = parent.s0.open(OnParentDrop::Wait(fg0)).expect("first open");
            g0.v0 = tok;
            let g0 = Arc::new(g0);
            *shared.lock().unwrap() = Some(g0.clone());
            stop.store(false, SeqCst);
            started.store(false, SeqCst);
            let spins = rng.below(200);
            gate.wait();
            // the observer is formatting in a tight loop by now: take the flush guard at a random
            // phase of that loop
            let mut waited = 0u32;
            while !started.load(SeqCst) {
                waited += 1;
                if waited > 2000 {
                    std::thread::yield_now();
                } else {
                    std::hint::spin_loop();
                }
            }
            let mut x = 0u64;
            for i in 0..spins {
                x = std::hint::black_box(x.wrapping_mul(31).wrapping_add(i));
            }
            let fg = parent.flush_guard();
            stop.store(true, SeqCst);
            gate.wait();
            let mut g1 = parent.s1.open(Child1 { v1: 0 }, OnParentDrop::Wait(fg)).expect("first open");
            g1.v1 = tok + 1;
            drop(parent);
            let early = sink.snapshot().len();
            // the observed guard goes first: from here on only slot 1's flush guard (the one taken
            // while the observer was formatting) keeps the entry back
            let g0 = Arc::try_unwrap(g0).ok().expect("the observer gave its reference back");
            drop(g0);
            let early2 = sink.snapshot().len();
            drop(g1);
            let apps = sink.take();
            rep.eval();
            progress_tick();
            let c = apps.first().map(content);
            if early != 0 || early2 != 0 || apps.len() != 1 || c != Some((Some(tok + 2), Some(tok + 3), Some(tok), Some(tok + 1))) {
                let kind = if early != 0 || early2 != 0 { "entry-appended-before-wait-mode-guard-dropped" } else if apps.len() != 1 { "entry-never-appended" } else { "wait-mode-slot-value-lost" };
                rep.violation(kind, json!({"what": "slot 0 opened in wait mode; its guard Debug-formatted on another thread while the flush guard for slot 1 (wait mode) was taken; then parent, guard 0, guard 1 dropped in that order on one thread",
                    "appended_after_parent_drop": early, "appended_after_guard0_drop_with_guard1_alive": early2, "appended_at_end": apps.len(), "content(x,y,v0,v1)": format!("{c:?}"), "expected": format!("{:?}", (tok + 2, tok + 3, tok, tok + 1))}));
                ok = false;
                break;
            }
            rep.count("observed_flush_guard_rounds", 1);
        }
        quit.store(true, SeqCst);
        gate.wait();
    });
    ok
}

fn main() {
    let args = Args::parse();
    let rep = Report::new("C13", &args);
    vcommon::sync::install_perturbation(args.seed, if is_miri() { 1000 } else { 300 });
    let default_hook = std::panic::take_hook();
    std::panic::set_hook(Box::new(move |info| {
        if !info.payload().is::<IntentionalPanic>() {
            default_hook(info);
        }
    }));
    if is_miri() || args.get_u64("tiny", 0) == 1 {
        rep.rule("concurrent history (parent, slot guards, force-flush guard dropped on separate threads) under the interpreter/sanitizer");
        let mut rng = Rng::derive(args.seed, args.get_u64("variant", 0));
        for _ in 0..3 {
            rep.eval();
            if let Some(sig) = concurrent_history(&mut rng, &rep) {
                println!("OUTCOME sig={sig:016x}");
                rep.distinct(sig);
                rep.distinct(sig ^ 2);
            }
        }
        rep.finish_and_exit();
    }
    rep.rule(
        "(a) EVERY single-thread op sequence up to length L over a parent with a Slot and a LazySlot: open(wait|discard) (also a second open), mutate through the guard, \
         drop guard (also by unwinding), delay_flush on an open guard of either mode, wait_for_data, a wait_for_data future dropped un-polled, mutate/drop parent, create/drop a force-flush guard; after every op the number of appended entries and the content (parent fields, slot values as \
         last mutated, absent when the guard was still alive) must equal the reference. (b) parent, slot guards and a force-flush guard dropped on separate threads released by a barrier (in part of them slot 0's wait-mode guard is Debug-formatted on another thread while slot 1's flush guard is taken), \
         perturbed at the hook between the guard's send and the release of its flush guard; assertions hold in every linearization. (c) random op sequences run inside a tokio task whose cooperative budget is used up. distinct = distinct op sequences / outcome classes",
    );
    let depth = args.get_u64("depth", args.by_tier(6, 7)) as usize;
    // parallel DFS over the first two levels
    let mut prefixes: Vec<(Model, Vec<Op>)> = vec![(Model::new(), vec![])];
    for _ in 0..2 {
        let mut next = vec![];
        for (m, p) in prefixes {
            for op in m.enabled() {
                let mut m2 = m.clone();
                m2.apply(op);
                let mut p2 = p.clone();
                p2.push(op);
                next.push((m2, p2));
            }
        }
        prefixes = next;
    }
    let idx = std::sync::atomic::AtomicUsize::new(0);
    let total = std::sync::atomic::AtomicU64::new(0);
    let ok = std::sync::atomic::AtomicBool::new(true);
    std::thread::scope(|s| {
        for _ in 0..14 {
            s.spawn(|| loop {
                let i = idx.fetch_add(1, std::sync::atomic::Ordering::SeqCst);
                if i >= prefixes.len() || !ok.load(std::sync::atomic::Ordering::SeqCst) {
                    break;
                }
                let (m, p) = &prefixes[i];
                let mut c = 0;
                let mut p = p.clone();
                if !dfs(m, &mut p, depth - 2, &mut c, &rep) {
                    ok.store(false, std::sync::atomic::Ordering::SeqCst);
                }
                total.fetch_add(c, std::sync::atomic::Ordering::SeqCst);
            });
        }
    });
    rep.set("sequential_sequences_enumerated", total.load(std::sync::atomic::Ordering::SeqCst));
    rep.set("sequential_depth", depth as u64);
    if ok.load(std::sync::atomic::Ordering::SeqCst) {
        let budget = Duration::from_secs(args.get_u64("secs", args.by_tier(8, 100)));
        let start = Instant::now();
        std::thread::scope(|s| {
            for lane in 0..args.get_u64("lanes", 4) {
                let rep = &rep;
                let args = &args;
                s.spawn(move || {
                    let mut rng = Rng::derive(args.seed, lane);
                    while start.elapsed() < budget && rep.violation_count() == 0 {
                        rep.eval();
                        if let Some(sig) = concurrent_history(&mut rng, rep) {
                            rep.distinct(sig);
                            rep.count("concurrent_histories", 1);
                        }
                        if rng.below(64) == 0 && !busy_task_histories(&mut rng, 20, rep) {
                            return;
                        }
                        if rng.below(128) == 0 && !observed_flush_guard_rounds(&mut rng, 1000, rep) {
                            return;
                        }
                    }
                });
            }
        });
    }
    for (name, hits) in vcommon::sync::hook_hits() {
        rep.set(&format!("hook:{name}"), hits);
    }
    rep.finish_and_exit();
}
