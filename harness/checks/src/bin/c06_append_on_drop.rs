//! C06 — a unit-of-work entry is closed and appended exactly once, at the right moment.
//! (a) exhaustive single-thread histories over owner / handles / flush guards / force-flush guards
//! (b) concurrent: the drops of random histories dealt to 2-4 threads, perturbed at the H4 hooks
//! See DESIGN.md §7 C06.

use checks::uow_util::CountingSink;
use metrique::unit_of_work::metrics;
use metrique::{AppendAndCloseOnDrop, AppendAndCloseOnDropHandle, FlushGuard, ForceFlushGuard};
use std::sync::Arc;
use vcommon::sync::SpinGate as Barrier;
use std::time::{Duration, Instant};
use vcommon::serde_json::json;
use vcommon::sync::{is_miri, progress_tick, ticket};
use vcommon::{Args, Fnv, Report, Rng};

#[metrics]
#[derive(Default, Debug)]
struct Work {
    a: u64,
    b: u64,
}

type Owner = AppendAndCloseOnDrop<Work, CountingSink>;
type Handle = AppendAndCloseOnDropHandle<Work, CountingSink>;

#[derive(Clone, Copy, Debug, PartialEq, Eq)]
enum Op {
    Mutate,
    CreateFlush,
    CreateForce,
    ToHandle,
    CloneHandle,
    DropOwner,
    DropHandle,
    DropFlush,
    DropForce,
}

#[derive(Clone, Copy, Debug, PartialEq, Eq)]
enum OwnerState {
    Alive,
    Converted,
    Dropped,
}

/// abstract reference state
#[derive(Clone, Debug)]
struct Model {
    owner: OwnerState,
    handles_alive: u32,
    handles_created: u32,
    flush_alive: u32,
    flush_created: u32,
    force_alive: u32,
    force_created: u32,
    force_fired: bool,
    mutations: u32,
    objects: u32,
}

impl Model {
    fn new() -> Self {
        Model { owner: OwnerState::Alive, handles_alive: 0, handles_created: 0, flush_alive: 0, flush_created: 0, force_alive: 0, force_created: 0, force_fired: false, mutations: 0, objects: 1 }
    }
    fn owner_gone(&self) -> bool {
        match self.owner {
            OwnerState::Alive => false,
            OwnerState::Dropped => true,
            OwnerState::Converted => self.handles_alive == 0,
        }
    }
    /// the reference condition C(t)
    fn must_have_emitted(&self) -> bool {
        self.owner_gone() && (self.flush_alive == 0 || self.force_fired)
    }
    fn done(&self) -> bool {
        self.owner_gone() && self.flush_alive == 0 && self.force_alive == 0
    }
    fn enabled(&self, max_objects: u32) -> Vec<Op> {
        let mut v = vec![];
        if self.owner == OwnerState::Alive {
            if self.mutations < 2 {
                v.push(Op::Mutate);
            }
            if self.flush_created < 3 && self.objects < max_objects {
                v.push(Op::CreateFlush);
            }
            if self.force_created < 2 && self.objects < max_objects {
                v.push(Op::CreateForce);
            }
            v.push(Op::ToHandle);
            v.push(Op::DropOwner);
        }
        if self.owner == OwnerState::Converted && self.handles_alive > 0 {
            if self.handles_created < 3 && self.objects < max_objects {
                v.push(Op::CloneHandle);
            }
            v.push(Op::DropHandle);
        }
        if self.flush_alive > 0 {
            v.push(Op::DropFlush);
        }
        if self.force_alive > 0 {
            v.push(Op::DropForce);
        }
        v
    }
    fn apply(&mut self, op: Op) {
        match op {
            Op::Mutate => self.mutations += 1,
            Op::CreateFlush => {
                self.flush_alive += 1;
                self.flush_created += 1;
                self.objects += 1;
            }
            Op::CreateForce => {
                self.force_alive += 1;
                self.force_created += 1;
                self.objects += 1;
            }
            Op::ToHandle => {
                self.owner = OwnerState::Converted;
                self.handles_alive = 1;
                self.handles_created = 1;
            }
            Op::CloneHandle => {
                self.handles_alive += 1;
                self.handles_created += 1;
                self.objects += 1;
            }
            Op::DropOwner => self.owner = OwnerState::Dropped,
            Op::DropHandle => self.handles_alive -= 1,
            Op::DropFlush => self.flush_alive -= 1,
            Op::DropForce => {
                self.force_alive -= 1;
                self.force_fired = true;
            }
        }
    }
}

/// the real objects
struct Real {
    sink: CountingSink,
    owner: Option<Owner>,
    handles: Vec<Handle>,
    flush: Vec<FlushGuard>,
    force: Vec<ForceFlushGuard>,
    token: u64,
    last: (u64, u64),
}

impl Real {
    fn new(token0: u64) -> Self {
        let sink = CountingSink::new();
        let owner = Work { a: token0, b: token0 + 1 }.append_on_drop(sink.clone());
        Real { sink, owner: Some(owner), handles: vec![], flush: vec![], force: vec![], token: token0 + 2, last: (token0, token0 + 1) }
    }
    fn apply(&mut self, op: Op) {
        match op {
            Op::Mutate => {
                let o = self.owner.as_mut().unwrap();
                o.a = self.token;
                o.b = self.token + 1;
                self.last = (self.token, self.token + 1);
                self.token += 2;
            }
            Op::CreateFlush => self.flush.push(self.owner.as_ref().unwrap().flush_guard()),
            Op::CreateForce => self.force.push(self.owner.as_ref().unwrap().force_flush_guard()),
            Op::ToHandle => self.handles.push(self.owner.take().unwrap().handle()),
            Op::CloneHandle => self.handles.push(self.handles.last().unwrap().clone()),
            Op::DropOwner => drop(self.owner.take()),
            Op::DropHandle => drop(self.handles.pop()),
            Op::DropFlush => drop(self.flush.pop()),
            Op::DropForce => drop(self.force.pop()),
        }
    }
}

fn run_sequential(ops: &[Op], rep: &Report) -> bool {
    let mut m = Model::new();
    let mut r = Real::new(1000);
    for (i, op) in ops.iter().enumerate() {
        m.apply(*op);
        r.apply(*op);
        let expect = m.must_have_emitted() as usize;
        let got = r.sink.count();
        if got != expect {
            rep.violation(
                if got > expect && expect == 0 { "appended-too-early" } else if got > expect { "appended-twice" } else { "not-appended-when-due" },
                json!({"ops": format!("{ops:?}"), "after_op_index": i, "after_op": format!("{op:?}"), "appends_observed": got, "appends_expected": expect, "model": format!("{m:?}")}),
            );
            return false;
        }
    }
    // at the end everything has been dropped: exactly one append, with the last written tokens
    let apps = r.sink.take();
    if apps.len() != 1 {
        rep.violation("append-count-at-quiescence", json!({"ops": format!("{ops:?}"), "appends": apps.len()}));
        return false;
    }
    if (apps[0].u64_field("a"), apps[0].u64_field("b")) != (Some(r.last.0), Some(r.last.1)) {
        rep.violation(
            "appended-entry-misses-owner-mutation",
            json!({"ops": format!("{ops:?}"), "expected": [r.last.0, r.last.1], "appended": [apps[0].u64_field("a"), apps[0].u64_field("b")]}),
        );
        return false;
    }
    true
}

fn dfs(m: &Model, prefix: &mut Vec<Op>, max_objects: u32, count: &mut u64, rep: &Report) -> bool {
    if m.done() {
        *count += 1;
        rep.eval();
        // non-trivial: at least one guard of some kind was involved
        if m.flush_created + m.force_created > 0 {
            let mut h = Fnv::new();
            for o in prefix.iter() {
                h.u64(*o as u64);
            }
            rep.distinct(h.finish());
        }
        if *count % 5003 == 1 {
            rep.sample(|| json!({"sequential_history": format!("{prefix:?}")}));
        }
        return run_sequential(prefix, rep);
    }
    for op in m.enabled(max_objects) {
        let mut m2 = m.clone();
        m2.apply(op);
        prefix.push(op);
        let ok = dfs(&m2, prefix, max_objects, count, rep);
        prefix.pop();
        if !ok {
            return false;
        }
    }
    true
}

// ------------------------------------------------------------------------------------------
// concurrent

#[allow(dead_code)]
enum Obj {
    Owner(Owner),
    Handle(Handle),
    Flush(FlushGuard),
    Force(ForceFlushGuard),
}

#[derive(Clone, Copy, Debug, PartialEq)]
enum Kind {
    Owner,
    Handle,
    Flush,
    Force,
}

fn concurrent_history(rng: &mut Rng, rep: &Report) -> Option<u64> {
    // build phase on this thread: a random valid prefix
    let mut m = Model::new();
    let mut r = Real::new(rng.below(1 << 40) * 2 + 10);
    let mut prefix = vec![];
    let build_len = 1 + rng.below(10);
    for _ in 0..build_len {
        let en = m.enabled(8);
        // bias towards creation so that something is left to drop concurrently
        let creating: Vec<Op> = en.iter().copied().filter(|o| matches!(o, Op::Mutate | Op::CreateFlush | Op::CreateForce | Op::ToHandle | Op::CloneHandle)).collect();
        let op = if !creating.is_empty() && rng.below(4) != 0 { *rng.pick(&creating) } else { *rng.pick(&en) };
        if m.done() {
            break;
        }
        m.apply(op);
        r.apply(op);
        prefix.push(op);
        if m.done() {
            break;
        }
    }
    let emitted_in_prefix = r.sink.count();
    if emitted_in_prefix != m.must_have_emitted() as usize {
        rep.violation("prefix-append-count", json!({"prefix": format!("{prefix:?}"), "appends": emitted_in_prefix}));
        return None;
    }
    let force_fired_in_prefix = m.force_fired;
    let last = r.last;
    // deal the live objects to threads
    let mut objs: Vec<(Kind, Obj)> = vec![];
    if let Some(o) = r.owner.take() {
        objs.push((Kind::Owner, Obj::Owner(o)));
    }
    for h in r.handles.drain(..) {
        objs.push((Kind::Handle, Obj::Handle(h)));
    }
    for g in r.flush.drain(..) {
        objs.push((Kind::Flush, Obj::Flush(g)));
    }
    for g in r.force.drain(..) {
        objs.push((Kind::Force, Obj::Force(g)));
    }
    if objs.is_empty() {
        return Some(0);
    }
    rng.shuffle(&mut objs);
    let nthreads = (2 + rng.below(3) as usize).min(objs.len().max(1));
    let mut piles: Vec<Vec<(Kind, Obj)>> = (0..nthreads).map(|_| vec![]).collect();
    for (i, o) in objs.into_iter().enumerate() {
        let t = if rng.bool() { i % nthreads } else { rng.usize_below(nthreads) };
        piles[t].push(o);
    }
    let kinds: Vec<Vec<Kind>> = piles.iter().map(|p| p.iter().map(|x| x.0).collect()).collect();
    let barrier = Arc::new(Barrier::new(nthreads));
    // in a quarter of the histories some objects are dropped by a panic unwinding through their owner
    let unwind_pm = if rng.below(4) == 0 { 400 } else { 0 };
    let threads: Vec<_> = piles
        .into_iter()
        .map(|pile| {
            let barrier = barrier.clone();
            let mut trng = Rng::derive(rng.next_u64(), 6);
            std::thread::spawn(move || {
                barrier.wait();
                let mut log = vec![];
                for (k, o) in pile {
                    let start = ticket();
                    if trng.below(1000) < unwind_pm {
                        let r = std::panic::catch_unwind(std::panic::AssertUnwindSafe(move || {
                            let _held = o;
                            std::panic::panic_any(IntentionalPanic);
                        }));
                        assert!(r.is_err());
                    } else {
                        drop(o);
                    }
                    let end = ticket();
                    progress_tick();
                    log.push((k, start, end));
                }
                log
            })
        })
        .collect();
    let mut drops = vec![];
    for t in threads {
        match t.join() {
            Ok(l) => drops.extend(l),
            Err(_) => {
                rep.violation("drop-panicked", json!({"prefix": format!("{prefix:?}"), "piles": format!("{kinds:?}")}));
                return None;
            }
        }
    }
    let apps = r.sink.take();
    let witness = |what: &str| json!({"what": what, "some_drops_by_unwinding": unwind_pm > 0, "prefix_on_main_thread": format!("{prefix:?}"), "drops_by_thread": format!("{kinds:?}"), "drops": format!("{drops:?}"), "appends": apps.iter().map(|a| a.ticket).collect::<Vec<_>>()});
    if apps.len() != 1 {
        rep.violation(if apps.is_empty() { "never-appended" } else { "appended-twice" }, witness("exactly one append expected at quiescence"));
        return None;
    }
    let a = &apps[0];
    if emitted_in_prefix == 0 {
        // the append must not precede the START of any drop that every linearization needs
        for (k, start, _) in &drops {
            if matches!(k, Kind::Owner | Kind::Handle) && a.ticket < *start {
                rep.violation("appended-before-owner-dropped", witness("append ticket earlier than the start of the drop of the owner / a handle"));
                return None;
            }
        }
        if !force_fired_in_prefix {
            let all_flush_started = drops.iter().filter(|d| d.0 == Kind::Flush).all(|d| a.ticket > d.1);
            let some_force_started = drops.iter().filter(|d| d.0 == Kind::Force).any(|d| a.ticket > d.1);
            if !all_flush_started && !some_force_started {
                rep.violation("appended-while-flush-guard-alive", witness("append ticket earlier than the start of the drop of a flush guard, and no force-flush guard drop had started"));
                return None;
            }
        }
    }
    if (a.u64_field("a"), a.u64_field("b")) != (Some(last.0), Some(last.1)) {
        rep.violation("appended-entry-misses-owner-mutation", witness("snapshot differs from the owner's last written tokens"));
        return None;
    }
    if emitted_in_prefix == 0 {
        // not later than due either: the append happens INSIDE the drop call that completes the
        // condition, so its ticket precedes the return of that call. Once the owner and all handles
        // have been dropped and (some force-flush guard has been dropped or had fired before), the
        // entry must be there - a flush guard dropped later must not be what finally releases it.
        let owners_done = drops.iter().filter(|d| matches!(d.0, Kind::Owner | Kind::Handle)).map(|d| d.2).max().unwrap_or(0);
        let first_force_done = drops.iter().filter(|d| d.0 == Kind::Force).map(|d| d.2).min();
        let due = if force_fired_in_prefix { Some(owners_done) } else { first_force_done.map(|f| f.max(owners_done)) };
        if let Some(due) = due {
            // (a drop call that had already begun by then may legitimately be the one that performs the
            // release - e.g. the last flush guard's drop racing with the force-flush guard's)
            let inside_a_call_begun_in_time = drops.iter().any(|d| d.1 <= due && d.1 < a.ticket && a.ticket < d.2);
            if a.ticket > due && !inside_a_call_begun_in_time {
                rep.violation(
                    "not-appended-when-due",
                    witness(&format!("the owner and every handle had been dropped and a force-flush guard had been dropped by ticket {due}, but the entry was appended only at ticket {}, inside a drop call that began after that (a flush guard that should no longer matter)", a.ticket)),
                );
                return None;
            }
        }
    }
    let mut h = Fnv::new();
    h.str(&format!("{prefix:?}{kinds:?}"));
    // which drop triggered the append: the last drop that started before it
    let trigger = drops.iter().filter(|d| d.1 < a.ticket).max_by_key(|d| d.1).map(|d| d.0 as u64).unwrap_or(9);
    h.u64(trigger);
    Some(h.finish() | 1)
}

/// Guards are CREATED concurrently from `&owner` on several threads (optionally racing with the
/// drop of a force-flush guard); afterwards everything is dropped one by one and the append count
/// is compared with the reference condition after every drop.
fn concurrent_creation_history(rng: &mut Rng, rep: &Report) -> Option<u64> {
    let sink = CountingSink::new();
    let token = rng.below(1 << 40) * 2 + 10;
    let mut owner: Owner = Work { a: 1, b: 2 }.append_on_drop(sink.clone());
    owner.a = token;
    owner.b = token + 1;
    let nthreads = 2 + rng.usize_below(2);
    let per: Vec<usize> = (0..nthreads).map(|_| 1 + rng.usize_below(if is_miri() { 2 } else { 40 })).collect();
    let race_force = rng.below(3) == 0;
    let observe = rng.bool();
    let pre_force = if race_force { Some(owner.force_flush_guard()) } else { None };
    let barrier = Barrier::new(nthreads + race_force as usize);
    let owner_ref = &owner;
    let mut guards: Vec<FlushGuard> = vec![];
    std::thread::scope(|s| {
        let hs: Vec<_> = per
            .iter()
            .map(|n| {
                let barrier = &barrier;
                s.spawn(move || {
                    barrier.wait();
                    // read-only uses of the owner and of the guards (Debug formatting) go on meanwhile
                    let mut sink_len = 0usize;
                    let v = (0..*n)
                        .map(|i| {
                            let g = owner_ref.flush_guard();
                            if observe && i % 2 == 0 {
                                sink_len += format!("{g:?}{owner_ref:?}").len();
                            }
                            g
                        })
                        .collect::<Vec<_>>();
                    if observe {
                        for g in &v {
                            sink_len += format!("{g:?}").len();
                        }
                    }
                    std::hint::black_box(sink_len);
                    v
                })
            })
            .collect();
        if let Some(f) = pre_force {
            barrier.wait();
            drop(f);
        }
        for h in hs {
            guards.extend(h.join().expect("creator panicked"));
        }
    });
    progress_tick();
    let total_guards = guards.len();
    let witness = |what: &str, extra: vcommon::serde_json::Value| json!({"what": what, "creators": per, "force_guard_dropped_concurrently": race_force, "debug_formatting_concurrently": observe, "guards_created": total_guards, "extra": extra});
    if sink.count() != 0 {
        rep.violation("appended-while-owner-alive", witness("appended before the owner was dropped", json!({})));
        return None;
    }
    // a force-flush guard created AFTER the concurrently created flush guards must override all of them
    let post_force = if !race_force && rng.bool() { Some(owner.force_flush_guard()) } else { None };
    let had_post_force = post_force.is_some();
    drop(owner);
    if let Some(f) = post_force {
        if sink.count() != 0 {
            rep.violation("appended-while-flush-guard-alive", witness("appended when the owner was dropped although flush guards and an undropped force-flush guard exist", json!({})));
            return None;
        }
        drop(f);
        if sink.count() != 1 {
            rep.violation(
                "not-appended-when-due",
                witness("owner dropped, then a force-flush guard (created after the flush guards) dropped: the entry must be appended now, whatever flush guards are alive", json!({"observed": sink.count(), "flush_guards_alive": guards.len()})),
            );
            return None;
        }
    }
    let race_force = race_force || had_post_force;
    let expect_after_owner = race_force as usize;
    if sink.count() != expect_after_owner {
        rep.violation(
            if sink.count() > expect_after_owner { "appended-while-flush-guard-alive" } else { "not-appended-when-due" },
            witness("append count after dropping the owner", json!({"observed": sink.count(), "expected": expect_after_owner, "flush_guards_alive": guards.len()})),
        );
        return None;
    }
    rng.shuffle(&mut guards);
    while let Some(g) = guards.pop() {
        drop(g);
        let expect = (race_force || guards.is_empty()) as usize;
        if sink.count() != expect {
            rep.violation(
                if sink.count() > expect { "appended-while-flush-guard-alive" } else { "not-appended-when-due" },
                witness("append count after dropping a flush guard", json!({"observed": sink.count(), "expected": expect, "flush_guards_still_alive": guards.len()})),
            );
            return None;
        }
    }
    let apps = sink.take();
    if apps.len() != 1 || (apps[0].u64_field("a"), apps[0].u64_field("b")) != (Some(token), Some(token + 1)) {
        rep.violation("append-count-or-content-at-quiescence", witness("exactly one append with the owner's last tokens expected", json!({"appends": apps.len()})));
        return None;
    }
    Some(Fnv::new().str(&format!("{per:?}{race_force}")).finish() | 1)
}

/// payload of the panics this harness raises on purpose (silenced in the panic hook)
struct IntentionalPanic;

/// a sink whose append panics while `armed` (user code failing inside an entry's final drop)
#[derive(Clone)]
struct PanickySink {
    inner: CountingSink,
    armed: Arc<std::sync::atomic::AtomicBool>,
}
impl<E: metrique_writer::Entry + Send + 'static> metrique_writer::EntrySink<E> for PanickySink {
    fn append(&self, entry: E) {
        if self.armed.swap(false, std::sync::atomic::Ordering::SeqCst) {
            std::panic::panic_any(IntentionalPanic);
        }
        metrique_writer::EntrySink::append(&self.inner, entry)
    }
    fn flush_async(&self) -> metrique_writer::sink::FlushWait {
        metrique_writer::sink::FlushWait::ready()
    }
}

/// A force-flush guard that outlives its (already appended) entry - the documented "timeout task"
/// use - is dropped while LATER entries created on the same thread are in flight: it belongs to
/// its own entry and must not touch theirs.
fn stale_force_guard_history(rng: &mut Rng, rep: &Report) -> Option<u64> {
    let sink = CountingSink::new();
    let n_stale = 1 + rng.usize_below(3);
    let mut stale = vec![];
    for _ in 0..n_stale {
        let owner = Work { a: 1, b: 2 }.append_on_drop(sink.clone());
        stale.push(owner.force_flush_guard());
        drop(owner);
    }
    if sink.count() != n_stale {
        rep.violation("not-appended-when-due", json!({"what": "entries with only a force-flush guard outstanding must be appended when their owner is dropped", "expected": n_stale, "observed": sink.count()}));
        return None;
    }
    let variant = rng.below(3);
    let witness = |step: &str, observed: usize, expected: usize| {
        json!({"what": "force-flush guards of entries that were appended long ago are still alive; a later entry on the same thread relies on its own flush guard",
               "stale_force_guards": n_stale, "variant": variant, "step": step, "appends_observed": observed, "appends_expected": expected})
    };
    let owner = Work { a: 7, b: 8 }.append_on_drop(sink.clone());
    let g = owner.flush_guard();
    let mut expected = n_stale;
    match variant {
        0 => {
            // later entry: owner dropped, flush guard alive; then the stale guards go
            drop(owner);
            drop(stale);
            if sink.count() != expected {
                rep.violation("appended-while-flush-guard-alive", witness("stale force-flush guards of OTHER entries dropped", sink.count(), expected));
                return None;
            }
            drop(g);
        }
        1 => {
            // stale guards go while the later entry's owner is alive; its flush guard must still count
            drop(stale);
            drop(owner);
            if sink.count() != expected {
                rep.violation("appended-while-flush-guard-alive", witness("owner dropped after the stale guards of other entries were dropped; own flush guard alive", sink.count(), expected));
                return None;
            }
            drop(g);
        }
        _ => {
            // the later entry has its own force-flush guard too
            let f = owner.force_flush_guard();
            drop(owner);
            drop(stale.pop());
            if sink.count() != expected {
                rep.violation("appended-while-flush-guard-alive", witness("one stale guard of another entry dropped; own flush and force-flush guards alive", sink.count(), expected));
                return None;
            }
            drop(f);
            expected += 1;
            if sink.count() != expected {
                rep.violation("not-appended-when-due", witness("own force-flush guard dropped", sink.count(), expected));
                return None;
            }
            expected -= 1;
            drop(g);
            drop(stale);
        }
    }
    expected += 1;
    if sink.count() != expected {
        rep.violation(if sink.count() < expected { "not-appended-when-due" } else { "appended-twice" }, witness("everything dropped", sink.count(), expected));
        return None;
    }
    rep.count("stale_force_guard_histories", 1);
    Some(Fnv::new().str("stale-force").u64(variant).u64(n_stale as u64).finish() | 1)
}

/// One entry's final drop panics inside the sink (caught); entries finished on the SAME thread
/// afterwards - by owner drop, by the last flush guard, by a force-flush guard - must be appended
/// exactly once, at the right moment, as if nothing had happened.
fn after_caught_panic_history(rng: &mut Rng, rep: &Report) -> Option<u64> {
    let sink = PanickySink { inner: CountingSink::new(), armed: Default::default() };
    let how = rng.below(3);
    // the faulting entry
    {
        let owner = Work { a: 1, b: 2 }.append_on_drop(sink.clone());
        let g = if how == 1 { Some(owner.flush_guard()) } else { None };
        let f = if how == 2 { Some((owner.flush_guard(), owner.force_flush_guard())) } else { None };
        sink.armed.store(true, std::sync::atomic::Ordering::SeqCst);
        let r = std::panic::catch_unwind(std::panic::AssertUnwindSafe(move || {
            drop(owner);
            drop(g);
            if let Some((keep, force)) = f {
                drop(force);
                drop(keep);
            }
        }));
        if r.is_ok() {
            rep.inconclusive("the scripted sink panic did not happen (harness error)");
            return None;
        }
    }
    let base = sink.inner.count();
    let finished_by = ["owner drop", "last flush guard", "force-flush guard"][how as usize];
    let witness = |what: &str, step: &str, observed: usize, expected: usize| json!({"what": what, "faulting_entry_finished_by": finished_by, "step": step, "appends_observed": observed, "appends_expected": expected});
    let what = "an earlier entry's sink.append() panicked on this thread during its final drop (the panic was caught); later entries on the same thread must behave as always";
    let mut expected = base;
    for k in 0..3 {
        let tok = rng.below(1 << 40) + 10;
        let mut owner = Work { a: 1, b: 2 }.append_on_drop(sink.clone());
        owner.a = tok;
        owner.b = tok + 1;
        match k {
            0 => {
                drop(owner);
                expected += 1;
            }
            1 => {
                let g = owner.flush_guard();
                drop(owner);
                if sink.inner.count() != expected {
                    rep.violation("appended-while-flush-guard-alive", witness(what, "owner dropped, flush guard alive", sink.inner.count(), expected));
                    return None;
                }
                drop(g);
                expected += 1;
            }
            _ => {
                let g = owner.flush_guard();
                let f = owner.force_flush_guard();
                drop(owner);
                drop(f);
                expected += 1;
                if sink.inner.count() != expected {
                    rep.violation("not-appended-when-due", witness(what, "owner and force-flush guard dropped", sink.inner.count(), expected));
                    return None;
                }
                drop(g);
            }
        }
        if sink.inner.count() != expected {
            rep.violation(if sink.inner.count() < expected { "not-appended-when-due" } else { "appended-twice" }, witness(what, ["owner dropped", "last flush guard dropped", "flush guard dropped after the force flush"][k], sink.inner.count(), expected));
            return None;
        }
        let last = sink.inner.snapshot().last().map(|a| (a.u64_field("a"), a.u64_field("b")));
        if last != Some((Some(tok), Some(tok + 1))) {
            rep.violation("appended-entry-misses-owner-mutation", witness(what, "content of the appended entry", sink.inner.count(), expected));
            return None;
        }
    }
    rep.count("after_caught_panic_histories", 1);
    Some(Fnv::new().str("after-panic").u64(how).finish() | 1)
}

/// Many short rounds against one persistent partner thread: the owner is dropped on this thread and
/// a force-flush guard on the partner at the same instant (both released by a spinning gate), while
/// a straggling flush guard stays alive. Once BOTH drops have returned the entry is due: it must be
/// at the sink before the straggler is touched. (Thread spawns per round would spread the two
/// drops microseconds apart; orderings that only differ in what each core still has in its store
/// buffer need them nanoseconds apart, thousands of times.)
fn owner_vs_force_rounds(rng: &mut Rng, n: usize, rep: &Report) -> bool {
    use std::sync::atomic::{AtomicBool, Ordering::SeqCst};
    let slot: std::sync::Mutex<Option<ForceFlushGuard>> = std::sync::Mutex::new(None);
    let gate = Barrier::new(2);
    let quit = AtomicBool::new(false);
    let mut ok = true;
    std::thread::scope(|s| {
        s.spawn(|| loop {
            gate.wait(); // a round is set up (or quit)
            if quit.load(SeqCst) {
                break;
            }
            let f = slot.lock().unwrap().take().expect("force guard published");
            gate.wait(); // go
            drop(f);
            gate.wait(); // both drops returned
        });
        for _ in 0..n {
            let sink = CountingSink::new();
            let tok = rng.below(1 << 40) + 1000;
            let owner: Owner = Work { a: tok, b: tok + 1 }.append_on_drop(sink.clone());
            let straggler: FlushGuard = owner.flush_guard();
            let second = if rng.bool() { Some(owner.flush_guard()) } else { None };
            *slot.lock().unwrap() = Some(owner.force_flush_guard());
            let spins = rng.below(40);
            gate.wait();
            gate.wait();
            for _ in 0..spins {
                std::hint::spin_loop();
            }
            drop(owner);
            gate.wait();
            let at_due = sink.snapshot();
            drop(second);
            drop(straggler);
            let at_end = sink.take();
            rep.eval();
            progress_tick();
            let content_ok = at_end.first().is_some_and(|a| a.u64_field("a") == Some(tok) && a.u64_field("b") == Some(tok + 1));
            if at_due.len() != 1 || at_end.len() != 1 || !content_ok {
                let kind = if at_end.len() > 1 { "appended-twice" } else if at_end.is_empty() { "never-appended" } else if at_due.is_empty() { "not-appended-when-due" } else { "content-differs" };
                rep.violation(kind, json!({"what": "owner dropped on one thread and a force-flush guard on another at the same instant, one or two flush guards still alive: once both drops have returned the entry must be at the sink (exactly once, with the owner's last values)",
                    "appended_when_both_drops_had_returned": at_due.len(), "appended_after_the_remaining_flush_guards_were_dropped": at_end.len(), "second_flush_guard": second_was(&at_end), "expected_tokens": [tok, tok + 1]}));
                ok = false;
                break;
            }
            rep.count("owner_vs_force_guard_rounds", 1);
        }
        quit.store(true, SeqCst);
        gate.wait();
    });
    ok
}

fn second_was(_a: &[checks::uow_util::Appended]) -> &'static str {
    "present in half of the rounds"
}

// ------------------------------------------------------------------------------------------
// a flush guard in somebody else's keeping: handed to a slot guard (OnParentDrop::Wait or
// delay_flush). When that slot guard goes away the flush guard goes with it - also when the slot
// it belonged to has meanwhile been replaced in the entry, so that nobody listens for its value.

#[metrics]
#[derive(Default)]
struct SlotChild {
    v: u64,
}
#[metrics]
#[derive(Default)]
struct WorkWithSlot {
    a: u64,
    #[metrics(flatten)]
    s: metrique::Slot<SlotChild>,
}

fn slot_held_flush_guard_cases(rep: &Report) -> bool {
    for (case, via_delay, replace_slot, guard_first) in [(0, false, true, false), (1, true, true, false), (2, false, false, false), (3, true, false, false), (4, false, true, true), (5, true, true, true)] {
        rep.eval();
        let sink = CountingSink::new();
        let mut owner = WorkWithSlot { a: 40 + case, ..Default::default() }.append_on_drop(sink.clone());
        let mut g = if via_delay {
            let mut g = owner.s.open(metrique::OnParentDrop::Discard).expect("first open");
            g.delay_flush(owner.flush_guard());
            g
        } else {
            let fg = owner.flush_guard();
            owner.s.open(metrique::OnParentDrop::Wait(fg)).expect("first open")
        };
        g.v = 7;
        if replace_slot {
            // the entry gets a fresh slot: the old slot's receiving half is gone, its guard lives on
            owner.s = metrique::Slot::default();
        }
        let mut early = 0;
        if guard_first {
            drop(g);
            early += sink.count();
            drop(owner);
        } else {
            drop(owner);
            early += sink.count();
            drop(g);
        }
        let apps = sink.take();
        let a_ok = apps.first().is_some_and(|x| x.u64_field("a") == Some(40 + case));
        let v = apps.first().and_then(|x| x.u64_field("v"));
        let v_ok = if replace_slot { v.is_none() } else { v == Some(7) };
        if early != 0 || apps.len() != 1 || !a_ok || !v_ok {
            let kind = if early != 0 { "appended-too-early" } else if apps.is_empty() { "never-appended" } else if apps.len() > 1 { "appended-twice" } else { "content-differs" };
            rep.violation(kind, json!({"what": "the entry's only flush guard was handed to a slot guard; once the owner and that slot guard are both dropped the entry must be at the sink, exactly once - also when the slot had been replaced in the entry meanwhile",
                "flush_guard_handed_over_by": if via_delay { "delay_flush" } else { "open(OnParentDrop::Wait(..))" }, "slot_replaced_before_the_drops": replace_slot, "slot_guard_dropped_first": guard_first,
                "appended_before_the_last_of_the_two_drops": early, "appended_at_the_end": apps.len(), "slot_value_in_entry": v}));
            return false;
        }
        rep.count("slot_held_flush_guard_cases", 1);
    }
    true
}

fn main() {
    let args = Args::parse();
    let rep = Report::new("C06", &args);
    let default_hook = std::panic::take_hook();
    std::panic::set_hook(Box::new(move |info| {
        if !info.payload().is::<IntentionalPanic>() {
            default_hook(info);
        }
    }));
    vcommon::sync::install_perturbation(args.seed, if is_miri() { 1000 } else { 200 });
    if is_miri() || args.get_u64("tiny", 0) == 1 {
        rep.rule("one concurrent history (owner + guards dealt to 2-4 threads) under the interpreter/sanitizer: UnsafeCell / unsafe Send+Sync protocol, leaks");
        let mut rng = Rng::derive(args.seed, args.get_u64("variant", 0));
        for _ in 0..3 {
            rep.eval();
            if let Some(sig) = concurrent_history(&mut rng, &rep) {
                println!("OUTCOME sig={sig:016x}");
                rep.distinct(sig);
                rep.distinct(sig ^ 2);
            }
            rep.eval();
            if let Some(sig) = concurrent_creation_history(&mut rng, &rep) {
                println!("OUTCOME creation sig={sig:016x}");
            }
        }
        rep.finish_and_exit();
    }
    rep.rule(
        "(a) EVERY single-thread history over one owner (mutated with fresh tokens), up to 3 handles, up to 3 flush guards, up to 2 force-flush guards (guards may be created \
         after a force-flush guard was dropped), at most N objects: after every operation the number of appends must equal the reference condition \
         'owner and all handles dropped and (all flush guards dropped or some force-flush guard dropped)'; (b) random histories whose remaining drops are dealt to 2-4 threads \
         released by a barrier with perturbation at the keep-alive hook points: exactly one append, not before the start of the drops every linearization needs, not later than due, content = last tokens; (c) tens of thousands of short rounds in which the owner and a force-flush guard are dropped on two threads at the same instant with a flush guard outstanding: the entry is at the sink once both drops have returned. \
         distinct = distinct operation sequences / (prefix, thread assignment, triggering drop)",
    );
    let max_objects = args.get_u64("objects", args.by_tier(5, 6)) as u32;
    // enumerate all prefixes of depth 4, then explore each subtree on a pool of threads
    let mut prefixes: Vec<(Model, Vec<Op>)> = vec![(Model::new(), vec![])];
    for _ in 0..4 {
        let mut next = vec![];
        for (m, p) in prefixes {
            if m.done() {
                next.push((m, p));
                continue;
            }
            for op in m.enabled(max_objects) {
                let mut m2 = m.clone();
                m2.apply(op);
                let mut p2 = p.clone();
                p2.push(op);
                next.push((m2, p2));
            }
        }
        prefixes = next;
    }
    let next_idx = std::sync::atomic::AtomicUsize::new(0);
    let total = std::sync::atomic::AtomicU64::new(0);
    let all_ok = std::sync::atomic::AtomicBool::new(true);
    std::thread::scope(|s| {
        for _ in 0..args.get_u64("dfs_threads", 14) {
            s.spawn(|| {
                loop {
                    let i = next_idx.fetch_add(1, std::sync::atomic::Ordering::SeqCst);
                    if i >= prefixes.len() || !all_ok.load(std::sync::atomic::Ordering::SeqCst) {
                        break;
                    }
                    let (m, p) = &prefixes[i];
                    let mut count = 0u64;
                    let mut p = p.clone();
                    if !dfs(m, &mut p, max_objects, &mut count, &rep) {
                        all_ok.store(false, std::sync::atomic::Ordering::SeqCst);
                    }
                    total.fetch_add(count, std::sync::atomic::Ordering::SeqCst);
                }
            });
        }
    });
    let ok = all_ok.load(std::sync::atomic::Ordering::SeqCst) && slot_held_flush_guard_cases(&rep);
    rep.set("sequential_histories_enumerated", total.load(std::sync::atomic::Ordering::SeqCst));
    rep.set("sequential_max_objects", max_objects as u64);
    if ok {
        let budget = Duration::from_secs(args.get_u64("secs", args.by_tier(8, 120)));
        let start = Instant::now();
        std::thread::scope(|s| {
            for lane in 0..args.get_u64("lanes", 4) {
                let rep = &rep;
                let args = &args;
                s.spawn(move || {
                    let mut rng = Rng::derive(args.seed, lane);
                    while start.elapsed() < budget && rep.violation_count() == 0 {
                        rep.eval();
                        if rng.below(300) == 0 {
                            if !owner_vs_force_rounds(&mut rng, 2500, rep) {
                                return;
                            }
                            continue;
                        }
                        if rng.below(50) == 0 {
                            if let Some(sig) = after_caught_panic_history(&mut rng, rep) {
                                rep.distinct(sig);
                            }
                            continue;
                        }
                        if rng.below(50) == 0 {
                            if let Some(sig) = stale_force_guard_history(&mut rng, rep) {
                                rep.distinct(sig);
                            }
                            continue;
                        }
                        if rng.below(3) == 0 {
                            if let Some(sig) = concurrent_creation_history(&mut rng, rep) {
                                rep.distinct(sig);
                                rep.count("concurrent_creation_histories", 1);
                            }
                            continue;
                        }
                        if let Some(sig) = concurrent_history(&mut rng, rep) {
                            if sig != 0 {
                                rep.distinct(sig);
                                rep.count("concurrent_histories", 1);
                            }
                        }
                    }
                });
            }
        });
    }
    for (name, hits) in vcommon::sync::hook_hits() {
        rep.set(&format!("hook:{name}"), hits);
    }
    rep.finish_and_exit();
}
