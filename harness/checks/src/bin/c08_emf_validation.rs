//! C08 — EMF validation rejects exactly the malformed entries and never alters valid output.
//! Shape R: reference validity predicate + transparency against the non-validating formatter +
//! duplicate-member detection by the strict parser. Built and run in both profiles (with and
//! without debug assertions). See DESIGN.md §7 C08.

use checks::emf_util::*;
use metrique_writer::sample::SampledFormat;
use std::collections::HashSet;
use std::sync::Arc;
use std::time::{Duration, Instant};
use vcommon::recording::{Op, POp, PVal, ProgramEntry, Val, log_json, record};
use vcommon::serde_json::json;
use vcommon::{Args, Fnv, Report, Rng};

pub struct ScriptRng(pub u64);
impl rand::RngCore for ScriptRng {
    fn next_u32(&mut self) -> u32 {
        (self.0 >> 32) as u32
    }
    fn next_u64(&mut self) -> u64 {
        self.0
    }
    fn fill_bytes(&mut self, dst: &mut [u8]) {
        for (i, b) in dst.iter_mut().enumerate() {
            *b = (self.0 >> (8 * (i % 8))) as u8;
        }
    }
}

/// `long_lived`: the formatter that has already seen the earlier entries of this sequence (its
/// internal buffers are whatever those left behind); None = a freshly built one
fn run_format(cfg: &Cfg, long_lived: Option<&mut metrique_writer_format_emf::Emf>, e: &ProgramEntry, sampling: Option<(f32, u64)>) -> (FmtResult, Vec<u8>) {
    let mut fresh;
    let emf: &mut metrique_writer_format_emf::Emf = match long_lived {
        Some(l) => l,
        None => {
            fresh = cfg.build();
            &mut fresh
        }
    };
    match sampling {
        None => format_to_vec(emf, e),
        Some((rate, draw)) => {
            // (a clone carries the same internal state; the original is then advanced as well so
            // that the sequence continues from a used formatter)
            let mut s = emf.clone().with_sampling_and_rng(ScriptRng(draw));
            let _ = format_to_vec(emf, e);
            let mut out = vec![];
            let r = s.format_with_sample_rate(e, &mut out, rate);
            (
                match r {
                    Ok(()) => FmtResult::Ok,
                    Err(metrique_writer::IoStreamError::Validation(v)) => FmtResult::Validation(v.to_string()),
                    Err(metrique_writer::IoStreamError::Io(i)) => FmtResult::Io(i.to_string()),
                },
                out,
            )
        }
    }
}

/// replace the digits after every `"Timestamp":` by `T` (used only when the entry has no timestamp)
fn mask_timestamps(bytes: &[u8]) -> Vec<u8> {
    let pat = b"\"Timestamp\":";
    let mut out = Vec::with_capacity(bytes.len());
    let mut i = 0;
    while i < bytes.len() {
        if bytes[i..].starts_with(pat) {
            out.extend_from_slice(pat);
            i += pat.len();
            out.push(b'T');
            while i < bytes.len() && bytes[i].is_ascii_digit() {
                i += 1;
            }
        } else {
            out.push(bytes[i]);
            i += 1;
        }
    }
    out
}

fn sorted_lines(bytes: &[u8]) -> Vec<Vec<u8>> {
    let mut v: Vec<Vec<u8>> = bytes.split_inclusive(|b| *b == b'\n').map(|l| l.to_vec()).collect();
    v.sort();
    v
}

fn check_one(cfg: &Cfg, long_lived: Option<&mut metrique_writer_format_emf::Emf>, e: &ProgramEntry, sampling: Option<(f32, u64)>, injected: &[&str], rep: &Report) -> bool {
    let log = record(e);
    let v = validity(&log, cfg);
    let validates = cfg.validates();
    let (res, bytes) = run_format(cfg, long_lived, e, sampling);
    let witness = |what: &str| {
        json!({"what": what, "profile_debug_assertions": cfg!(debug_assertions), "cfg": cfg.json(), "validation_promised": validates,
               "entry": e.json(), "recorded_log": log_json(&log), "injected_defects": injected, "reference_validity": format!("{v:?}"),
               "sampling": format!("{sampling:?}"), "result": format!("{res:?}"), "output": short(&bytes)})
    };
    rep.count(&format!("validity:{}", match &v { Validity::Valid => "valid", Validity::InvalidAlways(_) => "invalid-always", Validity::InvalidWhenValidating(_) => "invalid-when-validating", Validity::Unspecified(_) => "unspecified" }), 1);
    let must_reject = match &v {
        Validity::InvalidAlways(_) => true,
        Validity::InvalidWhenValidating(_) => validates,
        _ => false,
    };
    let must_accept = matches!(v, Validity::Valid);
    if let Validity::InvalidAlways(d) | Validity::InvalidWhenValidating(d) = &v {
        rep.count(&format!("defect:{d}"), 1);
    }
    match &res {
        FmtResult::Io(_) => {
            rep.violation("io-error-from-vec-writer", witness("I/O error from an infallible writer"));
            return false;
        }
        FmtResult::Validation(_) => {
            if !bytes.is_empty() {
                rep.violation("bytes-written-on-rejection", witness("validation error but bytes were written"));
                return false;
            }
            if must_accept {
                rep.violation("valid-entry-rejected", witness("an entry with none of the listed defects was rejected"));
                return false;
            }
            rep.count("rejected", 1);
        }
        FmtResult::Ok => {
            if must_reject {
                rep.violation("malformed-entry-accepted", witness("an entry with a listed defect was accepted although validation is promised for this configuration/profile"));
                return false;
            }
            rep.count("accepted", 1);
            let lines = match parse_output(&bytes) {
                ParseOutcome::Ok(l) => l,
                ParseOutcome::Malformed(m) => {
                    rep.violation("invalid-json", witness(&m));
                    return false;
                }
                ParseOutcome::HarnessDisagreement(m) => {
                    rep.inconclusive(&m);
                    return false;
                }
            };
            if validates {
                // no emitted record has two members with the same name
                let dim_keys: HashSet<&str> = log
                    .iter()
                    .filter_map(|o| match o {
                        Op::Value { val: Val::Metric { dims, .. }, .. } => Some(dims.iter().map(|d| d.0.as_str())),
                        _ => None,
                    })
                    .flatten()
                    .collect();
                for l in &lines {
                    let dups = l.duplicate_members();
                    if !dups.is_empty() {
                        let f4 = !cfg.ignored_dims && dups.iter().all(|d| dim_keys.contains(d.as_str()));
                        if f4 {
                            rep.known_finding(
                                "F4",
                                "per-metric dimension key equal to another member name of the same split record is accepted and emitted as a duplicate JSON member",
                                witness(&format!("duplicate members {dups:?}")),
                            );
                        } else {
                            rep.violation("duplicate-member-in-accepted-record", witness(&format!("duplicate members {dups:?} in a record accepted with validations on")));
                            return false;
                        }
                    }
                }
            }
            if must_accept && validates {
                // transparency: byte-for-byte what the formatter produces with validations disabled
                let mut off = cfg.clone();
                off.validate = Validate::Off;
                let (r2, b2) = run_format(&off, None, e, sampling);
                let has_ts = log.iter().any(|o| matches!(o, Op::Timestamp(_)));
                let (a, b) = if has_ts { (bytes.clone(), b2.clone()) } else { (mask_timestamps(&bytes), mask_timestamps(&b2)) };
                if r2 != FmtResult::Ok || sorted_lines(&a) != sorted_lines(&b) {
                    rep.violation(
                        "validation-not-transparent",
                        json!({"what": "output with validations on differs from the output with validations off for a valid entry",
                               "cfg": cfg.json(), "entry": e.json(), "sampling": format!("{sampling:?}"),
                               "with_validation": short(&bytes), "without_validation": short(&b2), "without_result": format!("{r2:?}")}),
                    );
                    return false;
                }
                rep.count("transparency_compared", 1);
            }
        }
    }
    true
}

fn crafted_cases(rep: &Report) {
    let cfg = Cfg { validate: Validate::All, namespaces: vec!["NS".into()], default_dims: vec![vec![]], directives: vec![], log_group: None, ignored_dims: false };
    let m = |dims: Vec<(&str, &str)>| PVal::Metric {
        obs: vec![vcommon::recording::Obs::U(1)],
        unit: metrique_writer_core::Unit::None,
        dims: dims.into_iter().map(|(a, b)| (a.to_string(), b.to_string())).collect(),
        flags: None,
    };
    let split = || POp::Config(Arc::new(metrique_writer_core::config::AllowSplitEntries::new()));
    // known finding F4, its three shapes
    let cases = vec![
        vec![split(), POp::Value("foo".into(), PVal::Str("x".into())), POp::Value("lat".into(), m(vec![("foo", "y")]))],
        vec![split(), POp::Value("lat".into(), m(vec![("lat", "y")]))],
        vec![split(), POp::Value("lat".into(), m(vec![("k", "1"), ("k", "2")]))],
    ];
    for ops in cases {
        rep.eval();
        let e = ProgramEntry::new(ops);
        check_one(&cfg, None, &e, None, &["crafted: per-metric dimension key collides with a member name (F4)"], rep);
    }
    // one name twice under the SAME per-metric dimension set, the pairs listed in another order
    // (a set is a set), with two and with three pairs; and the valid neighbour (another value)
    for (second, label) in [
        (vec![("Type", "Baz"), ("Kind", "Foo")], "crafted: same name twice under one dimension set listed in two orders"),
        (vec![("Kind", "Foo"), ("Type", "Baz")], "crafted: same name twice under one dimension set"),
    ] {
        let e = ProgramEntry::new(vec![split(), POp::Value("lat".into(), m(vec![("Kind", "Foo"), ("Type", "Baz")])), POp::Value("lat".into(), m(second))]);
        rep.eval();
        check_one(&cfg, None, &e, None, &[label], rep);
    }
    let e = ProgramEntry::new(vec![split(), POp::Value("lat".into(), m(vec![("A", "1"), ("B", "2"), ("C", "3")])), POp::Value("other".into(), m(vec![])), POp::Value("lat".into(), m(vec![("C", "3"), ("A", "1"), ("B", "2")]))]);
    rep.eval();
    check_one(&cfg, None, &e, None, &["crafted: same name twice under one three-pair dimension set listed in two orders"], rep);
    // F3 (fixed): all_validations must validate in every profile
    let e = ProgramEntry::new(vec![POp::Value("a".into(), m(vec![])), POp::Value("a".into(), m(vec![]))]);
    rep.eval();
    check_one(&cfg, None, &e, None, &["crafted: same name twice under Emf::all_validations (F3)"], rep);
}

fn main() {
    let args = Args::parse();
    let rep = Report::new("C08", &args);
    rep.rule(
        "valid generated entries with 0-3 injected defects (each of the listed kinds, at random positions) x configurations (all_validations / builder / \
         builder+skip(false) / no_validations, dimension sets, ignored-dimension mode, sampling) in this build profile; oracle: reference validity predicate \
         (must-reject => validation error and zero bytes; valid => accepted and, as a multiset of lines, byte-identical to the no_validations output), and no \
         accepted record has duplicate member names under the strict parser (known finding F4 matched by signature). distinct = distinct (defect set, configuration, shape) hashes",
    );
    rep.set("profile_debug_assertions", cfg!(debug_assertions) as u64);
    crafted_cases(&rep);
    let budget = Duration::from_secs(args.get_u64("secs", args.by_tier(10, 120)));
    let start = Instant::now();
    std::thread::scope(|s| {
        for lane in 0..args.get_u64("lanes", 12) {
            let rep = &rep;
            let args = &args;
            s.spawn(move || {
                let mut rng = Rng::derive(args.seed, lane + if cfg!(debug_assertions) { 0 } else { 500 });
                while start.elapsed() < budget && rep.violation_count() == 0 {
                    let validate = *rng.pick(&[Validate::All, Validate::All, Validate::BuilderDefault, Validate::BuilderSkipFalse, Validate::Off]);
                    let mut cfg = gen_cfg(&mut rng, false, validate);
                    if rng.bool() {
                        // the documented always-validating constructor takes only namespace + dimension sets
                        cfg.namespaces.truncate(1);
                        cfg.directives.clear();
                        cfg.log_group = None;
                        cfg.ignored_dims = false;
                    }
                    // half of the sequences run on one long-lived formatter: earlier (accepted or
                    // rejected) entries must not change the verdict or the bytes of later ones
                    let mut long_lived = if rng.bool() { Some(cfg.build()) } else { None };
                    for _ in 0..1 + rng.below(5) {
                        let ht = rng.below(4) == 0;
                        // what a stream's report_error() writes after a rejected entry (the in-band
                        // report of a background queue): it relaxes checks for ITSELF only
                        if let Some(l) = long_lived.as_mut() {
                            if rng.below(5) == 0 {
                                use metrique_writer::format::Format;
                                let mut sink = vec![];
                                let _ = l.format(&metrique_writer_core::config::MetriqueValidationError::new("metric entry could not be formatted correctly"), &mut sink);
                                rep.count("error_report_entries_interleaved", 1);
                            }
                        }
                        let mut e = gen_valid_entry(&mut rng, &cfg, ht, false);
                        let mut injected: Vec<&str> = vec![];
                        for _ in 0..*rng.pick(&[0usize, 0, 1, 1, 1, 2, 3]) {
                            let which = rng.usize_below(DEFECTS.len());
                            if inject_defect(&mut rng, &cfg, &mut e, which) {
                                injected.push(DEFECTS[which]);
                            }
                        }
                        let sampling = if rng.below(4) == 0 { Some((*rng.pick(&[1.0f32, 0.5, 0.3, 1e-4]), *rng.pick(&[0u64, u64::MAX, 77]))) } else { None };
                        rep.eval();
                        let mut h = Fnv::new();
                        h.str(&format!("{injected:?}")).str(&cfg.json().to_string()).u64(e.ops.len() as u64).u64(sampling.is_some() as u64);
                        if !injected.is_empty() {
                            rep.distinct(h.finish());
                        }
                        if rep.want_sample() && rng.below(200) == 0 {
                            rep.sample(|| json!({"cfg": cfg.json(), "entry": e.json(), "injected": injected}));
                        }
                        if !check_one(&cfg, long_lived.as_mut(), &e, sampling, &injected, rep) {
                            return;
                        }
                    }
                }
            });
        }
    });
    rep.finish_and_exit();
}
