//! C17 — global sinks route each entry to exactly one destination, by fixed precedence.
//! Shape H: random op histories dispatched to 3 OS threads x {no runtime, runtime 0, runtime 1}
//! against a reference routing state machine; plus appends racing with the detach of a
//! BackgroundQueue-backed attachment. See DESIGN.md §7 C17.

use checks::uow_util::CountingSink;
use metrique_writer::sink::{BackgroundQueueBuilder, global_entry_sink};
use metrique_writer::{AnyEntrySink, AttachGlobalEntrySink, BoxEntrySink, GlobalEntrySink};
use metrique_writer_core::global::{AttachHandle, ThreadLocalTestSinkGuard, TokioRuntimeTestSinkGuard};
use std::panic::{AssertUnwindSafe, catch_unwind};
use std::sync::atomic::{AtomicBool, Ordering};
use std::sync::{Arc, mpsc};
use std::time::{Duration, Instant};
use vcommon::serde_json::json;
use vcommon::stream::{IdEntry, StreamShared, make_id};
use vcommon::sync::progress_tick;
use vcommon::{Args, Fnv, Report, Rng};

global_entry_sink! { G0 }
global_entry_sink! { G1 }
global_entry_sink! { G2 }
global_entry_sink! { G3 }
global_entry_sink! { G4 }
global_entry_sink! { G5 }
global_entry_sink! { G6 }
global_entry_sink! { G7 }

/// an entry that panics when it is written: with the recording test sinks of this harness (as with
/// the stock test sink on an entry reporting a validation error) the panic happens INSIDE the
/// destination's append; the caller catches it and the process goes on
struct PanickyEntry;
impl metrique_writer::Entry for PanickyEntry {
    fn write<'a>(&'a self, _writer: &mut impl metrique_writer::EntryWriter<'a>) {
        std::panic::panic_any("scripted panic inside the destination's append");
    }
}

/// a stream that records what it is handed into a CountingSink (the destination type of the model)
struct SinkStream(CountingSink);
impl metrique_writer::EntryIoStream for SinkStream {
    fn next(&mut self, entry: &impl metrique_writer::Entry) -> Result<(), metrique_writer::IoStreamError> {
        let log = vcommon::recording::record(entry);
        self.0.0.lock().unwrap().push(checks::uow_util::Appended { ticket: vcommon::sync::ticket(), log });
        progress_tick();
        Ok(())
    }
    fn flush(&mut self) -> std::io::Result<()> {
        Ok(())
    }
}

trait GlobalOps: Send + Sync {
    fn attach(&self, sink: CountingSink) -> AttachHandle;
    /// the convenience entry point: a background queue over the stream, attached
    fn attach_stream(&self, sink: CountingSink) -> AttachHandle;
    /// waits until everything appended to the attachment so far has been written (call only while
    /// something is attached, on a thread without overrides)
    fn flush_attached(&self);
    fn attach_queue(&self, sh: &Arc<StreamShared>) -> AttachHandle;
    fn try_append(&self, e: IdEntry) -> Result<(), IdEntry>;
    fn append(&self, e: IdEntry);
    fn append_panicky(&self);
    /// with_test_sink(sink, f) where f appends one entry through the global and then returns or panics
    fn with_tl(&self, sink: CountingSink, id: u64, panics: bool);
    fn sink_append(&self, e: IdEntry);
    fn set_tl(&self, sink: CountingSink) -> ThreadLocalTestSinkGuard;
    fn set_rt(&self, h: &tokio::runtime::Handle, sink: CountingSink) -> TokioRuntimeTestSinkGuard;
    fn is_attached(&self) -> bool;
}

macro_rules! impl_ops {
    ($($g:ident => $o:ident),*) => { $(
        struct $o;
        impl GlobalOps for $o {
            fn attach(&self, sink: CountingSink) -> AttachHandle {
                <$g as AttachGlobalEntrySink>::attach((sink, ()))
            }
            fn attach_stream(&self, sink: CountingSink) -> AttachHandle {
                <$g as metrique_writer::sink::AttachGlobalEntrySinkExt>::attach_to_stream(SinkStream(sink))
            }
            fn flush_attached(&self) {
                vcommon::sync::block_on(<$g as GlobalEntrySink>::sink().flush_async());
            }
            fn attach_queue(&self, sh: &Arc<StreamShared>) -> AttachHandle {
                <$g as AttachGlobalEntrySink>::attach(BackgroundQueueBuilder::new().capacity(1 << 16).flush_interval(Duration::from_millis(2)).build_boxed(sh.stream()))
            }
            fn try_append(&self, e: IdEntry) -> Result<(), IdEntry> {
                <$g as AttachGlobalEntrySink>::try_append(e)
            }
            fn append(&self, e: IdEntry) {
                <$g as GlobalEntrySink>::append(e)
            }
            fn append_panicky(&self) {
                <$g as GlobalEntrySink>::append(PanickyEntry)
            }
            fn with_tl(&self, sink: CountingSink, id: u64, panics: bool) {
                $g::with_test_sink(BoxEntrySink::new(sink), || {
                    <$g as GlobalEntrySink>::append(IdEntry { id });
                    if panics {
                        std::panic::panic_any("scripted panic inside the closure of with_test_sink");
                    }
                })
            }
            fn sink_append(&self, e: IdEntry) {
                <$g as GlobalEntrySink>::sink().append_any(e)
            }
            fn set_tl(&self, sink: CountingSink) -> ThreadLocalTestSinkGuard {
                $g::set_test_sink(BoxEntrySink::new(sink))
            }
            fn set_rt(&self, h: &tokio::runtime::Handle, sink: CountingSink) -> TokioRuntimeTestSinkGuard {
                $g::set_test_sink_for_tokio_runtime(h, BoxEntrySink::new(sink))
            }
            fn is_attached(&self) -> bool {
                // (reports test sinks as well; only used on a thread without overrides)
                <$g as AttachGlobalEntrySink>::is_attached()
            }
        }
    )* };
}
impl_ops!(G0 => O0, G1 => O1, G2 => O2, G3 => O3, G4 => O4, G5 => O5, G6 => O6, G7 => O7);

fn ops_for(lane: u64) -> Arc<dyn GlobalOps> {
    match lane % 8 {
        0 => Arc::new(O0),
        1 => Arc::new(O1),
        2 => Arc::new(O2),
        3 => Arc::new(O3),
        4 => Arc::new(O4),
        5 => Arc::new(O5),
        6 => Arc::new(O6),
        _ => Arc::new(O7),
    }
}

// ------------------------------------------------------------------------------------------
// worker threads: thread-local guards must be created and dropped on their own thread

struct WState {
    tl_guard: Option<ThreadLocalTestSinkGuard>,
}
type Job = Box<dyn FnOnce(&mut WState) + Send>;

struct Worker {
    tx: mpsc::Sender<Job>,
}
impl Worker {
    fn spawn() -> Worker {
        let (tx, rx) = mpsc::channel::<Job>();
        std::thread::spawn(move || {
            let mut st = WState { tl_guard: None };
            while let Ok(job) = rx.recv() {
                job(&mut st);
            }
        });
        Worker { tx }
    }
    /// run `f` on the worker thread; Err = it panicked
    fn run<R: Send + 'static>(&self, f: impl FnOnce(&mut WState) -> R + Send + 'static) -> Result<R, ()> {
        let (rtx, rrx) = mpsc::channel();
        self.tx
            .send(Box::new(move |st: &mut WState| {
                let r = catch_unwind(AssertUnwindSafe(|| f(st))).map_err(|_| ());
                let _ = rtx.send(r);
            }))
            .expect("worker alive");
        rrx.recv().expect("worker replied")
    }
}

#[derive(Clone, Copy, Debug, PartialEq)]
enum AppendKind {
    Append,
    TryAppend,
    SinkAppend,
}

#[derive(Clone, Debug)]
enum Op {
    /// through attach() or (via_stream) attach_to_stream(); ctx: inside that runtime's context
    Attach { thread: usize, via_stream: bool, ctx: Option<usize> },
    DetachDrop,
    InstallTl { thread: usize },
    DropTl { thread: usize },
    InstallRt { rt: usize, thread: usize },
    DropRt { rt: usize },
    /// the same three drops, performed by a panic unwinding through the guard's owner (what happens
    /// to a test-sink guard when the test's assertion fails)
    DetachUnwinding,
    DropTlUnwinding { thread: usize },
    DropRtUnwinding { rt: usize },
    Append { thread: usize, ctx: Option<usize>, kind: AppendKind },
    /// an append that panics inside the destination (caught): a failed append changes nothing for
    /// any later operation, in any context
    AppendPanicky { thread: usize, ctx: Option<usize> },
    /// with_test_sink(sink, closure): the closure appends one entry and returns, or panics (caught);
    /// either way the thread-local sink is gone afterwards
    WithTestSink { thread: usize, panics: bool },
}

/// destination ids: index into `sinks`
struct Model {
    attached: Option<usize>,
    tl: [Option<usize>; 3],
    rt: [Option<usize>; 2],
}

struct Lane {
    ops: Arc<dyn GlobalOps>,
    workers: Vec<Worker>,
    runtimes: Vec<Arc<tokio::runtime::Runtime>>,
    model: Model,
    attach_handle: Option<AttachHandle>,
    attached_via_stream: bool,
    rt_guards: [Option<TokioRuntimeTestSinkGuard>; 2],
    sinks: Vec<CountingSink>,
    expected: Vec<Vec<u64>>, // per sink: ids in order
    next_id: u32,
    lane: u64,
}

impl Lane {
    fn new_sink(&mut self) -> (usize, CountingSink) {
        let s = CountingSink::new();
        self.sinks.push(s.clone());
        self.expected.push(vec![]);
        (self.sinks.len() - 1, s)
    }

    fn step(&mut self, op: &Op, history: &[String], rep: &Report) -> bool {
        let witness = |what: &str, extra: vcommon::serde_json::Value| json!({"what": what, "op": format!("{op:?}"), "extra": extra, "history": history.iter().rev().take(25).rev().collect::<Vec<_>>()});
        match op.clone() {
            Op::Attach { thread, via_stream, ctx } => {
                let (k, sink) = self.new_sink();
                let ops = self.ops.clone();
                let rt = ctx.map(|r| self.runtimes[r].clone());
                // (whether the calling thread or its runtime has a test sink installed is irrelevant
                // to whether something is ATTACHED)
                let r = self.workers[thread].run(move |_| {
                    let _enter = rt.as_ref().map(|r| r.enter());
                    if via_stream { ops.attach_stream(sink) } else { ops.attach(sink) }
                });
                match (self.model.attached, r) {
                    (None, Ok(h)) => {
                        self.model.attached = Some(k);
                        self.attach_handle = Some(h);
                        self.attached_via_stream = via_stream;
                    }
                    (Some(_), Err(())) => {} // documented panic, global unchanged
                    (None, Err(())) => {
                        rep.violation("attach-panicked", witness("attach panicked although nothing was attached", json!({})));
                        return false;
                    }
                    (Some(_), Ok(h)) => {
                        h.forget();
                        rep.violation("second-attach-accepted", witness("attaching while attached must panic", json!({})));
                        return false;
                    }
                }
            }
            Op::DetachDrop => {
                if let Some(h) = self.attach_handle.take() {
                    drop(h);
                    self.model.attached = None;
                }
            }
            Op::InstallTl { thread } => {
                let (k, sink) = self.new_sink();
                let ops = self.ops.clone();
                let had = self.model.tl[thread].is_some();
                let r = self.workers[thread].run(move |st| {
                    let g = ops.set_tl(sink);
                    if st.tl_guard.is_none() {
                        st.tl_guard = Some(g);
                    } else {
                        drop(g); // cannot happen when the install panicked as documented
                    }
                });
                match (had, r) {
                    (false, Ok(())) => self.model.tl[thread] = Some(k),
                    (true, Err(())) => {}
                    (false, Err(())) => {
                        rep.violation("thread-local-install-panicked", witness("installing a thread-local test sink panicked although none was installed", json!({})));
                        return false;
                    }
                    (true, Ok(())) => {
                        rep.violation("second-thread-local-install-accepted", witness("installing a second thread-local test sink must panic", json!({})));
                        return false;
                    }
                }
            }
            Op::DropTl { thread } => {
                let _ = self.workers[thread].run(|st| drop(st.tl_guard.take()));
                self.model.tl[thread] = None;
            }
            Op::DropTlUnwinding { thread } => {
                let _ = self.workers[thread].run(|st| drop_by_unwinding(st.tl_guard.take()));
                self.model.tl[thread] = None;
            }
            Op::DropRtUnwinding { rt } => {
                drop_by_unwinding(self.rt_guards[rt].take());
                self.model.rt[rt] = None;
            }
            Op::DetachUnwinding => {
                if let Some(h) = self.attach_handle.take() {
                    drop_by_unwinding(h);
                    self.model.attached = None;
                }
            }
            Op::InstallRt { rt, thread } => {
                let (k, sink) = self.new_sink();
                let ops = self.ops.clone();
                let handle = self.runtimes[rt].handle().clone();
                let r = self.workers[thread].run(move |_| ops.set_rt(&handle, sink));
                match (self.model.rt[rt], r) {
                    (None, Ok(g)) => {
                        self.model.rt[rt] = Some(k);
                        self.rt_guards[rt] = Some(g);
                    }
                    (Some(_), Err(())) => {} // documented panic; the installed sink must stay in place
                    (None, Err(())) => {
                        rep.violation("runtime-install-panicked", witness("installing a runtime test sink panicked although none was installed", json!({})));
                        return false;
                    }
                    (Some(_), Ok(g)) => {
                        drop(g);
                        rep.violation("second-runtime-install-accepted", witness("installing a second runtime test sink must panic", json!({})));
                        return false;
                    }
                }
            }
            Op::DropRt { rt } => {
                drop(self.rt_guards[rt].take());
                self.model.rt[rt] = None;
            }
            Op::WithTestSink { thread, panics } => {
                let (k, sink) = self.new_sink();
                let id = make_id(self.lane as u32, self.next_id);
                self.next_id += 1;
                let ops = self.ops.clone();
                let had = self.model.tl[thread].is_some();
                let r = self.workers[thread].run(move |_| ops.with_tl(sink, id, panics));
                if !had {
                    // the closure ran with the new sink as the thread's destination
                    self.expected[k].push(id);
                }
                let expect_ok = !had && !panics;
                if r.is_ok() != expect_ok {
                    rep.violation("append-outcome-differs-from-routing-reference", witness("with_test_sink: returns iff no thread-local sink was installed before and the closure returned", json!({"thread_local_sink_installed_before": had, "closure_panics": panics, "returned": r.is_ok()})));
                    return false;
                }
                // model: the thread's override is exactly what it was before the call
            }
            Op::AppendPanicky { thread, ctx } => {
                let dest = self.model.tl[thread].or(ctx.and_then(|r| self.model.rt[r])).or(self.model.attached);
                // (not into a queue-backed attachment: there the entry would be written, and panic,
                // on the queue's writer thread)
                if !(dest.is_some() && dest == self.model.attached && self.attached_via_stream) {
                    let ops = self.ops.clone();
                    let rt = ctx.map(|r| self.runtimes[r].clone());
                    let r = self.workers[thread].run(move |_| {
                        let _enter = rt.as_ref().map(|r| r.enter());
                        ops.append_panicky()
                    });
                    if r.is_ok() {
                        rep.violation("append-outcome-differs-from-routing-reference", witness("an entry that panics when written was appended without a panic reaching the caller (with a destination it panics inside the destination, without one the append itself panics)", json!({"predicted_destination": dest})));
                        return false;
                    }
                    rep.count("appends_that_panicked_inside_the_destination", dest.is_some() as u64);
                }
            }
            Op::Append { thread, ctx, kind } => {
                let id = make_id(self.lane as u32, self.next_id);
                self.next_id += 1;
                let dest = self.model.tl[thread].or(ctx.and_then(|r| self.model.rt[r])).or(self.model.attached);
                let ops = self.ops.clone();
                let rt = ctx.map(|r| self.runtimes[r].clone());
                let r = self.workers[thread].run(move |_| {
                    let _enter = rt.as_ref().map(|r| r.enter());
                    let e = IdEntry { id };
                    match kind {
                        AppendKind::Append => {
                            ops.append(e);
                            Ok(())
                        }
                        AppendKind::TryAppend => ops.try_append(e).map_err(|e| e.id),
                        AppendKind::SinkAppend => {
                            ops.sink_append(e);
                            Ok(())
                        }
                    }
                });
                progress_tick();
                match (dest, r) {
                    (Some(k), Ok(Ok(()))) => self.expected[k].push(id),
                    (None, Err(())) if kind != AppendKind::TryAppend => {} // documented panic without a destination
                    (None, Ok(Err(back))) if kind == AppendKind::TryAppend => {
                        if back != id {
                            rep.violation("entry-handed-back-altered", witness("try_append handed back a different entry", json!({"sent": id, "returned": back})));
                            return false;
                        }
                    }
                    (d, r) => {
                        rep.violation(
                            "append-outcome-differs-from-routing-reference",
                            witness("outcome of the append differs from the routing reference (thread sink > runtime sink > attached sink > none)", json!({"predicted_destination": d, "outcome": format!("{r:?}")})),
                        );
                        return false;
                    }
                }
            }
        }
        true
    }

    fn verify(&self, history: &[String], rep: &Report) -> bool {
        if self.model.attached.is_some() && self.attached_via_stream {
            self.ops.flush_attached();
        }
        for (k, s) in self.sinks.iter().enumerate() {
            let got: Vec<u64> = s.snapshot().iter().map(|a| a.u64_field("id").unwrap_or(u64::MAX)).collect();
            if got != self.expected[k] {
                rep.violation(
                    "entry-routed-to-wrong-destination",
                    json!({"what": "a destination received entries other than those the routing reference predicts", "destination": k, "received": got.iter().map(|i| *i as u32).collect::<Vec<_>>(),
                           "predicted": self.expected[k].iter().map(|i| *i as u32).collect::<Vec<_>>(), "history": history.iter().rev().take(30).rev().collect::<Vec<_>>()}),
                );
                return false;
            }
        }
        true
    }
}

fn drop_by_unwinding<T>(x: T) {
    let r = catch_unwind(AssertUnwindSafe(move || {
        let _held = x;
        std::panic::panic_any("intentional: guard dropped by unwinding");
    }));
    assert!(r.is_err());
}

fn gen_op(rng: &mut Rng) -> Op {
    let thread = rng.usize_below(3);
    if rng.below(40) == 0 {
        return match rng.below(3) {
            0 => Op::DetachUnwinding,
            1 => Op::DropTlUnwinding { thread },
            _ => Op::DropRtUnwinding { rt: rng.usize_below(2) },
        };
    }
    if rng.below(25) == 0 {
        return Op::WithTestSink { thread, panics: rng.bool() };
    }
    if rng.below(25) == 0 {
        return Op::AppendPanicky { thread, ctx: if rng.bool() { Some(rng.usize_below(2)) } else { None } };
    }
    match rng.below(14) {
        0 | 1 => Op::Attach { thread, via_stream: rng.bool(), ctx: if rng.bool() { Some(rng.usize_below(2)) } else { None } },
        2 => Op::DetachDrop,
        3 | 4 => Op::InstallTl { thread },
        5 => Op::DropTl { thread },
        6 | 7 => Op::InstallRt { rt: rng.usize_below(2), thread },
        8 => Op::DropRt { rt: rng.usize_below(2) },
        _ => Op::Append {
            thread,
            ctx: match rng.below(3) {
                0 => None,
                1 => Some(0),
                _ => Some(1),
            },
            kind: *rng.pick(&[AppendKind::Append, AppendKind::TryAppend, AppendKind::SinkAppend]),
        },
    }
}

fn history(lane: &mut Lane, rng: &mut Rng, rep: &Report) -> bool {
    let n = 5 + rng.below(55);
    let mut hist: Vec<String> = vec![];
    let first_sink = lane.sinks.len();
    for _ in 0..n {
        let op = gen_op(rng);
        hist.push(format!("{op:?}"));
        if !lane.step(&op, &hist, rep) {
            return false;
        }
    }
    if !lane.verify(&hist, rep) {
        return false;
    }
    // clean up the overrides (the attachment persists into the next history of this lane)
    for t in 0..3 {
        lane.step(&Op::DropTl { thread: t }, &hist, rep);
    }
    for r in 0..2 {
        lane.step(&Op::DropRt { rt: r }, &hist, rep);
    }
    // dropping a guard restores the next destination: one more append per thread goes to the attachment (or nowhere)
    for t in 0..3 {
        let op = Op::Append { thread: t, ctx: Some(t % 2), kind: AppendKind::TryAppend };
        hist.push(format!("{op:?}"));
        if !lane.step(&op, &hist, rep) {
            return false;
        }
    }
    if !lane.verify(&hist, rep) {
        return false;
    }
    rep.count("ops_executed", n + 3);
    rep.count("entries_routed", lane.expected[first_sink..].iter().map(|v| v.len() as u64).sum());
    rep.distinct(Fnv::new().str(&hist.join(";")).finish());
    if rep.want_sample() && rng.below(60) == 0 {
        rep.sample(|| json!({"history": hist}));
    }
    // forget old sinks to bound memory (keep the attached one reachable through its index)
    true
}

/// appends racing with the detach of a BackgroundQueue-backed attachment
fn racing_history(lane_no: u64, ops: &Arc<dyn GlobalOps>, round: u64, rep: &Report) -> bool {
    let sh = StreamShared::new(round);
    let handle = ops.attach_queue(&sh);
    let stop = Arc::new(AtomicBool::new(false));
    let threads: Vec<_> = (0..3u32)
        .map(|t| {
            let (ops, stop) = (ops.clone(), stop.clone());
            std::thread::spawn(move || {
                let mut accepted = vec![];
                let mut refused = vec![];
                let mut first_refusal_ticket = 0u64;
                let mut s = 0u32;
                // 3 x 20000 < the queue's capacity (65536): the queue can never overflow, so an entry
                // that was accepted can only leave it through the stream
                while !stop.load(Ordering::SeqCst) && s < 20_000 {
                    let id = make_id(1000 + t + 10 * lane_no as u32, s);
                    match ops.try_append(IdEntry { id }) {
                        Ok(()) => accepted.push(id),
                        Err(e) => {
                            if first_refusal_ticket == 0 {
                                first_refusal_ticket = vcommon::sync::ticket();
                            }
                            refused.push(e.id)
                        }
                    }
                    s += 1;
                    progress_tick();
                }
                (accepted, refused, first_refusal_ticket)
            })
        })
        .collect();
    std::thread::sleep(Duration::from_micros(100 + (round % 13) * 150));
    drop(handle); // detach: flushes what the detached sink had accepted
    let log_at_detach: std::collections::HashSet<u64> = sh.log().iter().filter_map(|e| e.id()).collect();
    let closed = sh.is_dropped();
    std::thread::sleep(Duration::from_micros(300));
    stop.store(true, Ordering::SeqCst);
    let mut accepted = vec![];
    let mut refused = vec![];
    let mut first_refusal = u64::MAX;
    for t in threads {
        let (a, r, f) = t.join().expect("appender panicked");
        accepted.extend(a);
        refused.extend(r);
        if f != 0 {
            first_refusal = first_refusal.min(f);
        }
    }
    // routing moves on to "nothing attached" only AFTER the detached sink has flushed what it accepted
    let closed_at = sh.dropped_at.load(Ordering::SeqCst);
    if first_refusal != u64::MAX && (closed_at == 0 || first_refusal < closed_at) {
        rep.violation(
            "routing-restored-before-detached-sink-flushed",
            json!({"what": "an entry was handed back (nothing attached) while the sink being detached had not yet written, flushed and closed its stream", "round": round,
                   "first_entry_handed_back_at_ticket": first_refusal, "detached_stream_closed_at_ticket": closed_at}),
        );
        return false;
    }
    let final_log: std::collections::HashSet<u64> = sh.log().iter().filter_map(|e| e.id()).collect();
    let witness = |what: &str, extra: vcommon::serde_json::Value| json!({"what": what, "round": round, "accepted": accepted.len(), "refused": refused.len(), "written_at_detach": log_at_detach.len(), "written_finally": final_log.len(), "extra": extra});
    if !closed {
        rep.violation("detach-did-not-shut-down-queue", witness("the stream of the detached queue was not closed when drop(AttachHandle) returned", json!({})));
        return false;
    }
    for id in &accepted {
        if !log_at_detach.contains(id) {
            rep.violation(
                "accepted-entry-lost-at-detach",
                witness("try_append returned Ok, but the entry was not in the detached sink's stream when drop(AttachHandle) had returned (exactly one of: written by the detached sink, handed back)", json!({"entry": *id as u32, "producer": id >> 32, "in_final_log": final_log.contains(id)})),
            );
            return false;
        }
    }
    for id in &refused {
        if final_log.contains(id) {
            rep.violation("entry-both-handed-back-and-written", witness("try_append handed the entry back, yet it was written", json!({"entry": *id as u32})));
            return false;
        }
    }
    if final_log.len() != log_at_detach.len() {
        rep.violation("stream-written-after-detach", witness("the detached sink's stream grew after drop(AttachHandle) returned", json!({})));
        return false;
    }
    rep.count("racing_histories", 1);
    rep.count("racing_entries_accepted", accepted.len() as u64);
    rep.count("racing_entries_handed_back", refused.len() as u64);
    if !accepted.is_empty() && !refused.is_empty() {
        rep.distinct(Fnv::new().str("race").u64(round).u64(lane_no).finish());
    }
    true
}

/// several threads attach to the detached global at the same moment: exactly one wins, the others
/// get the documented panic, and entries go to the winner's sink only
fn racing_attach(lane_no: u64, ops: &Arc<dyn GlobalOps>, round: u64, rep: &Report) -> bool {
    for sub in 0..12u64 {
        let n = 2 + ((round + sub) % 3) as usize;
        let arrived = Arc::new(std::sync::atomic::AtomicUsize::new(0));
        let sinks: Vec<CountingSink> = (0..n).map(|_| CountingSink::new()).collect();
        let threads: Vec<_> = (0..n)
            .map(|i| {
                let (ops, arrived, sink) = (ops.clone(), arrived.clone(), sinks[i].clone());
                std::thread::spawn(move || {
                    arrived.fetch_add(1, Ordering::SeqCst);
                    let mut spins = 0u32;
                    while arrived.load(Ordering::SeqCst) < n {
                        spins += 1;
                        if spins > 2000 {
                            std::thread::yield_now();
                        } else {
                            std::hint::spin_loop();
                        }
                    }
                    for _ in 0..((round + sub + i as u64) % 4) * 15 {
                        std::hint::spin_loop();
                    }
                    catch_unwind(AssertUnwindSafe(|| ops.attach(sink))).ok()
                })
            })
            .collect();
        let handles: Vec<Option<AttachHandle>> = threads.into_iter().map(|t| t.join().expect("attacher thread")).collect();
        let winners: Vec<usize> = handles.iter().enumerate().filter_map(|(i, h)| h.is_some().then_some(i)).collect();
        let witness = |what: &str, extra: vcommon::serde_json::Value| json!({"what": what, "round": round, "sub_round": sub, "concurrent_attachers": n, "attach_succeeded_for": winners, "extra": extra});
        if winners.len() != 1 {
            rep.violation(
                if winners.is_empty() { "attach-on-detached-global-panicked" } else { "attach-while-attached-did-not-panic" },
                witness("concurrent attach() calls on a detached global: exactly one may succeed (the others attach while attached and must panic)", json!({})),
            );
            return false;
        }
        let w = winners[0];
        let base = make_id(2000 + lane_no as u32, (sub as u32) << 8);
        for k in 0..3u64 {
            if ops.try_append(IdEntry { id: base + k }).is_err() {
                rep.violation("attached-sink-refused-entry", witness("try_append handed the entry back although an attach succeeded", json!({"k": k})));
                return false;
            }
        }
        let got: Vec<Vec<u64>> = sinks.iter().map(|s| s.snapshot().iter().filter_map(|a| a.u64_field("id")).collect()).collect();
        for (i, g) in got.iter().enumerate() {
            let want: Vec<u64> = if i == w { (0..3).map(|k| base + k).collect() } else { vec![] };
            if *g != want {
                rep.violation("entry-routed-to-wrong-destination", witness("after concurrent attaches the entries must be in the winner's sink only", json!({"sink": i, "got": g, "want": want})));
                return false;
            }
        }
        drop(handles);
        if ops.try_append(IdEntry { id: base + 9 }).is_ok() {
            rep.violation("entry-accepted-with-no-destination", witness("after the only successful attach handle was dropped, try_append still accepted an entry", json!({})));
            return false;
        }
        rep.count("racing_attach_rounds", 1);
        rep.count(&format!("racing_attach_winner_was_thread_{}", w.min(3)), 1);
    }
    rep.distinct(Fnv::new().str("race-attach").u64(round).u64(lane_no).finish());
    true
}

/// Noise: threads inside ANOTHER runtime's context keep appending and asking for the sink, and one
/// thread keeps attempting (rejected) attaches, while the main thread installs / uses / drops a
/// runtime test sink. None of the noise may change where the main thread's entries go, and with a
/// sink attached all the time no append may ever be handed back.
fn noisy_history(lane_no: u64, ops: &Arc<dyn GlobalOps>, runtimes: &[Arc<tokio::runtime::Runtime>], round: u64, rep: &Report) -> bool {
    let attached = CountingSink::new();
    let handle = ops.attach(attached.clone());
    let stop = Arc::new(AtomicBool::new(false));
    let handed_back = Arc::new(std::sync::atomic::AtomicU64::new(0));
    let noise_appends = Arc::new(std::sync::atomic::AtomicU64::new(0));
    let mut noise = vec![];
    for t in 0..3u32 {
        let (ops, stop, rt, hb, na) = (ops.clone(), stop.clone(), runtimes[1].clone(), handed_back.clone(), noise_appends.clone());
        noise.push(std::thread::spawn(move || {
            let _enter = rt.enter();
            let mut s = 0u32;
            while !stop.load(Ordering::SeqCst) {
                if ops.try_append(IdEntry { id: make_id(3000 + t + 10 * lane_no as u32, s) }).is_err() {
                    hb.fetch_add(1, Ordering::SeqCst);
                }
                na.fetch_add(1, Ordering::SeqCst);
                let _ = ops.is_attached();
                s = s.wrapping_add(1);
                progress_tick();
            }
        }));
    }
    {
        let (ops, stop) = (ops.clone(), stop.clone());
        noise.push(std::thread::spawn(move || {
            while !stop.load(Ordering::SeqCst) {
                // rejected: a sink is attached all the time
                let r = catch_unwind(AssertUnwindSafe(|| ops.attach(CountingSink::new())));
                if let Ok(h) = r {
                    h.forget();
                }
                std::thread::yield_now();
            }
        }));
    }
    let mut ok = true;
    let rounds = 150;
    for k in 0..rounds {
        let test = CountingSink::new();
        let guard = ops.set_rt(runtimes[0].handle(), test.clone());
        let id_in = make_id(4000 + lane_no as u32, (round as u32) << 12 | k << 1);
        let id_out = id_in + 1;
        let mut refused = None;
        {
            let _enter = runtimes[0].enter();
            if ops.try_append(IdEntry { id: id_in }).is_err() {
                refused = Some("with the runtime test sink installed");
            }
        }
        drop(guard);
        {
            let _enter = runtimes[0].enter();
            if ops.try_append(IdEntry { id: id_out }).is_err() {
                refused = Some("after the runtime test-sink guard was dropped");
            }
        }
        if let Some(when) = refused {
            rep.violation("attached-sink-refused-entry", json!({"what": "try_append handed the entry back although a sink was attached the whole time (another thread only makes attach attempts that are rejected)", "when": when, "round": k}));
            ok = false;
            break;
        }
        let got_test: Vec<u64> = test.snapshot().iter().filter_map(|a| a.u64_field("id")).collect();
        if got_test != vec![id_in] {
            rep.violation(
                "entry-routed-to-wrong-destination",
                json!({"what": "runtime test sink installed, one entry appended, guard dropped, one more entry appended (other threads busy in another runtime's context): the test sink must hold exactly the first entry",
                       "round": k, "test_sink_holds": got_test, "first_entry": id_in, "entry_after_guard_drop": id_out}),
            );
            ok = false;
            break;
        }
    }
    stop.store(true, Ordering::SeqCst);
    for t in noise {
        let _ = t.join();
    }
    let hb = handed_back.load(Ordering::SeqCst);
    if ok && hb != 0 {
        rep.violation(
            "attached-sink-refused-entry",
            json!({"what": "a sink was attached the whole time (another thread only made attach attempts that are rejected), yet try_append handed entries back",
                   "handed_back": hb, "noise_appends": noise_appends.load(Ordering::SeqCst)}),
        );
        ok = false;
    }
    if ok {
        // every probe entry appended after its guard was dropped went to the attached sink
        let in_attached: std::collections::HashSet<u64> = attached.snapshot().iter().filter_map(|a| a.u64_field("id")).collect();
        for k in 0..rounds {
            let id_out = make_id(4000 + lane_no as u32, (round as u32) << 12 | k << 1) + 1;
            if !in_attached.contains(&id_out) {
                rep.violation("entry-routed-to-wrong-destination", json!({"what": "an entry appended after the runtime test-sink guard was dropped did not reach the attached sink", "round": k}));
                ok = false;
                break;
            }
        }
    }
    drop(handle);
    if ok {
        rep.count("noisy_rounds", rounds as u64);
        rep.count("noise_appends", noise_appends.load(Ordering::SeqCst));
        rep.distinct(Fnv::new().str("noisy").u64(round).u64(lane_no).finish());
    }
    ok
}

/// a second global sink type with the SAME NAME as lane 0's, declared in another module (an
/// application's own `ServiceMetrics` next to a library's): the two must not share anything
/// Runtime test sinks of DIFFERENT runtimes installed, used and dropped on 2-4 threads at once (all
/// released together, every iteration): a runtime's own sink receives exactly what is appended in its
/// context while installed, nothing after its guard is dropped, and can be installed again.
fn racing_runtime_sinks(lane_no: u64, ops: &Arc<dyn GlobalOps>, runtimes: &[Arc<tokio::runtime::Runtime>], round: u64, rep: &Report) -> bool {
    let n = runtimes.len();
    let gate = vcommon::sync::SpinGate::new(n);
    let iterations = 300u32;
    let bad: std::sync::Mutex<Option<vcommon::serde_json::Value>> = std::sync::Mutex::new(None);
    std::thread::scope(|s| {
        for (t, rt) in runtimes.iter().enumerate() {
            let (gate, bad, ops) = (&gate, &bad, ops.clone());
            s.spawn(move || {
                let _enter = rt.enter();
                for i in 0..iterations {
                    gate.wait();
                    if bad.lock().unwrap().is_some() {
                        // keep in step with the other threads' gate
                        continue;
                    }
                    let sink = CountingSink::new();
                    let id_in = make_id((lane_no * 8 + t as u64) as u32, (round as u32) << 12 | i << 1);
                    let id_after = id_in + 1;
                    let installed = catch_unwind(AssertUnwindSafe(|| ops.set_rt(rt.handle(), sink.clone())));
                    let Ok(guard) = installed else {
                        *bad.lock().unwrap() = Some(json!({"what": "installing a test sink for this thread's own runtime panicked although the previous guard for that runtime had been dropped", "thread": t, "iteration": i}));
                        continue;
                    };
                    let r_in = ops.try_append(IdEntry { id: id_in }).is_ok();
                    drop(guard);
                    let _ = ops.try_append(IdEntry { id: id_after });
                    let got: Vec<u64> = sink.snapshot().iter().map(|a| a.u64_field("id").unwrap_or(u64::MAX)).collect();
                    if !r_in || got != vec![id_in] {
                        *bad.lock().unwrap() = Some(json!({"what": "runtime test sinks of different runtimes installed / used / dropped on several threads at once: a runtime's sink must receive exactly the entry appended in its context while installed",
                            "thread": t, "iteration": i, "append_while_installed_accepted": r_in, "entries_at_this_runtimes_sink": got.iter().map(|x| *x as u32).collect::<Vec<_>>(), "expected": [id_in as u32]}));
                    }
                    progress_tick();
                }
            });
        }
    });
    if let Some(w) = bad.lock().unwrap().take() {
        rep.violation("runtime-test-sink-lost-or-resurrected", w);
        return false;
    }
    rep.count("racing_runtime_sink_iterations", iterations as u64 * n as u64);
    true
}

mod twin {
    use metrique_writer::sink::global_entry_sink;
    global_entry_sink! { G0 }
}

fn same_named_globals(runtimes: &[Arc<tokio::runtime::Runtime>], rep: &Report) -> bool {
    let (mine, theirs, mine_rt, theirs_rt) = (CountingSink::new(), CountingSink::new(), CountingSink::new(), CountingSink::new());
    let h_mine = <G0 as AttachGlobalEntrySink>::attach((mine.clone(), ()));
    let h_theirs = <twin::G0 as AttachGlobalEntrySink>::attach((theirs.clone(), ()));
    let ids = |s: &CountingSink| s.snapshot().iter().filter_map(|a| a.u64_field("id")).collect::<Vec<u64>>();
    let mut ok = true;
    let fail = |what: &str, extra: vcommon::serde_json::Value| {
        rep.violation("entry-routed-to-wrong-destination", json!({"what": what, "scenario": "two global sinks whose types have the same name (declared in different modules)", "extra": extra}));
    };
    {
        let _enter = runtimes[0].enter();
        // a runtime test sink for THEIR global must not capture entries of mine, and vice versa
        let g_theirs = twin::G0::set_test_sink_for_tokio_runtime(runtimes[0].handle(), BoxEntrySink::new(theirs_rt.clone()));
        <G0 as GlobalEntrySink>::append(IdEntry { id: 1 });
        <twin::G0 as GlobalEntrySink>::append(IdEntry { id: 2 });
        let r = catch_unwind(AssertUnwindSafe(|| G0::set_test_sink_for_tokio_runtime(runtimes[0].handle(), BoxEntrySink::new(mine_rt.clone()))));
        match r {
            Err(_) => {
                fail("installing a runtime test sink for one global panicked because the other, same-named global has one on that runtime", json!({}));
                ok = false;
            }
            Ok(g_mine) => {
                <G0 as GlobalEntrySink>::append(IdEntry { id: 3 });
                <twin::G0 as GlobalEntrySink>::append(IdEntry { id: 4 });
                drop(g_mine);
                <G0 as GlobalEntrySink>::append(IdEntry { id: 5 });
                <twin::G0 as GlobalEntrySink>::append(IdEntry { id: 6 });
            }
        }
        drop(g_theirs);
        <twin::G0 as GlobalEntrySink>::append(IdEntry { id: 7 });
    }
    drop(h_mine);
    drop(h_theirs);
    if ok {
        let got = json!({"mine_attached": ids(&mine), "mine_runtime_sink": ids(&mine_rt), "theirs_attached": ids(&theirs), "theirs_runtime_sink": ids(&theirs_rt)});
        let want = json!({"mine_attached": [1, 5], "mine_runtime_sink": [3], "theirs_attached": [7], "theirs_runtime_sink": [2, 4, 6]});
        if got != want {
            fail("entries of two same-named globals ended up in the wrong sinks", json!({"got": got, "expected": want}));
            ok = false;
        }
    }
    if ok {
        rep.count("same_named_global_scenarios", 1);
        rep.distinct(Fnv::new().str("same-named-globals").finish());
    }
    ok
}

fn main() {
    std::panic::set_hook(Box::new(|_| {})); // expected panics are part of the histories
    let args = Args::parse();
    let rep = Report::new("C17", &args);
    rep.rule(
        "random histories of 5-60 ops over one global sink type per lane: attach (also while attached), drop of the attach handle, install/drop of a thread-local test sink on one of 3 worker threads, \
         install/drop of a runtime test sink for one of 2 tokio runtimes (from any thread), append / try_append / sink().append from any thread inside either runtime context or none; every op's outcome \
         (destination, documented panic, entry handed back unchanged) is compared with a reference routing state machine (thread > runtime > attached > none) and at the end every destination must have received exactly \
         the predicted ids in order; after expected panics the history continues. Racing part: 3 threads try_append while the handle of a BackgroundQueue-backed attachment is dropped: Ok <=> written before the drop returned. \
         Noisy part: while threads in another runtime's context append / query and one thread makes rejected attach attempts, a runtime test sink is installed, used, dropped: routing of the probing thread must be unaffected and no append handed back. \
         Racing runtime sinks: four runtimes' test sinks installed / used / dropped on four threads at once. Racing attach: 2-4 threads attach to the detached global at once: exactly one succeeds, the rest panic, entries reach the winner's sink only. \
         distinct = distinct op histories / races with both outcomes",
    );
    let budget = Duration::from_secs(args.get_u64("secs", args.by_tier(8, 100)));
    let start = Instant::now();
    std::thread::scope(|s| {
        for lane_no in 0..args.get_u64("lanes", 6).min(8) {
            let (rep, args) = (&rep, &args);
            s.spawn(move || {
                let mut rng = Rng::derive(args.seed, lane_no);
                let ops = ops_for(lane_no);
                let runtimes: Vec<Arc<tokio::runtime::Runtime>> = (0..2).map(|_| Arc::new(tokio::runtime::Builder::new_multi_thread().worker_threads(1).build().unwrap())).collect();
                let mut lane = Lane {
                    ops: ops.clone(),
                    workers: (0..3).map(|_| Worker::spawn()).collect(),
                    runtimes,
                    model: Model { attached: None, tl: [None; 3], rt: [None; 2] },
                    attach_handle: None,
                    attached_via_stream: false,
                    rt_guards: [None, None],
                    sinks: vec![],
                    expected: vec![],
                    next_id: 0,
                    lane: lane_no,
                };
                // four more runtimes: the two of the lane plus two that only the racing-install part uses
                let mut race_rts = lane.runtimes.clone();
                race_rts.extend((0..2).map(|_| Arc::new(tokio::runtime::Builder::new_current_thread().build().unwrap())));
                if lane_no == 0 && !same_named_globals(&lane.runtimes, rep) {
                    return;
                }
                let mut round = 0u64;
                while start.elapsed() < budget && rep.violation_count() == 0 {
                    round += 1;
                    rep.eval();
                    if round % 4 == 0 {
                        // the racing part needs the global detached
                        lane.step(&Op::DetachDrop, &[], rep);
                        if !racing_history(lane_no, &ops, round, rep) {
                            return;
                        }
                    } else if round % 16 == 6 {
                        lane.step(&Op::DetachDrop, &[], rep);
                        for r in 0..2 {
                            lane.step(&Op::DropRt { rt: r }, &[], rep);
                        }
                        let rts = lane.runtimes.clone();
                        if !noisy_history(lane_no, &ops, &rts, round, rep) {
                            return;
                        }
                    } else if round % 8 == 2 {
                        lane.step(&Op::DetachDrop, &[], rep);
                        if !racing_attach(lane_no, &ops, round, rep) {
                            return;
                        }
                    } else if round % 32 == 9 {
                        // (detached: what is appended after a guard is dropped is handed back)
                        lane.step(&Op::DetachDrop, &[], rep);
                        for r in 0..2 {
                            lane.step(&Op::DropRt { rt: r }, &[], rep);
                        }
                        if !racing_runtime_sinks(lane_no, &ops, &race_rts, round, rep) {
                            return;
                        }
                    } else if !history(&mut lane, &mut rng, rep) {
                        return;
                    }
                }
                // leave the global detached; a forgotten handle keeps routing to its sink
                lane.step(&Op::DetachDrop, &[], rep);
                let (k, sink) = lane.new_sink();
                let h = ops.attach(sink);
                h.forget();
                lane.model.attached = Some(k);
                let hist = vec!["attach + forget".to_string()];
                for t in 0..3 {
                    if !lane.step(&Op::Append { thread: t, ctx: None, kind: AppendKind::Append }, &hist, rep) {
                        return;
                    }
                }
                lane.verify(&hist, rep);
                let _ = ops.is_attached();
            });
        }
    });
    rep.finish_and_exit();
}
