//! C19 — declaring or converting a unit never changes the physical quantity reported.
//! Shape R: every ordered pair of convertible units (a macro-generated table: pairs that are not
//! convertible do not compile) against a scale table written in this harness. See DESIGN.md §7 C19.

use metrique::unit_of_work::metrics;
use metrique_writer::unit::{self as u, Convert, UnitTag, WithUnit};
use metrique_writer::value::Distribution;
use metrique_writer::{MetricFlags, MetricValue, Observation, Unit, Value, ValueWriter};
use std::marker::PhantomData;
use std::time::Duration;
use vcommon::recording::{Obs, Op, Val, record, record_value};
use vcommon::serde_json::json;
use vcommon::{Args, Fnv, Report, Rng};

/// the harness's own scale table: size of one unit in base units (seconds / bits); None = unitless
fn scale(unit: Unit) -> Option<f64> {
    Some(match unit.name() {
        "Seconds" => 1.0,
        "Milliseconds" => 1e-3,
        "Microseconds" => 1e-6,
        "Bits" | "Bits/Second" => 1.0,
        "Kilobits" | "Kilobits/Second" => 1e3,
        "Megabits" | "Megabits/Second" => 1e6,
        "Gigabits" | "Gigabits/Second" => 1e9,
        "Terabits" | "Terabits/Second" => 1e12,
        "Bytes" | "Bytes/Second" => 8.0,
        "Kilobytes" | "Kilobytes/Second" => 8e3,
        "Megabytes" | "Megabytes/Second" => 8e6,
        "Gigabytes" | "Gigabytes/Second" => 8e9,
        "Terabytes" | "Terabytes/Second" => 8e12,
        _ => return None,
    })
}

fn ulps(a: f64, b: f64) -> u64 {
    if a == b {
        return 0;
    }
    if a.is_nan() || b.is_nan() || a.signum() != b.signum() {
        return u64::MAX;
    }
    (a.to_bits() as i64 - b.to_bits() as i64).unsigned_abs()
}

/// a value of unit `F` that writes whatever observations it is given
struct Probe<F> {
    obs: Vec<Observation>,
    _f: PhantomData<F>,
}
impl<F: UnitTag> Value for Probe<F> {
    fn write(&self, writer: impl ValueWriter) {
        writer.metric(self.obs.iter().copied(), F::UNIT, [("dim", "x")], MetricFlags::empty())
    }
}
impl<F: UnitTag> MetricValue for Probe<F> {
    type Unit = F;
}

fn magnitudes(rng: &mut Rng) -> Vec<Observation> {
    let mut v = vec![
        Observation::Unsigned(0),
        Observation::Unsigned(1),
        Observation::Unsigned(3),
        Observation::Unsigned((1 << 53) + 1),
        Observation::Unsigned(u64::MAX),
        Observation::Floating(1e-300),
        Observation::Floating(1e300),
        Observation::Floating(5e-324),
        Observation::Floating(-2.5),
        Observation::Floating(0.1),
        Observation::Repeated { total: 7.5, occurrences: 3 },
        Observation::Repeated { total: 1e300, occurrences: u64::MAX },
        Observation::Repeated { total: 0.0, occurrences: 0 },
    ];
    for _ in 0..8 {
        v.push(match rng.below(3) {
            0 => Observation::Unsigned(rng.next_u64() >> rng.below(64)),
            1 => Observation::Floating((rng.f64() - 0.3) * 10f64.powi(rng.below(60) as i32 - 30)),
            _ => Observation::Repeated { total: rng.f64() * 1e9, occurrences: 1 + rng.below(1 << 30) },
        });
    }
    v
}

fn num(o: &Obs) -> (f64, Option<u64>) {
    match *o {
        Obs::U(x) => (x as f64, None),
        Obs::F(b) => (f64::from_bits(b), None),
        Obs::R { total, occ } => (f64::from_bits(total), Some(occ)),
        Obs::Other => (f64::NAN, None),
    }
}

fn probe_pair<F: UnitTag + Convert<T> + 'static, T: UnitTag + 'static>(from: &str, to: &str, rng: &mut Rng, rep: &Report) -> bool {
    rep.eval();
    rep.distinct(Fnv::new().str(from).str(to).finish());
    let ratio = <F as Convert<T>>::RATIO;
    let witness = |what: &str, extra: vcommon::serde_json::Value| json!({"what": what, "from": from, "to": to, "ratio": ratio, "extra": extra});
    // expected ratio from the harness table (1 when the source is unitless)
    let expected_ratio = match (scale(F::UNIT), scale(T::UNIT)) {
        (Some(a), Some(b)) => a / b,
        (None, _) => 1.0,
        (Some(_), None) => {
            rep.violation("convertible-to-unitless", witness("a scaled unit converts to a unit without scale", json!({})));
            return false;
        }
    };
    if ulps(ratio, expected_ratio) > 4 {
        rep.violation("conversion-ratio-wrong", witness("Convert::RATIO differs from scale(from)/scale(to)", json!({"expected": expected_ratio})));
        return false;
    }
    let obs = magnitudes(rng);
    let wrapped: WithUnit<Probe<F>, T> = WithUnit::from(Probe { obs: obs.clone(), _f: PhantomData });
    let Val::Metric { obs: out, unit, dims, .. } = record_value(&wrapped) else {
        rep.violation("conversion-did-not-write-a-metric", witness("WithUnit wrote no metric", json!({})));
        return false;
    };
    if unit != T::UNIT {
        rep.violation("emitted-unit-wrong", witness("the emitted unit is not the declared one", json!({"emitted": unit.name(), "declared": T::UNIT.name()})));
        return false;
    }
    if dims != vec![("dim".to_string(), "x".to_string())] || out.len() != obs.len() {
        rep.violation("conversion-dropped-data", witness("dimensions / observation count changed by the conversion", json!({"dims": dims, "n_out": out.len()})));
        return false;
    }
    for (o_in, o_out) in obs.iter().zip(&out) {
        let i = Obs::from(*o_in);
        let (vi, ni) = num(&i);
        let (vo, no) = num(o_out);
        if ni != no {
            rep.violation("occurrences-changed-by-conversion", witness("a conversion must not touch occurrence counts", json!({"in": format!("{o_in:?}"), "out": format!("{o_out:?}")})));
            return false;
        }
        if expected_ratio == 1.0 {
            if i != *o_out {
                rep.violation("identity-conversion-altered-value", witness("ratio 1 must leave the observation bit-identical", json!({"in": format!("{o_in:?}"), "out": format!("{o_out:?}")})));
                return false;
            }
            continue;
        }
        let expect = vi * expected_ratio;
        if !expect.is_finite() || expect == 0.0 && vi != 0.0 {
            continue; // the exact result over/underflows
        }
        // physical quantity: emitted * scale(to) == original * scale(from)
        if ulps(vo, expect) > 4 {
            rep.violation(
                "physical-quantity-changed",
                witness("emitted x scale(to) differs from original x scale(from) by more than rounding", json!({"original": vi, "emitted": vo, "expected": expect, "in": format!("{o_in:?}")})),
            );
            return false;
        }
    }
    rep.count("pairs_probed", 1);
    rep.count("observations_converted", obs.len() as u64);
    true
}

/// conversion composed with its inverse is the identity (symmetric families only)
fn probe_inverse<F: UnitTag + Convert<T>, T: UnitTag + Convert<F>>(from: &str, to: &str, rng: &mut Rng, rep: &Report) -> bool {
    for o in magnitudes(rng) {
        let back = <T as Convert<F>>::convert(<F as Convert<T>>::convert(o));
        let (a, na) = num(&Obs::from(o));
        let (b, nb) = num(&Obs::from(back));
        let mid = a * <F as Convert<T>>::RATIO;
        if !mid.is_finite() || (mid == 0.0 && a != 0.0) || mid.abs() < f64::MIN_POSITIVE {
            continue;
        }
        if na != nb || ulps(a, b) > 4 {
            rep.violation("inverse-conversion-not-identity", json!({"from": from, "to": to, "original": format!("{o:?}"), "round_trip": format!("{back:?}")}));
            return false;
        }
    }
    rep.count("inverse_pairs", 1);
    true
}

macro_rules! cross {
    ($f:ident, [$($a:ident),*], $bs:tt, $rng:expr, $rep:expr) => { $( cross!(@row $f, $a, $bs, $rng, $rep); )* };
    (@row $f:ident, $a:ident, [$($b:ident),*], $rng:expr, $rep:expr) => { $( if !$f::<u::$a, u::$b>(stringify!($a), stringify!($b), $rng, $rep) { return; } )* };
}

/// the `#[metrics(unit = ...)]` attribute for every pair, through macro-generated structs
macro_rules! attr_cross {
    ([$($a:ident),*], $bs:tt, $rep:expr) => { $( attr_cross!(@row $a, $bs, $rep); )* };
    (@row $a:ident, [$($b:ident),*], $rep:expr) => { $( {
        #[metrics]
        struct S {
            #[metrics(unit = u::$b, no_close)]
            v: WithUnit<u64, u::$a>,
        }
        let e = metrique::RootEntry::new(metrique::CloseValue::close(S { v: WithUnit::from(12_345u64) }));
        if !check_attr(&record(&e), stringify!($a), stringify!($b), u::$a::UNIT, u::$b::UNIT, 12_345.0, $rep) { return; }
    } )* };
}

fn check_attr(log: &[Op], from: &str, to: &str, fu: Unit, tu: Unit, original: f64, rep: &Report) -> bool {
    rep.eval();
    let Some(Op::Value { val: Val::Metric { obs, unit, .. }, .. }) = log.first() else {
        rep.violation("attribute-wrote-no-metric", json!({"from": from, "to": to, "log": format!("{log:?}")}));
        return false;
    };
    let expect = match (scale(fu), scale(tu)) {
        (Some(a), Some(b)) => original * a / b,
        _ => original,
    };
    let got = obs.first().map(|o| num(o).0).unwrap_or(f64::NAN);
    if *unit != tu || ulps(got, expect) > 4 {
        rep.violation("unit-attribute-changed-quantity", json!({"from": from, "to": to, "emitted": got, "emitted_unit": unit.name(), "expected": expect, "expected_unit": tu.name()}));
        return false;
    }
    rep.count("attribute_pairs", 1);
    true
}

struct StrProbe;
impl Value for StrProbe {
    fn write(&self, writer: impl ValueWriter) {
        writer.string("not a number")
    }
}
impl MetricValue for StrProbe {
    type Unit = u::None;
}
struct LyingProbe;
impl Value for LyingProbe {
    fn write(&self, writer: impl ValueWriter) {
        writer.metric([Observation::Unsigned(5)], Unit::Byte(metrique_writer::unit::PositiveScale::One), [], MetricFlags::empty())
    }
}
impl MetricValue for LyingProbe {
    type Unit = u::Second;
}

/// promises Bytes; writes Bytes, or - when `lie` - Kilobytes
struct MaybeLying {
    lie: bool,
    v: u64,
}
impl Value for MaybeLying {
    fn write(&self, writer: impl ValueWriter) {
        let unit = if self.lie { Unit::Byte(metrique_writer::unit::PositiveScale::Kilo) } else { Unit::Byte(metrique_writer::unit::PositiveScale::One) };
        writer.metric([Observation::Unsigned(self.v)], unit, [], MetricFlags::empty())
    }
}
impl MetricValue for MaybeLying {
    type Unit = u::Byte;
}

/// promises Seconds, writes Milliseconds: the same kind of unit at another scale
struct LyingScaleTime;
impl Value for LyingScaleTime {
    fn write(&self, writer: impl ValueWriter) {
        writer.metric([Observation::Floating(1500.0)], Unit::Second(metrique_writer::unit::NegativeScale::Milli), [], MetricFlags::empty())
    }
}
impl MetricValue for LyingScaleTime {
    type Unit = u::Second;
}
/// promises Kilobytes, writes Megabytes
struct LyingScaleBytes;
impl Value for LyingScaleBytes {
    fn write(&self, writer: impl ValueWriter) {
        writer.metric([Observation::Unsigned(3)], Unit::Byte(metrique_writer::unit::PositiveScale::Mega), [], MetricFlags::empty())
    }
}
impl MetricValue for LyingScaleBytes {
    type Unit = u::Kilobyte;
}

/// promises Seconds, writes an UNTAGGED number (what a newtype delegating to an integer does)
struct LyingUntagged;
impl Value for LyingUntagged {
    fn write(&self, writer: impl ValueWriter) {
        writer.metric([Observation::Unsigned(5)], Unit::None, [], MetricFlags::empty())
    }
}
impl MetricValue for LyingUntagged {
    type Unit = u::Second;
}

struct LyingNone;
impl Value for LyingNone {
    fn write(&self, writer: impl ValueWriter) {
        writer.metric([Observation::Floating(5.0)], Unit::Second(metrique_writer::unit::NegativeScale::One), [], MetricFlags::empty())
    }
}
impl MetricValue for LyingNone {
    type Unit = u::None;
}

fn misc(rng: &mut Rng, rep: &Report) {
    // durations are fractional milliseconds unless a time unit is declared
    for _ in 0..2000 {
        rep.eval();
        // every magnitude a Duration can hold, whole and fractional milliseconds alike
        let secs = match rng.below(5) {
            0 | 1 => rng.below(1 << 32),
            2 => rng.next_u64() >> rng.below(64),
            3 => u64::MAX - rng.below(1000),
            _ => 18_446_744_073_709_552 + rng.below(1 << 40), // just above 2^64 milliseconds
        };
        let nanos = match rng.below(3) {
            0 => 0,
            1 => rng.below(1000) as u32 * 1_000_000,
            _ => rng.below(1_000_000_000) as u32,
        };
        let d = Duration::new(secs, nanos);
        let plain = record_value(&d);
        let secs = record_value(&u::AsSeconds::from(d));
        let micros = record_value(&u::AsMicroseconds::from(d));
        let opt = record_value(&Some(u::AsSeconds::from(d)));
        let get = |v: &Val| match v {
            Val::Metric { obs, unit, .. } => (num(&obs[0]).0, unit.name()),
            _ => (f64::NAN, "?"),
        };
        let exact_s = d.as_secs_f64();
        let checks = [
            ("Duration", get(&plain), exact_s * 1e3, "Milliseconds"),
            ("AsSeconds<Duration>", get(&secs), exact_s, "Seconds"),
            ("AsMicroseconds<Duration>", get(&micros), exact_s * 1e6, "Microseconds"),
            ("Option<AsSeconds<Duration>>", get(&opt), exact_s, "Seconds"),
        ];
        for (what, (v, unit), expect, eunit) in checks {
            if unit != eunit || ulps(v, expect) > 4 {
                rep.violation("duration-unit-wrong", json!({"what": what, "duration": format!("{d:?}"), "emitted": v, "unit": unit, "expected": expect, "expected_unit": eunit}));
                return;
            }
        }
    }
    if record_value(&Option::<u::AsSeconds<Duration>>::None) != Val::Nothing {
        rep.violation("none-option-wrote-something", json!({}));
        return;
    }
    // Distribution and Mean keep the unit and the quantity
    for _ in 0..500 {
        rep.eval();
        let ds: Vec<Duration> = (0..1 + rng.below(6)).map(|_| Duration::from_micros(rng.below(1 << 40))).collect();
        let dist: Distribution<u::AsSeconds<Duration>> = ds.iter().map(|d| u::AsSeconds::from(*d)).collect();
        let Val::Metric { obs, unit, .. } = record_value(&dist) else {
            rep.violation("distribution-wrote-no-metric", json!({}));
            return;
        };
        let ok = unit.name() == "Seconds" && obs.len() == ds.len() && obs.iter().zip(&ds).all(|(o, d)| ulps(num(o).0, d.as_secs_f64()) <= 4);
        if !ok {
            rep.violation("distribution-changed-unit-or-quantity", json!({"unit": unit.name(), "obs": format!("{obs:?}"), "durations": format!("{ds:?}")}));
            return;
        }
        let as_kb: u::AsKilobytes<Distribution<u::AsBytes<u64>>> = WithUnit::from(ds.iter().map(|d| u::AsBytes::from(d.as_micros() as u64)).collect::<Distribution<_>>());
        let Val::Metric { obs, unit, .. } = record_value(&as_kb) else {
            rep.violation("distribution-wrote-no-metric", json!({}));
            return;
        };
        if unit.name() != "Kilobytes" || !obs.iter().zip(&ds).all(|(o, d)| ulps(num(o).0, d.as_micros() as f64 / 1000.0) <= 4) {
            rep.violation("distribution-changed-unit-or-quantity", json!({"unit": unit.name(), "obs": format!("{obs:?}")}));
            return;
        }
        match dist.try_to_mean() {
            Ok(mean) => {
                let Val::Metric { obs, unit, .. } = record_value(&mean) else {
                    rep.violation("mean-wrote-no-metric", json!({}));
                    return;
                };
                let total: f64 = ds.iter().map(|d| d.as_secs_f64()).sum();
                let (t, n) = num(&obs[0]);
                if unit.name() != "Seconds" || n != Some(ds.len() as u64) || (t - total).abs() > total.abs() * 1e-12 {
                    rep.violation("mean-changed-unit-or-quantity", json!({"unit": unit.name(), "obs": format!("{obs:?}"), "expected_total": total}));
                    return;
                }
            }
            Err(e) => {
                rep.violation("mean-failed", json!({"error": e.to_string()}));
                return;
            }
        }
    }
    // a unit on a string, and "promised A, wrote B": validation error, no number
    rep.eval();
    let s: WithUnit<StrProbe, u::Megabyte> = WithUnit::from(StrProbe);
    let l: WithUnit<LyingProbe, u::Millisecond> = WithUnit::from(LyingProbe);
    // the same lie where the declared conversion is an identity (same unit / unitless promise)
    let l_same: WithUnit<LyingProbe, u::Second> = WithUnit::from(LyingProbe);
    let l_none: WithUnit<LyingNone, u::Megabyte> = WithUnit::from(LyingNone);
    let l_none2: WithUnit<LyingNone, u::None> = WithUnit::from(LyingNone);
    let l_untagged: WithUnit<LyingUntagged, u::Millisecond> = WithUnit::from(LyingUntagged);
    let l_untagged_same: WithUnit<LyingUntagged, u::Second> = WithUnit::from(LyingUntagged);
    let l_untagged_opt: WithUnit<Option<LyingUntagged>, u::Microsecond> = WithUnit::from(Some(LyingUntagged));
    let l_scale_t: WithUnit<LyingScaleTime, u::Microsecond> = WithUnit::from(LyingScaleTime);
    let l_scale_t_same: WithUnit<LyingScaleTime, u::Second> = WithUnit::from(LyingScaleTime);
    let l_scale_b: WithUnit<LyingScaleBytes, u::Gigabyte> = WithUnit::from(LyingScaleBytes);
    let l_scale_b_bits: WithUnit<LyingScaleBytes, u::Kilobit> = WithUnit::from(LyingScaleBytes);
    for (what, v) in [
        ("unit on a string", record_value(&s)),
        ("promised Seconds, wrote Bytes, declared Milliseconds", record_value(&l)),
        ("promised Seconds, wrote Bytes, declared Seconds (identity conversion)", record_value(&l_same)),
        ("promised unitless, wrote Seconds, declared Megabytes (identity conversion)", record_value(&l_none)),
        ("promised unitless, wrote Seconds, declared unitless (identity conversion)", record_value(&l_none2)),
        ("promised Seconds, wrote an untagged number, declared Milliseconds", record_value(&l_untagged)),
        ("promised Seconds, wrote an untagged number, declared Seconds (identity conversion)", record_value(&l_untagged_same)),
        ("promised Seconds, wrote an untagged number, behind Option, declared Microseconds", record_value(&l_untagged_opt)),
        ("promised Seconds, wrote Milliseconds (same kind, other scale), declared Microseconds", record_value(&l_scale_t)),
        ("promised Seconds, wrote Milliseconds, declared Seconds (identity conversion)", record_value(&l_scale_t_same)),
        ("promised Kilobytes, wrote Megabytes, declared Gigabytes", record_value(&l_scale_b)),
        ("promised Kilobytes, wrote Megabytes, declared Kilobits", record_value(&l_scale_b_bits)),
    ] {
        if !matches!(v, Val::Error(_)) {
            rep.violation("wrongly-scaled-instead-of-error", json!({"case": what, "wrote": format!("{v:?}")}));
            return;
        }
    }
    // the same through distributions and means: a lie at ANY position is an error, never a number
    for n in 1..=5usize {
        for mask in 0..(1u32 << n) {
            rep.eval();
            let mk = || (0..n).map(|i| MaybeLying { lie: mask >> i & 1 == 1, v: 100 + i as u64 }).collect::<Distribution<MaybeLying>>();
            let plain = record_value(&mk());
            let converted = record_value(&WithUnit::<Distribution<MaybeLying>, u::Kilobyte>::from(mk()));
            let mean = mk().try_to_mean();
            let ctx = json!({"elements": n, "lying_positions_bitmask": mask});
            if mask == 0 {
                let ok = matches!(&plain, Val::Metric { obs, unit, .. } if unit.name() == "Bytes" && obs.len() == n)
                    && matches!(&converted, Val::Metric { obs, unit, .. } if unit.name() == "Kilobytes" && obs.len() == n)
                    && mean.is_ok();
                if !ok {
                    rep.violation("distribution-changed-unit-or-quantity", json!({"ctx": ctx, "plain": format!("{plain:?}"), "converted": format!("{converted:?}"), "mean_ok": mean.is_ok()}));
                    return;
                }
            } else if !matches!(plain, Val::Error(_)) || !matches!(converted, Val::Error(_)) || mean.is_ok() {
                rep.violation(
                    "wrongly-scaled-instead-of-error",
                    json!({"case": "Distribution of values promising Bytes in which some element writes Kilobytes", "ctx": ctx,
                           "plain": format!("{plain:?}"), "with_unit_kilobytes": format!("{converted:?}"), "try_to_mean_is_ok": mean.is_ok()}),
                );
                return;
            }
            rep.count("distribution_lie_patterns", 1);
        }
    }
    // a long-lived Mean: a value that writes another unit than promised is refused AND leaves the
    // mean untouched (nothing wrongly scaled slips into the total)
    for pattern in 0..32u32 {
        rep.eval();
        let mut mean: metrique_writer::value::Mean<u::Byte> = Default::default();
        let (mut total, mut n) = (0.0f64, 0u64);
        for i in 0..5 {
            let lie = pattern >> i & 1 == 1;
            let v = MaybeLying { lie, v: 100 + i as u64 };
            let r = if i % 2 == 0 { mean.record_value(&v) } else { mean.try_extend([&v]) };
            if !lie {
                total += v.v as f64;
                n += 1;
            }
            if r.is_err() != lie || mean.total() != total || mean.occurrences() != n {
                rep.violation(
                    "wrongly-scaled-instead-of-error",
                    json!({"case": "Mean<Byte>: values promising Bytes recorded one by one, some of which write Kilobytes", "lying_positions_bitmask": pattern, "position": i,
                           "this_value_lies": lie, "call_returned_error": r.is_err(), "mean_total": mean.total(), "mean_occurrences": mean.occurrences(), "expected_total": total, "expected_occurrences": n}),
                );
                return;
            }
        }
        rep.count("mean_lie_patterns", 1);
    }
    rep.distinct(Fnv::new().str("misc").finish());
}

fn run(args: &Args, rep: &Report) {
    let mut rng = Rng::derive(args.seed, 0x19);
    let rng = &mut rng;
    for _ in 0..args.get_u64("rounds", args.by_tier(3, 40)) {
        cross!(probe_pair, [Second, Millisecond, Microsecond], [Second, Millisecond, Microsecond], rng, rep);
        cross!(probe_inverse, [Second, Millisecond, Microsecond], [Second, Millisecond, Microsecond], rng, rep);
        cross!(
            probe_pair,
            [Byte, Kilobyte, Megabyte, Gigabyte, Terabyte, Bit, Kilobit, Megabit, Gigabit, Terabit, BytePerSecond, KilobytePerSecond, MegabytePerSecond, GigabytePerSecond, TerabytePerSecond, BitPerSecond, KilobitPerSecond, MegabitPerSecond, GigabitPerSecond, TerabitPerSecond],
            [Byte, Kilobyte, Megabyte, Gigabyte, Terabyte, Bit, Kilobit, Megabit, Gigabit, Terabit, BytePerSecond, KilobytePerSecond, MegabytePerSecond, GigabytePerSecond, TerabytePerSecond, BitPerSecond, KilobitPerSecond, MegabitPerSecond, GigabitPerSecond, TerabitPerSecond],
            rng, rep
        );
        cross!(
            probe_inverse,
            [Byte, Kilobyte, Megabyte, Gigabyte, Terabyte, Bit, Kilobit, Megabit, Gigabit, Terabit, BytePerSecond, KilobytePerSecond, MegabytePerSecond, GigabytePerSecond, TerabytePerSecond, BitPerSecond, KilobitPerSecond, MegabitPerSecond, GigabitPerSecond, TerabitPerSecond],
            [Byte, Kilobyte, Megabyte, Gigabyte, Terabyte, Bit, Kilobit, Megabit, Gigabit, Terabit, BytePerSecond, KilobytePerSecond, MegabytePerSecond, GigabytePerSecond, TerabytePerSecond, BitPerSecond, KilobitPerSecond, MegabitPerSecond, GigabitPerSecond, TerabitPerSecond],
            rng, rep
        );
        cross!(
            probe_pair,
            [None],
            [None, Count, Percent, Second, Millisecond, Microsecond, Byte, Kilobyte, Megabyte, Gigabyte, Terabyte, Bit, Kilobit, Megabit, Gigabit, Terabit, BytePerSecond, KilobytePerSecond, MegabytePerSecond, GigabytePerSecond, TerabytePerSecond, BitPerSecond, KilobitPerSecond, MegabitPerSecond, GigabitPerSecond, TerabitPerSecond],
            rng, rep
        );
    }
    attr_cross!([Second, Millisecond, Microsecond], [Second, Millisecond, Microsecond], rep);
    attr_cross!(
        [Byte, Kilobyte, Megabyte, Gigabyte, Terabyte, Bit, Kilobit, Megabit, Gigabit, Terabit],
        [Byte, Kilobyte, Megabyte, Gigabyte, Terabyte, Bit, Kilobit, Megabit, Gigabit, Terabit, BytePerSecond, MegabitPerSecond],
        rep
    );
    attr_cross!([None], [None, Count, Percent, Second, Millisecond, Microsecond, Byte, Megabyte, Terabit, GigabytePerSecond, KilobitPerSecond], rep);
    misc(rng, rep);
}

fn main() {
    let args = Args::parse();
    let rep = Report::new("C19", &args);
    rep.rule(
        "ALL ordered pairs of convertible units from a macro-generated table (3x3 time, 20x20 bit/byte(/second), None -> 26; non-convertible pairs do not compile): Convert::RATIO vs the harness's own scale table, \
         a probe value of the source unit written through WithUnit<_, To> with Unsigned/Floating/Repeated observations at extreme and random magnitudes (emitted x scale(to) == original x scale(from) within 4 ulp, emitted unit = declared, \
         occurrences and dimensions untouched, ratio 1 bit-identical), conversion composed with its inverse, the #[metrics(unit = ..)] attribute through macro-generated structs, Duration/Option/Distribution/Mean, and the two error cases. \
         distinct = distinct unit pairs",
    );
    run(&args, &rep);
    rep.sample(|| json!({"pair": "Megabyte -> Gigabit", "ratio": <u::Megabyte as Convert<u::Gigabit>>::RATIO, "harness_expected": 8e6 / 1e9}));
    rep.finish_and_exit();
}
