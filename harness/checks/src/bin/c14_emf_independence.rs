//! C14 — formatting one entry never depends on entries formatted before it.
//! Shape R: at every position of a generated sequence, the long-lived formatter must give the
//! same accept/reject decision and the same records (multiset of lines) as a freshly built
//! formatter with the same configuration. See DESIGN.md §7 C14.

use metrique_writer::Entry as _;
use checks::emf_util::*;
use metrique_writer::format::Format;
use metrique_writer::sample::SampledFormat;
use metrique_writer_core::config::MetriqueValidationError;
use metrique_writer_format_emf::{Emf, SampledEmf};
use std::io;
use std::time::{Duration, Instant};
use vcommon::recording::{POp, PVal, ProgramEntry};
use vcommon::serde_json::json;
use vcommon::{Args, Fnv, Report, Rng};

pub struct ScriptRng(pub u64);
impl rand::RngCore for ScriptRng {
    fn next_u32(&mut self) -> u32 {
        (self.0 >> 32) as u32
    }
    fn next_u64(&mut self) -> u64 {
        self.0
    }
    fn fill_bytes(&mut self, dst: &mut [u8]) {
        for (i, b) in dst.iter_mut().enumerate() {
            *b = (self.0 >> (8 * (i % 8))) as u8;
        }
    }
}

#[derive(Clone, Debug)]
enum Item {
    Entry(ProgramEntry),
    /// the in-band `MetriqueValidationError` entry a sink writes after a validation failure
    ErrorReport(String),
    /// the same merged with a globals entry that provides the default dimensions (what
    /// `merge_globals(..).report_error(..)` hands to the format after a validation failure)
    ErrorReportWithGlobals(String, ProgramEntry),
}

#[derive(Clone, Copy, Debug)]
enum WriterMode {
    Vec,
    /// hard error at call number `fail_at` (0 = first call), `accept` bytes per successful call
    FailAt { fail_at: u64, accept: usize },
}

struct ScriptW {
    mode: WriterMode,
    calls: u64,
    got: Vec<u8>,
}
impl io::Write for ScriptW {
    fn write(&mut self, buf: &[u8]) -> io::Result<usize> {
        match self.mode {
            WriterMode::Vec => {
                self.got.extend_from_slice(buf);
                Ok(buf.len())
            }
            WriterMode::FailAt { fail_at, accept } => {
                if self.calls >= fail_at {
                    return Err(io::Error::other("scripted failure"));
                }
                self.calls += 1;
                let n = buf.len().min(accept);
                self.got.extend_from_slice(&buf[..n]);
                Ok(n)
            }
        }
    }
    fn flush(&mut self) -> io::Result<()> {
        Ok(())
    }
}

enum Fm {
    Plain(Emf),
    Sampled(SampledEmf<ScriptRng>, f32),
}

impl Fm {
    fn new(cfg: &Cfg, sampling: Option<(f32, u64)>) -> Fm {
        match sampling {
            None => Fm::Plain(cfg.build()),
            Some((rate, draw)) => Fm::Sampled(cfg.build().with_sampling_and_rng(ScriptRng(draw)), rate),
        }
    }
    /// `how`: on a sampled formatter, None = the sequence's rate, Some(Some(r)) = another rate for
    /// this item, Some(None) = the plain `Format::format` of the sampled formatter (bypasses sampling)
    fn run(&mut self, item: &Item, mode: WriterMode, how: Option<Option<f32>>) -> (FmtResult, Vec<u8>) {
        let mut w = ScriptW { mode, calls: 0, got: vec![] };
        let r = match (self, item) {
            (Fm::Plain(f), Item::Entry(e)) => f.format(e, &mut w),
            (Fm::Plain(f), Item::ErrorReport(m)) => f.format(&MetriqueValidationError::new(m), &mut w),
            (Fm::Plain(f), Item::ErrorReportWithGlobals(m, g)) => f.format(&g.clone().merge(MetriqueValidationError::new(m)), &mut w),
            (Fm::Sampled(f, _), Item::ErrorReportWithGlobals(m, g)) if how == Some(None) => f.format(&g.clone().merge(MetriqueValidationError::new(m)), &mut w),
            (Fm::Sampled(f, rate), Item::ErrorReportWithGlobals(m, g)) => f.format_with_sample_rate(&g.clone().merge(MetriqueValidationError::new(m)), &mut w, how.flatten().unwrap_or(*rate)),
            (Fm::Sampled(f, _), Item::Entry(e)) if how == Some(None) => f.format(e, &mut w),
            (Fm::Sampled(f, _), Item::ErrorReport(m)) if how == Some(None) => f.format(&MetriqueValidationError::new(m), &mut w),
            (Fm::Sampled(f, rate), Item::Entry(e)) => f.format_with_sample_rate(e, &mut w, how.flatten().unwrap_or(*rate)),
            (Fm::Sampled(f, rate), Item::ErrorReport(m)) => f.format_with_sample_rate(&MetriqueValidationError::new(m), &mut w, how.flatten().unwrap_or(*rate)),
        };
        (
            match r {
                Ok(()) => FmtResult::Ok,
                Err(metrique_writer::IoStreamError::Validation(v)) => FmtResult::Validation(v.to_string()),
                Err(metrique_writer::IoStreamError::Io(_)) => FmtResult::Io(String::new()),
            },
            w.got,
        )
    }
}

/// For entries without a timestamp: parse every line, check that the generated `_aws.Timestamp`
/// is not older than this run (a leaked earlier timestamp is a dependence) and replace it by a
/// fixed token, then return the lines in a canonical order.
fn masked_records(bytes: &[u8], not_before: u128) -> Result<Vec<String>, String> {
    use vcommon::strict_json::Js;
    let mut out = vec![];
    for line in bytes.split_inclusive(|b| *b == b'\n') {
        let body = line.strip_suffix(b"\n").unwrap_or(line);
        match vcommon::strict_json::parse(body) {
            Ok(Js::Obj(mut members)) => {
                if let Some((_, Js::Obj(aws))) = members.iter_mut().find(|(k, _)| k == "_aws") {
                    if let Some((_, ts)) = aws.iter_mut().find(|(k, _)| k == "Timestamp") {
                        if let Js::Num(tok) = ts {
                            if let Ok(v) = tok.parse::<u128>() {
                                if v < not_before {
                                    return Err(format!("generated Timestamp {v} is older than the start of this run ({not_before}): leaked from an earlier entry?"));
                                }
                            }
                        }
                        *ts = Js::Str("T".into());
                    }
                }
                out.push(format!("{:?}{}", Js::Obj(members), line.ends_with(b"\n")));
            }
            _ => out.push(format!("raw:{:?}", line)),
        }
    }
    out.sort();
    Ok(out)
}

fn sorted_lines(bytes: &[u8]) -> Vec<Vec<u8>> {
    let mut v: Vec<Vec<u8>> = bytes.split_inclusive(|b| *b == b'\n').map(|l| l.to_vec()).collect();
    v.sort();
    v
}

fn has_timestamp(item: &Item) -> bool {
    match item {
        Item::Entry(e) => e.ops.iter().any(|o| matches!(o, POp::Timestamp(_))),
        Item::ErrorReport(_) | Item::ErrorReportWithGlobals(..) => false,
    }
}

fn item_json(i: &Item) -> vcommon::serde_json::Value {
    match i {
        Item::Entry(e) => {
            let j = e.json().to_string();
            if j.len() > 3000 { json!(format!("{}…[{} bytes of entry json]", &j[..j.char_indices().nth(3000).map(|x| x.0).unwrap_or(j.len())], j.len())) } else { e.json() }
        }
        Item::ErrorReport(m) => json!({"error_report": m}),
        Item::ErrorReportWithGlobals(m, g) => json!({"error_report": m, "merged_with_globals": g.json()}),
    }
}

fn gen_item(rng: &mut Rng, cfg: &Cfg, thorough: bool) -> (Item, &'static str) {
    if rng.below(if thorough { 40 } else { 60 }) == 0 {
        // one metric with hundreds of thousands of observations: megabytes of Values / Counts
        let mut e = gen_valid_entry(rng, cfg, false, false);
        let n = 300_000 + rng.usize_below(500_000);
        let obs: Vec<vcommon::recording::Obs> = (0..n).map(|i| vcommon::recording::Obs::U((i % 9) as u64)).collect();
        e.ops.push(POp::Value("HugeDistribution".into(), PVal::Metric { obs, unit: metrique_writer::Unit::Count, dims: vec![], flags: None }));
        return (Item::Entry(e), "huge-distribution");
    }
    match rng.below(20) {
        0 if rng.bool() => (Item::ErrorReport("metric entry could not be formatted correctly".into()), "error-report"),
        0 => {
            let mut names: Vec<&String> = cfg.default_dims.iter().flatten().collect();
            names.sort();
            names.dedup();
            let ops = names.into_iter().map(|n| POp::Value(n.clone(), PVal::Str(format!("v{}", rng.below(3))))).collect();
            (Item::ErrorReportWithGlobals("metric entry could not be formatted correctly".into(), ProgramEntry::new(ops)), "error-report-with-globals")
        }
        1 | 2 => {
            // multi-megabyte entry
            let mut e = gen_valid_entry(rng, cfg, false, false);
            let mb = if thorough { 2 + rng.below(7) } else { 2 + rng.below(2) } as usize;
            let mut big = String::with_capacity(mb << 20);
            while big.len() < (mb << 20) {
                big.push_str("0123456789abcdef\"\\\n0123456789abcdef");
            }
            e.ops.push(POp::Value("BigPayload".into(), PVal::Str(big)));
            (Item::Entry(e), "multi-megabyte")
        }
        3..=9 => {
            let ht = rng.below(3) == 0;
            let mut e = gen_valid_entry(rng, cfg, ht, false);
            let which = rng.usize_below(DEFECTS.len());
            let ok = inject_defect(rng, cfg, &mut e, which);
            (Item::Entry(e), if ok { DEFECTS[which] } else { "valid" })
        }
        _ => {
            let (ht, big) = (rng.below(3) == 0, rng.below(30) == 0);
            (Item::Entry(gen_valid_entry(rng, cfg, ht, big)), "valid")
        }
    }
}

fn run_sequence(rng: &mut Rng, thorough: bool, start_millis: u128, rep: &Report) -> bool {
    let validate = *rng.pick(&[Validate::All, Validate::All, Validate::Off, Validate::BuilderDefault]);
    let hostile = rng.below(3) == 0;
    let cfg = gen_cfg(rng, hostile, validate);
    let sampling = if rng.below(3) == 0 { Some((*rng.pick(&[1.0f32, 0.5, 0.3, 1e-3]), *rng.pick(&[0u64, u64::MAX, 1 << 62]))) } else { None };
    let mut long_lived = Fm::new(&cfg, sampling);
    let n = 2 + rng.below(if thorough { 19 } else { 9 });
    let mut history: Vec<String> = vec![];
    for pos in 0..n {
        let (item, kind) = gen_item(rng, &cfg, thorough);
        let mode = if rng.below(6) == 0 { WriterMode::FailAt { fail_at: rng.below(4), accept: 1 + rng.usize_below(200) } } else { WriterMode::Vec };
        let how = match rng.below(4) {
            0 => Some(None),
            1 => Some(Some(*rng.pick(&[1.0f32, 0.5, 0.25, 0.3, 1e-3, 1e-9]))),
            _ => None,
        };
        let (r1, b1) = long_lived.run(&item, mode, how);
        let (r2, b2) = Fm::new(&cfg, sampling).run(&item, mode, how);
        rep.eval();
        rep.count(&format!("position_kind:{kind}"), 1);
        history.push(format!("{kind}/{mode:?}/{}{r1:?}", if sampling.is_some() { format!("{how:?}/") } else { String::new() }).chars().take(110).collect());
        let witness = |what: &str| {
            json!({"what": what, "cfg": cfg.json(), "sampling": format!("{sampling:?}"), "position": pos, "history_before": history,
                   "item": item_json(&item), "writer": format!("{mode:?}"),
                   "long_lived_result": format!("{r1:?}"), "fresh_result": format!("{r2:?}"),
                   "long_lived_output": short(&b1), "fresh_output": short(&b2)})
        };
        let kind_of = |r: &FmtResult| match r {
            FmtResult::Ok => 0,
            FmtResult::Validation(_) => 1,
            FmtResult::Io(_) => 2,
        };
        if kind_of(&r1) != kind_of(&r2) {
            rep.violation("decision-depends-on-history", witness("accept/reject/io decision differs between the long-lived and a fresh formatter"));
            return false;
        }
        if let (FmtResult::Validation(a), FmtResult::Validation(b)) = (&r1, &r2) {
            // the reported reasons are a set of messages; compare as sorted lines
            let mut x: Vec<&str> = a.split('\n').collect();
            let mut y: Vec<&str> = b.split('\n').collect();
            x.sort();
            y.sort();
            if x != y {
                rep.count("note_validation_messages_differ", 1);
            }
        }
        if matches!(mode, WriterMode::Vec) {
            let same = if has_timestamp(&item) {
                sorted_lines(&b1) == sorted_lines(&b2)
            } else {
                match (masked_records(&b1, start_millis), masked_records(&b2, start_millis)) {
                    (Ok(a), Ok(b)) => a == b,
                    (Err(e), _) | (_, Err(e)) => {
                        rep.violation("stale-timestamp", witness(&e));
                        return false;
                    }
                }
            };
            if !same {
                rep.violation("records-depend-on-history", witness("records differ (as a multiset of lines) between the long-lived and a fresh formatter"));
                return false;
            }
            rep.count("positions_compared_bytewise", 1);
        } else {
            rep.count("positions_with_failing_writer", 1);
        }
    }
    let mut h = Fnv::new();
    for s in &history {
        h.str(s);
    }
    rep.distinct(h.finish());
    if rep.want_sample() && rng.below(100) == 0 {
        rep.sample(|| json!({"cfg": cfg.json(), "sampling": format!("{sampling:?}"), "sequence": history}));
    }
    true
}

fn main() {
    let args = Args::parse();
    let rep = Report::new("C14", &args);
    rep.rule(
        "sequences of 2-20 items on one long-lived formatter (plain or sampled): valid entries, each validation defect, split mode with several dimension sets, \
         entry dimensions, the in-band error-report entry, multi-megabyte entries, entries formatted into a writer that fails at call j; at every position the \
         (Ok/Validation/Io) decision and the multiset of lines must equal those of a freshly built formatter on that entry alone (Timestamp masked, but not older \
         than the run, when the entry has none). distinct = distinct sequences of (kind, writer, result)",
    );
    let start_millis = now_millis();
    let budget = Duration::from_secs(args.get_u64("secs", args.by_tier(12, 150)));
    let start = Instant::now();
    std::thread::scope(|s| {
        for lane in 0..args.get_u64("lanes", 12) {
            let rep = &rep;
            let args = &args;
            s.spawn(move || {
                let mut rng = Rng::derive(args.seed, lane);
                while start.elapsed() < budget && rep.violation_count() == 0 {
                    if !run_sequence(&mut rng, args.thorough(), start_millis, rep) {
                        return;
                    }
                }
            });
        }
    });
    rep.finish_and_exit();
}
