//! C20 — the metrics.rs bridge reports every counter increment and sample exactly once.
//! Shape H + S: updater threads with a known script, concurrent readouts (a tight reader loop and
//! the real MetricReporter task), conservation oracle over all readouts. See DESIGN.md §7 C20.

use metrics::{Key, Label, Level, Metadata, Recorder, Unit as MUnit};
use metrique_metricsrs::{MetricRecorder, MetricReporter};
use metrique_writer::sink::FlushWait;
use metrique_writer::{AnyEntrySink, Entry};
use std::collections::{BTreeMap, HashMap};
use std::sync::atomic::{AtomicBool, Ordering};
use std::sync::{Arc, Mutex};
use vcommon::sync::SpinGate as Barrier;
use std::time::{Duration, Instant};
use vcommon::recording::{Obs, Op, Val, record};
use vcommon::serde_json::{Value, json};
use vcommon::sync::{is_miri, progress_tick, ticket};
use vcommon::{Args, Fnv, Report, Rng};

type Rec = MetricRecorder<dyn metrics::Recorder>;

/// one readout, replayed into a recording writer, with the tickets around the readout call
#[derive(Clone)]
struct Readout {
    start: u64,
    end: u64,
    log: Vec<Op>,
    source: &'static str,
}

#[derive(Clone, Default)]
struct ReporterSink(Arc<Mutex<Vec<Readout>>>);
impl AnyEntrySink for ReporterSink {
    fn append_any(&self, entry: impl Entry + Send + 'static) {
        let t = ticket();
        self.0.lock().unwrap().push(Readout { start: 0, end: t, log: record(&entry), source: "reporter" });
    }
    fn flush_async(&self) -> FlushWait {
        FlushWait::ready()
    }
}

#[derive(Clone, Debug, PartialEq, Eq, Hash, PartialOrd, Ord)]
struct KeyId {
    name: String,
    labels: Vec<(String, String)>,
}

#[derive(Clone, Copy, Debug, PartialEq)]
enum Kind {
    Counter,
    Gauge,
    Histogram,
}

#[derive(Clone, Debug)]
struct MetricSpec {
    key: KeyId,
    kind: Kind,
    unit: Option<MUnit>,
    /// describe before (true) or after (false) the handle is registered
    describe_first: bool,
}

fn mkey(k: &KeyId) -> Key {
    Key::from_parts(k.name.clone(), k.labels.iter().map(|(a, b)| Label::new(a.clone(), b.clone())).collect::<Vec<_>>())
}

fn munit_name(u: Option<MUnit>) -> &'static str {
    match u {
        None => "None",
        Some(MUnit::Count) => "Count",
        Some(MUnit::Percent) => "Percent",
        Some(MUnit::Seconds) => "Seconds",
        Some(MUnit::Milliseconds) => "Milliseconds",
        Some(MUnit::Microseconds) => "Microseconds",
        Some(MUnit::Bytes) => "Bytes",
        Some(MUnit::Kibibytes) => "Kilobytes",
        _ => "?",
    }
}

struct Plan {
    metrics: Vec<MetricSpec>,
    /// idle counters registered up front: they only lengthen every readout's sweep
    filler: usize,
    /// metrics that are described, registered and first updated (in that order, by one thread) while readouts run
    fresh: Vec<MetricSpec>,
    updaters: usize,
    per: usize,
    with_reporter: bool,
    seed: u64,
}

fn gen_plan(rng: &mut Rng) -> Plan {
    let n = 1 + rng.usize_below(if is_miri() { 4 } else { 20 });
    let names = ["requests", "bytes_out", "latency", "queue_depth", "errors"];
    let mut metrics: Vec<MetricSpec> = vec![];
    let mut used = std::collections::HashSet::new();
    for i in 0..n {
        let kind = *rng.pick(&[Kind::Counter, Kind::Counter, Kind::Gauge, Kind::Histogram, Kind::Histogram]);
        // a name has one kind (and one unit) throughout
        let name = format!("{}_{}", names[i % names.len()], match kind { Kind::Counter => "c", Kind::Gauge => "g", Kind::Histogram => "h" });
        let labels: Vec<(String, String)> = (0..rng.below(3)).map(|j| (format!("l{j}"), format!("v{}", rng.below(3)))).collect();
        let key = KeyId { name: name.clone(), labels };
        if !used.insert(key.clone()) {
            continue;
        }
        let unit = match metrics.iter().find(|m| m.key.name == name) {
            Some(m) => m.unit,
            None => *rng.pick(&[None, Some(MUnit::Count), Some(MUnit::Milliseconds), Some(MUnit::Bytes), Some(MUnit::Percent), Some(MUnit::Seconds)]),
        };
        metrics.push(MetricSpec { key, kind, unit, describe_first: rng.bool() });
    }
    let filler = if is_miri() { 0 } else { *rng.pick(&[0usize, 0, 200, 3000, 20_000]) };
    let n_fresh = if is_miri() { rng.usize_below(3) } else { *rng.pick(&[0usize, 5, 60, 400]) };
    let fresh = (0..n_fresh)
        .map(|i| {
            let kind = *rng.pick(&[Kind::Counter, Kind::Gauge, Kind::Histogram, Kind::Histogram]);
            let unit = *rng.pick(&[Some(MUnit::Count), Some(MUnit::Milliseconds), Some(MUnit::Bytes), Some(MUnit::Percent), Some(MUnit::Seconds)]);
            MetricSpec { key: KeyId { name: format!("fresh_{i}"), labels: vec![] }, kind, unit, describe_first: true }
        })
        .collect();
    Plan { metrics, filler, fresh, updaters: 1 + rng.usize_below(if is_miri() { 2 } else { 12 }), per: 1 + rng.usize_below(if is_miri() { 10 } else { 3000 }), with_reporter: !is_miri() && rng.bool(), seed: rng.next_u64() }
}

struct Truth {
    counter_total: HashMap<KeyId, u64>,
    hist_values: HashMap<KeyId, Vec<u32>>,
    gauge_sets: HashMap<KeyId, Vec<f64>>,
    /// name -> (unit name, ticket before describe, ticket after describe)
    described: HashMap<String, (&'static str, u64, u64)>,
    /// key -> ticket taken just before its handle was registered
    registered: HashMap<KeyId, u64>,
}

fn run_history(plan: &Plan, rep: &Report) -> bool {
    let meta = Metadata::new("c20", Level::INFO, None);
    let reporter_sink = ReporterSink::default();
    // the real reporter task (5 ms interval) when requested, otherwise a bare recorder
    let rt = if plan.with_reporter { Some(tokio::runtime::Builder::new_multi_thread().worker_threads(2).enable_all().build().unwrap()) } else { None };
    let (reporter, recorder): (Option<MetricReporter>, Rec) = match &rt {
        Some(rt) => {
            let _g = rt.enter();
            let (r, rec) = MetricReporter::builder()
                .metrics_publish_interval(Duration::from_millis(5))
                .metrics_rs_version::<dyn metrics::Recorder>()
                .metrics_sink((reporter_sink.clone(), ()))
                .build_without_installing();
            (Some(r), rec)
        }
        None => (None, Rec::new()),
    };
    let mut truth = Truth { counter_total: HashMap::new(), hist_values: HashMap::new(), gauge_sets: HashMap::new(), described: HashMap::new(), registered: HashMap::new() };
    let describe = |spec: &MetricSpec, truth: &mut Truth| {
        if truth.described.contains_key(&spec.key.name) {
            return;
        }
        let t0 = ticket();
        let name: metrics::KeyName = spec.key.name.clone().into();
        match spec.kind {
            Kind::Counter => recorder.describe_counter(name, spec.unit, "".into()),
            Kind::Gauge => recorder.describe_gauge(name, spec.unit, "".into()),
            Kind::Histogram => recorder.describe_histogram(name, spec.unit, "".into()),
        }
        truth.described.insert(spec.key.name.clone(), (munit_name(spec.unit), t0, ticket()));
    };
    // registration: handles before or after describe
    enum H {
        C(metrics::Counter),
        G(metrics::Gauge),
        H(metrics::Histogram),
    }
    let mut handles: Vec<(usize, H)> = vec![];
    for (i, spec) in plan.metrics.iter().enumerate() {
        if spec.describe_first {
            describe(spec, &mut truth);
        }
        let k = mkey(&spec.key);
        truth.registered.insert(spec.key.clone(), ticket());
        handles.push((i, match spec.kind {
            Kind::Counter => H::C(recorder.register_counter(&k, &meta)),
            Kind::Gauge => H::G(recorder.register_gauge(&k, &meta)),
            Kind::Histogram => H::H(recorder.register_histogram(&k, &meta)),
        }));
    }
    let _filler: Vec<metrics::Counter> = (0..plan.filler).map(|i| recorder.register_counter(&Key::from_name(format!("filler_{i}")), &meta)).collect();
    // deal the metrics to updaters: counters and histograms are shared by all, a gauge has one writer
    let handles = Arc::new(handles);
    let stop_reader = Arc::new(AtomicBool::new(false));
    let barrier = Arc::new(Barrier::new(plan.updaters + 1));
    let truth_parts: Arc<Mutex<Vec<(HashMap<usize, u64>, HashMap<usize, Vec<u32>>, HashMap<usize, Vec<f64>>)>>> = Default::default();
    let updaters: Vec<_> = (0..plan.updaters)
        .map(|u| {
            let (handles, barrier, parts, per, seed, nup) = (handles.clone(), barrier.clone(), truth_parts.clone(), plan.per, plan.seed, plan.updaters);
            std::thread::spawn(move || {
                let mut rng = Rng::derive(seed, u as u64);
                let (mut c, mut h, mut g): (HashMap<usize, u64>, HashMap<usize, Vec<u32>>, HashMap<usize, Vec<f64>>) = Default::default();
                let mut gauge_next = 1.0f64;
                barrier.wait();
                for _ in 0..per {
                    let (i, hd) = &handles[rng.usize_below(handles.len())];
                    match hd {
                        H::C(counter) => {
                            let by = 1 + rng.below(1000);
                            counter.increment(by);
                            *c.entry(*i).or_default() += by;
                        }
                        H::H(hist) => {
                            let v = match rng.below(4) {
                                0 => rng.below(32),
                                1 => rng.below(5000),
                                2 => rng.below(1 << 32),
                                _ => (1u64 << rng.below(32)) + rng.below(3),
                            }
                            .min(u32::MAX as u64) as u32;
                            // now and then a value beyond the 32-bit range (documented to land in the top
                            // bucket), and several occurrences at once through record_many
                            let beyond = rng.below(16) == 0;
                            let fv = if beyond { *rng.pick(&[4_294_967_296.0f64, 5e9, 1e12, 1.8e19]) } else { v as f64 };
                            let v = if beyond { u32::MAX } else { v };
                            if rng.below(4) == 0 {
                                let n = 1 + rng.usize_below(4);
                                hist.record_many(fv, n);
                                for _ in 0..n {
                                    h.entry(*i).or_default().push(v);
                                }
                            } else {
                                hist.record(fv);
                                h.entry(*i).or_default().push(v);
                            }
                        }
                        H::G(gauge) => {
                            if *i % nup == u {
                                gauge.set(gauge_next);
                                g.entry(*i).or_default().push(gauge_next);
                                gauge_next += 1.0 + rng.below(5) as f64;
                            }
                        }
                    }
                    progress_tick();
                }
                // a gauge may end on an infinite value: it is still the last value set
                for (i, hd) in handles.iter() {
                    if let H::G(gauge) = hd {
                        if *i % nup == u && rng.below(4) == 0 {
                            gauge.set(f64::INFINITY);
                            g.entry(*i).or_default().push(f64::INFINITY);
                        }
                    }
                }
                parts.lock().unwrap().push((c, h, g));
            })
        })
        .collect();
    // late describes happen while the updaters run
    let reader_log: Arc<Mutex<Vec<Readout>>> = Default::default();
    let reader = {
        let (recorder, stop, log) = (recorder.clone(), stop_reader.clone(), reader_log.clone());
        std::thread::spawn(move || {
            while !stop.load(Ordering::SeqCst) {
                let start = ticket();
                let entry = recorder.readout();
                let end = ticket();
                log.lock().unwrap().push(Readout { start, end, log: record(&entry), source: "reader" });
                if is_miri() {
                    std::thread::yield_now();
                }
            }
        })
    };
    // fresh metrics: describe -> register -> first update, one after the other, while readouts run
    let fresh_thread = {
        let (recorder, fresh, seed) = (recorder.clone(), plan.fresh.clone(), plan.seed);
        std::thread::spawn(move || {
            let meta = Metadata::new("c20", Level::INFO, None);
            let mut rng = Rng::derive(seed, 777);
            let mut out = vec![];
            let mut keep = vec![];
            for spec in &fresh {
                let t0 = ticket();
                let name: metrics::KeyName = spec.key.name.clone().into();
                match spec.kind {
                    Kind::Counter => recorder.describe_counter(name, spec.unit, "".into()),
                    Kind::Gauge => recorder.describe_gauge(name, spec.unit, "".into()),
                    Kind::Histogram => recorder.describe_histogram(name, spec.unit, "".into()),
                }
                let t1 = ticket();
                let k = mkey(&spec.key);
                let treg = ticket();
                let v = 1 + rng.below(30);
                match spec.kind {
                    Kind::Counter => {
                        let h = recorder.register_counter(&k, &meta);
                        h.increment(v);
                        keep.push(H::C(h));
                    }
                    Kind::Gauge => {
                        let h = recorder.register_gauge(&k, &meta);
                        h.set(v as f64);
                        keep.push(H::G(h));
                    }
                    Kind::Histogram => {
                        let h = recorder.register_histogram(&k, &meta);
                        h.record(v as f64);
                        keep.push(H::H(h));
                    }
                }
                out.push((t0, t1, treg, v));
                progress_tick();
                for _ in 0..rng.below(3000) {
                    std::hint::spin_loop();
                }
            }
            (out, keep)
        })
    };
    barrier.wait();
    for spec in plan.metrics.iter().filter(|s| !s.describe_first) {
        describe(spec, &mut truth);
        std::thread::yield_now();
    }
    for u in updaters {
        let _ = u.join();
    }
    let (fresh_out, _fresh_handles) = fresh_thread.join().expect("fresh-metric thread");
    for (spec, (t0, t1, treg, v)) in plan.fresh.iter().zip(fresh_out) {
        truth.described.insert(spec.key.name.clone(), (munit_name(spec.unit), t0, t1));
        truth.registered.insert(spec.key.clone(), treg);
        match spec.kind {
            Kind::Counter => *truth.counter_total.entry(spec.key.clone()).or_default() += v,
            Kind::Gauge => truth.gauge_sets.entry(spec.key.clone()).or_default().push(v as f64),
            Kind::Histogram => truth.hist_values.entry(spec.key.clone()).or_default().push(v as u32),
        }
    }
    rep.count("fresh_metrics_created_during_readouts", plan.fresh.len() as u64);
    stop_reader.store(true, Ordering::SeqCst);
    let _ = reader.join();
    if let (Some(r), Some(rt)) = (&reporter, &rt) {
        rt.block_on(r.shutdown()); // publishes one more readout
    }
    let start = ticket();
    let fin = recorder.readout();
    let final_readout = Readout { start, end: ticket(), log: record(&fin), source: "final" };
    for (c, h, g) in truth_parts.lock().unwrap().drain(..) {
        for (i, v) in c {
            *truth.counter_total.entry(plan.metrics[i].key.clone()).or_default() += v;
        }
        for (i, v) in h {
            truth.hist_values.entry(plan.metrics[i].key.clone()).or_default().extend(v);
        }
        for (i, v) in g {
            truth.gauge_sets.entry(plan.metrics[i].key.clone()).or_default().extend(v);
        }
    }
    let mut all: Vec<Readout> = reader_log.lock().unwrap().clone();
    let n_reader = all.len();
    all.extend(reporter_sink.0.lock().unwrap().iter().cloned());
    let n_reporter = all.len() - n_reader;
    all.push(final_readout.clone());
    rep.count("readouts_by_reader", n_reader as u64);
    rep.count("readouts_by_reporter_task", n_reporter as u64);
    check(plan, &truth, &all, &final_readout, rep)
}

fn check(plan: &Plan, truth: &Truth, all: &[Readout], final_readout: &Readout, rep: &Report) -> bool {
    let spec_of: HashMap<KeyId, &MetricSpec> = plan.metrics.iter().chain(plan.fresh.iter()).map(|m| (m.key.clone(), m)).collect();
    let ctx = format!("{} metrics + {} idle filler counters + {} fresh metrics created during readouts, {} updaters x {} updates, reporter task: {}", plan.metrics.len(), plan.filler, plan.fresh.len(), plan.updaters, plan.per, plan.with_reporter);
    let witness = |what: &str, extra: Value| json!({"what": what, "ctx": ctx, "readouts": all.len(), "extra": extra});
    let mut counter_sum: BTreeMap<KeyId, u64> = BTreeMap::new();
    let mut hist_out: BTreeMap<KeyId, Vec<(f64, u64)>> = BTreeMap::new();
    let mut gauge_seen: BTreeMap<(KeyId, &'static str), Vec<f64>> = BTreeMap::new();
    for r in all {
        if !r.log.iter().any(|o| matches!(o, Op::Config { allow_split: true, .. })) {
            rep.violation("readout-without-split-config", witness("a readout entry does not enable split entries", json!({"source": r.source})));
            return false;
        }
        for op in &r.log {
            let Op::Value { name, val: Val::Metric { obs, unit, dims, .. } } = op else { continue };
            let key = KeyId { name: name.clone(), labels: dims.clone() };
            let Some(spec) = spec_of.get(&key) else {
                rep.violation("readout-unknown-key", witness("a readout wrote a metric under a name/label set that was never registered (name = registered name, dimensions = labels in order)", json!({"name": name, "dims": dims})));
                return false;
            };
            // unit: described before the readout began => must be there; after it returned => absent
            if let Some((uname, d0, d1)) = truth.described.get(name) {
                // described before the readout began, or before this key was even registered (a readout that
                // reports the key observed its registration, hence also the earlier describe) => must be there
                let must = (r.start != 0 && *d1 < r.start) || truth.registered.get(&key).is_some_and(|t| *d1 < *t);
                let must_not = *d0 > r.end;
                if (must && unit.name() != *uname) || (must_not && unit.name() != "None") {
                    rep.violation("readout-unit-wrong", witness("unit of a readout metric differs from the described unit", json!({"name": name, "unit": unit.name(), "described": uname, "described_before_readout_or_registration": must, "source": r.source})));
                    return false;
                }
                if unit.name() != *uname && unit.name() != "None" {
                    rep.violation("readout-unit-wrong", witness("unit is neither the described one nor none", json!({"name": name, "unit": unit.name()})));
                    return false;
                }
            }
            match spec.kind {
                Kind::Counter => {
                    let v = match obs.as_slice() {
                        [Obs::U(v)] => *v,
                        _ => {
                            rep.violation("counter-shape", witness("counter not reported as one unsigned observation", json!({"obs": format!("{obs:?}")})));
                            return false;
                        }
                    };
                    *counter_sum.entry(key).or_default() += v;
                }
                Kind::Histogram => {
                    let e = hist_out.entry(key).or_default();
                    for o in obs {
                        match o {
                            Obs::R { total, occ } if *occ > 0 => e.push((f64::from_bits(*total) / *occ as f64, *occ)),
                            _ => {
                                rep.violation("histogram-shape", witness("histogram bucket not reported as a repeated observation", json!({"obs": format!("{o:?}")})));
                                return false;
                            }
                        }
                    }
                }
                Kind::Gauge => {
                    if let [Obs::F(b)] = obs.as_slice() {
                        gauge_seen.entry((key, r.source)).or_default().push(f64::from_bits(*b));
                    }
                }
            }
        }
    }
    // counters: deltas sum to the total incremented
    for (key, total) in &truth.counter_total {
        let got = counter_sum.get(key).copied().unwrap_or(0);
        if got != *total {
            rep.violation(
                "counter-increments-not-reported-exactly-once",
                witness("the reported deltas of a counter do not sum to the total incremented", json!({"key": format!("{key:?}"), "incremented": total, "reported": got, "difference": *total as i128 - got as i128})),
            );
            return false;
        }
    }
    // histograms: every observation counted once, within the bucket error
    for (key, values) in &truth.hist_values {
        let mut out = hist_out.get(key).cloned().unwrap_or_default();
        let n_out: u64 = out.iter().map(|o| o.1).sum();
        if n_out != values.len() as u64 {
            rep.violation(
                "histogram-observations-not-counted-exactly-once",
                witness("total occurrences over all readouts differ from the number of recorded observations", json!({"key": format!("{key:?}"), "recorded": values.len(), "reported": n_out})),
            );
            return false;
        }
        out.sort_by(|a, b| a.0.partial_cmp(&b.0).unwrap());
        let mut sorted = values.clone();
        sorted.sort_unstable();
        let mut idx = 0;
        for (m, occ) in out {
            for _ in 0..occ {
                let v = sorted[idx] as f64;
                idx += 1;
                let tol = if v < 32.0 { 0.0 } else { v / 16.0 };
                if (m - v).abs() > tol {
                    rep.violation("histogram-value-outside-bucket-error", witness("an observation is reported outside its bucket error", json!({"key": format!("{key:?}"), "recorded": v, "reported": m})));
                    return false;
                }
            }
        }
    }
    // gauges: the final readout reports the last value set; each reader sees a non-decreasing subsequence of the sets
    for (key, sets) in &truth.gauge_sets {
        let last = *sets.last().unwrap();
        let fin = final_readout.log.iter().find_map(|o| match o {
            Op::Value { name, val: Val::Metric { obs, dims, .. } } if *name == key.name && *dims == key.labels => match obs.as_slice() {
                [Obs::F(b)] => Some(f64::from_bits(*b)),
                _ => None,
            },
            _ => None,
        });
        if fin != Some(last) {
            rep.violation("gauge-not-last-value", witness("the final readout does not report the last value set", json!({"key": format!("{key:?}"), "last_set": last, "reported": fin})));
            return false;
        }
        for src in ["reader", "reporter"] {
            if let Some(seen) = gauge_seen.get(&(key.clone(), src)) {
                let mut prev = 0.0;
                for v in seen {
                    if (*v != 0.0 && !sets.contains(v)) || *v < prev {
                        rep.violation("gauge-readout-not-a-set-value", witness("an intermediate gauge readout is not a (non-decreasing) member of the values set", json!({"key": format!("{key:?}"), "value": v, "previous": prev})));
                        return false;
                    }
                    prev = *v;
                }
            }
        }
    }
    rep.count("counter_keys_checked", truth.counter_total.len() as u64);
    rep.count("histogram_observations_checked", truth.hist_values.values().map(|v| v.len() as u64).sum());
    rep.count("gauge_keys_checked", truth.gauge_sets.len() as u64);
    true
}

fn main() {
    let args = Args::parse();
    let rep = Report::new("C20", &args);
    rep.rule(
        "each evaluation is one history: 1-20 metric keys (name + label sets; counters, gauges, histograms; described before or after registration, some while updates run), 1-12 updater threads issuing a known script \
         (counter increments of random size, histogram values incl. bucket boundaries, one writer per gauge with increasing values), a reader thread calling readout() in a tight loop, optionally the real MetricReporter \
         task (5 ms interval) feeding a recording sink, reporter shutdown (one more readout) and a final readout. Oracle over ALL readouts replayed into a recording writer: per counter key the deltas sum to the total, \
         per histogram key the occurrences equal the observations and sorted matching stays within the bucket error, gauges end at the last value, names/labels/units/split config as registered. distinct = distinct (plan shape, readout count)",
    );
    let budget = Duration::from_secs(args.get_u64("secs", args.by_tier(10, 120)));
    let start = Instant::now();
    let tiny = is_miri() || args.get_u64("tiny", 0) == 1;
    let lanes = if tiny { 1 } else { args.get_u64("lanes", 3) };
    std::thread::scope(|s| {
        for lane in 0..lanes {
            let (rep, args) = (&rep, &args);
            s.spawn(move || {
                let mut rng = Rng::derive(args.seed, lane + 100 * args.get_u64("variant", 0));
                let mut rounds = 0;
                while (start.elapsed() < budget || rounds < 2) && rep.violation_count() == 0 {
                    rounds += 1;
                    let plan = gen_plan(&mut rng);
                    rep.eval();
                    let before = rep.counter("readouts_by_reader");
                    if !run_history(&plan, rep) {
                        return;
                    }
                    let readouts = rep.counter("readouts_by_reader") - before;
                    rep.distinct(Fnv::new().u64(plan.metrics.len() as u64).u64(plan.updaters as u64).u64(plan.per as u64).u64(readouts).finish());
                    if rep.want_sample() && rounds % 20 == 1 {
                        rep.sample(|| json!({"metrics": plan.metrics.iter().map(|m| format!("{:?} {:?} {}", m.kind, m.key, munit_name(m.unit))).collect::<Vec<_>>(), "updaters": plan.updaters, "updates_per_updater": plan.per, "reporter_task": plan.with_reporter, "readouts_by_reader": readouts}));
                    }
                    if tiny && rounds >= 2 {
                        break;
                    }
                }
            });
        }
    });
    if tiny {
        println!("OUTCOME readouts={}", rep.counter("readouts_by_reader"));
    }
    rep.finish_and_exit();
}
