//! C18 — timers and stopwatches report exactly the spans they were asked to measure.
//! Shape H: exhaustive op sequences (and long random ones) over a manually advanced time
//! source, checked against a sequential reference after EVERY prefix. See DESIGN.md §7 C18.

use metrique_timesource::Time as _;
use metrique::CloseValue;
use metrique::timers::{EpochMicros, EpochMillis, EpochSeconds, OwnedTimerGuard, Stopwatch, Timer, Timestamp, TimestampOnClose};
use metrique_timesource::fakes::ManuallyAdvancedTimeSource;
use metrique_timesource::{TimeSource, set_time_source, time_source};
use metrique_writer::value::ValueFormatter;
use std::time::{Duration, Instant, UNIX_EPOCH};
use vcommon::recording::{Val, record_value};
use vcommon::serde_json::json;
use vcommon::sync::is_miri;
use vcommon::{Args, Fnv, Report, Rng};

#[derive(Clone, Copy, Debug, PartialEq, Eq)]
enum End {
    Stop,
    Drop,
    Discard,
    Overwrite,
    /// dropped by a panic unwinding through the guard's owner: a drop like any other
    DropUnwinding,
}
const ENDS: [End; 5] = [End::Stop, End::Drop, End::Discard, End::Overwrite, End::DropUnwinding];

/// payload of the panics this harness raises on purpose (silenced in the panic hook)
struct IntentionalPanic;

fn drop_by_unwinding<T>(x: T) {
    let r = std::panic::catch_unwind(std::panic::AssertUnwindSafe(move || {
        let _held = x;
        std::panic::panic_any(IntentionalPanic);
    }));
    assert!(r.is_err());
}

#[derive(Clone, Copy, Debug, PartialEq, Eq)]
enum Op {
    StartOwned,
    Advance,
    EndOwned(usize, End),
    /// start(); advance; end - a borrowed guard excludes every other use of the stopwatch
    Borrowed(End),
    Clear,
}

struct Model {
    now_ms: u64,
    total: Option<u64>,
    live: Vec<u64>, // start times of live owned guards
    step: u32,
}

impl Model {
    fn advance(&mut self) -> u64 {
        // distinct powers of two: every sum of spans identifies the spans it is made of
        let d = 1u64 << (self.step % 40);
        self.step += 1;
        self.now_ms += d;
        d
    }
    fn end(&mut self, start: u64, e: End) -> u64 {
        let span = self.now_ms - start;
        match e {
            End::Stop | End::Drop | End::DropUnwinding => self.total = Some(self.total.unwrap_or(0) + span),
            End::Discard => {}
            End::Overwrite => self.total = Some(span),
        }
        span
    }
}

fn run(ops: &[Op], rep: &Report) -> bool {
    let ts = ManuallyAdvancedTimeSource::at_time(UNIX_EPOCH);
    let mut sw = Stopwatch::new_from_timesource(TimeSource::custom(ts.clone()));
    let mut m = Model { now_ms: 0, total: None, live: vec![], step: 0 };
    let mut guards: Vec<OwnedTimerGuard> = vec![];
    for (i, op) in ops.iter().enumerate() {
        let mut stop_mismatch = None;
        match *op {
            Op::StartOwned => {
                guards.push(sw.start_owned());
                m.live.push(m.now_ms);
            }
            Op::Advance => {
                let d = m.advance();
                ts.update_instant(Duration::from_millis(d));
            }
            Op::EndOwned(k, e) => {
                let g = guards.remove(k);
                let start = m.live.remove(k);
                let span = m.end(start, e);
                match e {
                    End::Stop => {
                        let got = g.stop();
                        if got != Duration::from_millis(span) {
                            stop_mismatch = Some((got, span));
                        }
                    }
                    End::Drop => drop(g),
                    End::DropUnwinding => drop_by_unwinding(g),
                    End::Discard => g.discard(),
                    End::Overwrite => g.overwrite(),
                }
            }
            Op::Borrowed(e) => {
                let g = sw.start();
                let start = m.now_ms;
                let d = m.advance();
                ts.update_instant(Duration::from_millis(d));
                let span = m.end(start, e);
                match e {
                    End::Stop => {
                        let got = g.stop();
                        if got != Duration::from_millis(span) {
                            stop_mismatch = Some((got, span));
                        }
                    }
                    End::Drop | End::DropUnwinding => drop(g),
                    End::Discard => g.discard(),
                    End::Overwrite => g.overwrite(),
                }
            }
            Op::Clear => {
                sw.clear();
                m.total = None;
            }
        }
        let got = (&sw).close();
        let expect = m.total.map(Duration::from_millis);
        if got != expect || stop_mismatch.is_some() {
            rep.violation(
                if stop_mismatch.is_some() { "stop-returned-wrong-span" } else { "stopwatch-total-differs-from-reference" },
                json!({"ops": format!("{ops:?}"), "after_op_index": i, "op": format!("{op:?}"), "reported": format!("{got:?}"), "expected": format!("{expect:?}"),
                       "stop_mismatch": format!("{stop_mismatch:?}"), "what": "close(&stopwatch) must equal the sum of completed, non-discarded spans since the last clear/overwrite (None if there is none)"}),
            );
            return false;
        }
    }
    // closing by value (what emitting a #[metrics] struct does) agrees with closing by reference,
    // also while owned guards are still live
    let live_at_close = guards.len();
    let by_val = sw.close();
    let expect = m.total.map(Duration::from_millis);
    if by_val != expect {
        rep.violation(
            "stopwatch-total-differs-from-reference",
            json!({"ops": format!("{ops:?}"), "what": "closing the stopwatch BY VALUE at the end of the sequence must report the same total as closing it by reference",
                   "live_owned_guards_at_close": live_at_close, "reported": format!("{by_val:?}"), "expected": format!("{expect:?}")}),
        );
        return false;
    }
    drop(guards);
    true
}

/// a clock that moves by one millisecond every time it is read (a real clock moves between any two
/// readings): however many readings an operation takes, the span a stop() RETURNS is the span that
/// is accumulated
#[derive(Debug)]
struct TickingClock {
    t0: std::time::Instant,
    w0: std::time::SystemTime,
    readings: std::sync::atomic::AtomicU64,
}
impl metrique_timesource::Time for TickingClock {
    fn now(&self) -> std::time::SystemTime {
        self.w0 + Duration::from_millis(self.readings.fetch_add(1, std::sync::atomic::Ordering::SeqCst) + 1)
    }
    fn instant(&self) -> std::time::Instant {
        self.t0 + Duration::from_millis(self.readings.fetch_add(1, std::sync::atomic::Ordering::SeqCst) + 1)
    }
}

fn ticking_clock_case(rng: &mut Rng, rep: &Report) -> bool {
    rep.eval();
    let clock = std::sync::Arc::new(TickingClock { t0: std::time::Instant::now(), w0: UNIX_EPOCH + Duration::from_secs(1_000_000), readings: Default::default() });
    #[derive(Debug)]
    struct Shared(std::sync::Arc<TickingClock>);
    impl metrique_timesource::Time for Shared {
        fn now(&self) -> std::time::SystemTime {
            self.0.now()
        }
        fn instant(&self) -> std::time::Instant {
            self.0.instant()
        }
    }
    let mut sw = Stopwatch::new_from_timesource(TimeSource::custom(Shared(clock.clone())));
    let mut returned = Duration::ZERO;
    let mut any = false;
    let mut guards: Vec<OwnedTimerGuard> = vec![];
    let mut trace: Vec<String> = vec![];
    for _ in 0..2 + rng.below(10) {
        match rng.below(4) {
            0 if guards.len() < 3 => {
                guards.push(sw.start_owned());
                trace.push("start_owned".into());
            }
            1 if !guards.is_empty() => {
                let g = guards.swap_remove(rng.usize_below(guards.len()));
                let span = g.stop();
                returned += span;
                any = true;
                trace.push(format!("owned.stop() -> {span:?}"));
            }
            2 => {
                let g = sw.start();
                let span = g.stop();
                returned += span;
                any = true;
                trace.push(format!("borrowed.stop() -> {span:?}"));
            }
            _ => {
                let _ = clock.instant(); // time passes
                trace.push("tick".into());
            }
        }
        let got = (&sw).close();
        let expect = if any { Some(returned) } else { None };
        if got != expect {
            rep.violation(
                "stopwatch-total-differs-from-reference",
                json!({"what": "clock that advances 1 ms per reading; guards ended by stop() only: the stopwatch total must equal the sum of the spans the stop() calls returned",
                       "trace": trace, "reported": format!("{got:?}"), "sum_of_returned_spans": format!("{expect:?}")}),
            );
            return false;
        }
    }
    rep.count("ticking_clock_sequences", 1);
    true
}

/// the stopwatch is closed BY REFERENCE over and over while owned guards (all of zero length: the
/// clock stands still) are being stopped on another thread: every close must report the one
/// completed span
fn concurrent_close_round(rng: &mut Rng, rep: &Report) -> bool {
    let ts = ManuallyAdvancedTimeSource::at_time(UNIX_EPOCH);
    let mut sw = Stopwatch::new_from_timesource(TimeSource::custom(ts.clone()));
    let g = sw.start_owned();
    ts.update_instant(Duration::from_millis(1000));
    drop(g);
    let n = if is_miri() { 3 } else { 50 + rng.usize_below(400) };
    let guards: Vec<OwnedTimerGuard> = (0..n).map(|_| sw.start_owned()).collect();
    let done = std::sync::Arc::new(std::sync::atomic::AtomicBool::new(false));
    let d2 = done.clone();
    let stopper = std::thread::spawn(move || {
        for (i, g) in guards.into_iter().enumerate() {
            match i % 3 {
                0 => drop(g),
                1 => {
                    let _ = g.stop();
                }
                _ => g.discard(),
            }
        }
        d2.store(true, std::sync::atomic::Ordering::SeqCst);
    });
    let mut closes = 0u64;
    let mut bad = None;
    while !done.load(std::sync::atomic::Ordering::SeqCst) || closes < 3 {
        let got = (&sw).close();
        closes += 1;
        if got != Some(Duration::from_millis(1000)) {
            bad = Some(got);
            break;
        }
        if is_miri() {
            std::thread::yield_now();
        }
    }
    let _ = stopper.join();
    if let Some(got) = bad {
        rep.violation(
            "stopwatch-total-differs-from-reference",
            json!({"what": "close(&stopwatch) while zero-length owned guards were being stopped on another thread: the one completed span (1 s) must be reported by every close",
                   "close_number": closes, "reported": format!("{got:?}"), "expected": "Some(1s)", "owned_guards": n}),
        );
        return false;
    }
    rep.count("concurrent_closes_by_reference", closes);
    true
}

/// several owned guards of one stopwatch end at the same moment on different threads
fn concurrent_round(rng: &mut Rng, rep: &Report) -> bool {
    let ts = ManuallyAdvancedTimeSource::at_time(UNIX_EPOCH);
    let mut sw = Stopwatch::new_from_timesource(TimeSource::custom(ts.clone()));
    // some completed history first (possibly still in the exclusive representation)
    let mut expect: Option<u64> = None;
    if rng.bool() {
        let g = sw.start();
        ts.update_instant(Duration::from_millis(1 << 30));
        drop(g);
        expect = Some(1 << 30);
    }
    let n = if is_miri() { 2 } else { 2 + rng.usize_below(4) };
    let mut guards = vec![];
    for k in 0..n {
        guards.push((sw.start_owned(), k));
        ts.update_instant(Duration::from_millis(1 << k));
    }
    // guard k has been running for 2^k + ... + 2^(n-1) ms
    let gate = std::sync::Arc::new(std::sync::atomic::AtomicUsize::new(0));
    let ends: Vec<End> = (0..n).map(|_| *rng.pick(&[End::Stop, End::Stop, End::Drop, End::Discard])).collect();
    let threads: Vec<_> = guards
        .into_iter()
        .map(|(g, k)| {
            let (gate, e) = (gate.clone(), ends[k]);
            std::thread::spawn(move || {
                gate.fetch_add(1, std::sync::atomic::Ordering::SeqCst);
                let mut spins = 0u32;
                while gate.load(std::sync::atomic::Ordering::SeqCst) < n {
                    spins += 1;
                    if spins > 2000 || is_miri() {
                        std::thread::yield_now();
                    } else {
                        std::hint::spin_loop();
                    }
                }
                match e {
                    End::Stop => {
                        let _ = g.stop();
                    }
                    End::Drop => drop(g),
                    _ => g.discard(),
                }
            })
        })
        .collect();
    for t in threads {
        let _ = t.join();
    }
    for k in 0..n {
        if ends[k] != End::Discard {
            let span: u64 = (k..n).map(|j| 1u64 << j).sum();
            expect = Some(expect.unwrap_or(0) + span);
        }
    }
    let got = sw.close();
    let want = expect.map(Duration::from_millis);
    if got != want {
        rep.violation(
            "stopwatch-total-differs-from-reference",
            json!({"what": "owned guards of one stopwatch ended concurrently on separate threads (clock not advancing meanwhile): the total must be the sum of the completed, non-discarded spans",
                   "guards": n, "ends": format!("{ends:?}"), "reported": format!("{got:?}"), "expected": format!("{want:?}")}),
        );
        return false;
    }
    rep.count("concurrent_guard_rounds", 1);
    true
}

fn enabled(live: usize, max_live: usize) -> Vec<Op> {
    let mut v = vec![Op::Advance, Op::Clear];
    if live < max_live {
        v.push(Op::StartOwned);
    }
    for k in 0..live {
        for e in ENDS {
            v.push(Op::EndOwned(k, e));
        }
    }
    for e in [End::Stop, End::Drop, End::Discard, End::Overwrite] {
        v.push(Op::Borrowed(e));
    }
    v
}

fn dfs(prefix: &mut Vec<Op>, live: usize, depth: usize, max_live: usize, count: &mut u64, rep: &Report) -> bool {
    if depth == 0 {
        *count += 1;
        if *count % 50_021 == 1 {
            rep.sample(|| json!({"stopwatch_ops": format!("{prefix:?}")}));
        }
        return run(prefix, rep);
    }
    for op in enabled(live, max_live) {
        let live2 = match op {
            Op::StartOwned => live + 1,
            Op::EndOwned(..) => live - 1,
            _ => live,
        };
        prefix.push(op);
        let ok = dfs(prefix, live2, depth - 1, max_live, count, rep);
        prefix.pop();
        if !ok {
            return false;
        }
    }
    true
}

fn random_sequences(args: &Args, rep: &Report, budget: Duration) {
    let start = Instant::now();
    std::thread::scope(|s| {
        for lane in 0..args.get_u64("lanes", 8) {
            let rep = &rep;
            s.spawn(move || {
                let mut rng = Rng::derive(args.seed, lane);
                while start.elapsed() < budget && rep.violation_count() == 0 {
                    let len = 10 + rng.usize_below(190);
                    let mut ops = vec![];
                    let mut live = 0usize;
                    for _ in 0..len {
                        let en = enabled(live, 3);
                        let op = *rng.pick(&en);
                        match op {
                            Op::StartOwned => live += 1,
                            Op::EndOwned(..) => live -= 1,
                            _ => {}
                        }
                        ops.push(op);
                    }
                    rep.eval();
                    if !run(&ops, rep) {
                        return;
                    }
                    rep.count("random_sequences", 1);
                    for _ in 0..3 {
                        rep.eval();
                        if !concurrent_round(&mut rng, rep) {
                            return;
                        }
                    }
                    rep.eval();
                    if !concurrent_close_round(&mut rng, rep) {
                        return;
                    }
                    if !ticking_clock_case(&mut rng, rep) {
                        return;
                    }
                    rep.distinct(Fnv::new().str(&format!("{:?}", &ops[..12.min(ops.len())])).u64(len as u64).finish());
                }
            });
        }
    });
}

fn timers_and_timestamps(args: &Args, rep: &Report) {
    let mut rng = Rng::derive(args.seed, 0x18);
    for round in 0..args.get_u64("timer_rounds", args.by_tier(20_000, 200_000)) {
        rep.eval();
        let wall0 = UNIX_EPOCH + Duration::new(rng.below(4_000_000_000), rng.below(1_000_000_000) as u32);
        let ts = ManuallyAdvancedTimeSource::at_time(wall0);
        // Timer: creation -> first stop (or -> close); repeated stops change nothing
        let mut t = Timer::start_now_with_timesource(TimeSource::custom(ts.clone()));
        let mut elapsed = Duration::ZERO;
        let mut first_stop: Option<Duration> = None;
        for _ in 0..rng.below(5) {
            if rng.bool() {
                let d = Duration::from_nanos(rng.below(10_000_000_000));
                ts.update_instant(d);
                elapsed += d;
            } else {
                let got = t.stop();
                let expect = *first_stop.get_or_insert(elapsed);
                if got != expect {
                    rep.violation("timer-stop-wrong", json!({"round": round, "stop_returned": format!("{got:?}"), "expected": format!("{expect:?}")}));
                    return;
                }
            }
        }
        let closed = (&t).close();
        let expect = first_stop.unwrap_or(elapsed);
        if closed != expect || t.close() != expect {
            rep.violation("timer-close-wrong", json!({"round": round, "closed": format!("{closed:?}"), "expected": format!("{expect:?}"), "what": "a timer reports creation -> first stop, or -> close if never stopped"}));
            return;
        }
        // Timestamp (at creation) and TimestampOnClose (at close), in every epoch unit
        let wall1 = UNIX_EPOCH + Duration::new(rng.below(4_000_000_000), rng.below(1_000_000_000) as u32);
        let stamp = Timestamp::new_from_time_source(TimeSource::custom(ts.clone()));
        let on_close = {
            let _g = set_time_source(TimeSource::custom(ts.clone()));
            TimestampOnClose::default()
        };
        ts.update_time(wall1);
        let v_created = stamp.close();
        let v_closed = on_close.close();
        for (what, v, wall) in [("Timestamp", v_created, wall0), ("TimestampOnClose", v_closed, wall1)] {
            let d = wall.duration_since(UNIX_EPOCH).unwrap();
            if v.duration_since_epoch() != d {
                rep.violation("timestamp-wrong-instant", json!({"kind": what, "reported": format!("{:?}", v.duration_since_epoch()), "expected": format!("{d:?}")}));
                return;
            }
            let fmt = |f: &dyn Fn(&mut Option<Val>)| {
                let mut slot = None;
                f(&mut slot);
                slot
            };
            struct W<'a>(&'a mut Option<Val>);
            impl metrique_writer::ValueWriter for W<'_> {
                fn string(self, value: &str) {
                    *self.0 = Some(Val::String(value.to_string()));
                }
                fn metric<'a>(self, _d: impl IntoIterator<Item = metrique_writer::Observation>, _u: metrique_writer::Unit, _dims: impl IntoIterator<Item = (&'a str, &'a str)>, _f: metrique_writer::MetricFlags<'_>) {
                    *self.0 = Some(Val::Nothing);
                }
                fn error(self, e: metrique_writer::ValidationError) {
                    *self.0 = Some(Val::Error(e.to_string()));
                }
            }
            let micros = fmt(&|s| EpochMicros::format_value(W(s), &v));
            let millis = fmt(&|s| EpochMillis::format_value(W(s), &v));
            let secs = fmt(&|s| EpochSeconds::format_value(W(s), &v));
            let default = Some(record_value(&v));
            let ok_micros = micros == Some(Val::String(d.as_micros().to_string()));
            let as_f = |x: &Option<Val>| match x {
                Some(Val::String(s)) => s.parse::<f64>().ok(),
                _ => None,
            };
            let ok_millis = as_f(&millis) == Some(d.as_secs_f64() * 1000.0) && as_f(&default) == Some(d.as_secs_f64() * 1000.0);
            let ok_secs = as_f(&secs) == Some(d.as_secs_f64());
            if !(ok_micros && ok_millis && ok_secs) {
                rep.violation(
                    "timestamp-format-wrong",
                    json!({"kind": what, "instant": format!("{d:?}"), "micros": format!("{micros:?}"), "millis": format!("{millis:?}"), "seconds": format!("{secs:?}"), "default": format!("{default:?}")}),
                );
                return;
            }
        }
        if round % 997 == 0 {
            rep.distinct(Fnv::new().str("timer").u64(round).finish());
        }
    }
    // time-source resolution order: explicit > thread-local > runtime > system
    let a = ManuallyAdvancedTimeSource::at_time(UNIX_EPOCH + Duration::from_secs(111));
    let b = ManuallyAdvancedTimeSource::at_time(UNIX_EPOCH + Duration::from_secs(222));
    let c = ManuallyAdvancedTimeSource::at_time(UNIX_EPOCH + Duration::from_secs(333));
    let rt = tokio::runtime::Builder::new_current_thread().build().unwrap();
    let secs = |ts: TimeSource| ts.system_time().duration_since(UNIX_EPOCH).unwrap().as_secs();
    let mut observed = vec![];
    {
        let _rt_guard = metrique_timesource::tokio::set_time_source_for_runtime(rt.handle(), TimeSource::custom(c.clone()));
        rt.block_on(async {
            observed.push(("runtime only", secs(time_source()), 333));
            let _tl = set_time_source(TimeSource::custom(b.clone()));
            observed.push(("thread-local over runtime", secs(time_source()), 222));
            observed.push(("explicit over both", secs(metrique_timesource::get_time_source(Some(TimeSource::custom(a.clone())))), 111));
            drop(_tl);
            observed.push(("runtime again after the thread-local guard dropped", secs(time_source()), 333));
        });
    }
    // values created under source A report A's clock also when they are closed where another
    // override is in force (another thread's thread-local source, a nested scope)
    {
        let (timer, ts, on_close, sw_guard) = {
            let _g = set_time_source(TimeSource::custom(a.clone()));
            let mut sw = Stopwatch::new();
            let g = sw.start_owned();
            (Timer::start_now(), Timestamp::now(), TimestampOnClose::default(), (sw, g))
        };
        a.update_instant(Duration::from_secs(10));
        a.update_time(UNIX_EPOCH + Duration::from_secs(121));
        let (mut sw, g) = sw_guard;
        let closer = std::thread::spawn({
            let b = b.clone();
            move || {
                let _g = set_time_source(TimeSource::custom(b));
                let span = g.stop();
                (timer.close(), ts.close(), on_close.close(), span)
            }
        });
        let (t, created, closed, span) = closer.join().expect("closer thread");
        let epoch = |v: &metrique::timers::TimestampValue| match record_value(v) {
            Val::String(s) => s.parse::<f64>().ok(),
            _ => None,
        };
        rep.eval();
        let got = json!({"timer": format!("{t:?}"), "owned_guard_span": format!("{span:?}"), "stopwatch": format!("{:?}", (&sw).close()), "timestamp_ms": epoch(&created), "timestamp_on_close_ms": epoch(&closed)});
        let want = json!({"timer": format!("{:?}", Duration::from_secs(10)), "owned_guard_span": format!("{:?}", Duration::from_secs(10)), "stopwatch": format!("{:?}", Some(Duration::from_secs(10))), "timestamp_ms": 111_000.0, "timestamp_on_close_ms": 121_000.0});
        if got != want {
            rep.violation(
                "closed-under-another-time-source",
                json!({"what": "timer / timestamps / stopwatch created under injected source A (wall clock 111 s, then advanced by 10 s) and closed on a thread whose thread-local source is B (222 s): every value must come from A",
                       "got": got, "expected": want}),
            );
            return;
        }
        let _ = sw.start();
        rep.distinct(Fnv::new().str("closed-under-other-source").finish());
    }
    // nested thread-local injections: when the inner one ends, the OUTER one is in force again
    // (not the system clock), for lookups and for values created afterwards
    {
        let d = ManuallyAdvancedTimeSource::at_time(UNIX_EPOCH + Duration::from_secs(444));
        let e = ManuallyAdvancedTimeSource::at_time(UNIX_EPOCH + Duration::from_secs(555));
        let _outer = set_time_source(TimeSource::custom(d.clone()));
        observed.push(("outer thread-local", secs(time_source()), 444));
        {
            let _inner = set_time_source(TimeSource::custom(e.clone()));
            observed.push(("inner thread-local over outer", secs(time_source()), 555));
        }
        observed.push(("outer again after the inner guard dropped", secs(time_source()), 444));
        metrique_timesource::with_time_source(TimeSource::custom(e.clone()), || observed.push(("inside with_time_source over outer", secs(time_source()), 555)));
        observed.push(("outer again after with_time_source returned", secs(time_source()), 444));
        let timer = Timer::start_now();
        let mut sw = Stopwatch::new();
        let g = sw.start_owned();
        let on_close = TimestampOnClose::default();
        d.update_instant(Duration::from_secs(2));
        d.update_time(UNIX_EPOCH + Duration::from_secs(446));
        let span = g.stop();
        let epoch = |v: &metrique::timers::TimestampValue| match record_value(v) {
            Val::String(s) => s.parse::<f64>().ok(),
            _ => None,
        };
        rep.eval();
        let got = json!({"timer": format!("{:?}", timer.close()), "owned_guard_span": format!("{span:?}"), "stopwatch": format!("{:?}", sw.close()), "timestamp_on_close_ms": epoch(&on_close.close())});
        let want = json!({"timer": format!("{:?}", Duration::from_secs(2)), "owned_guard_span": format!("{:?}", Duration::from_secs(2)), "stopwatch": format!("{:?}", Some(Duration::from_secs(2))), "timestamp_on_close_ms": 446_000.0});
        if got != want {
            rep.violation(
                "created-under-the-wrong-time-source",
                json!({"what": "outer injected source D (444 s) in force, an inner injection came and went; timer / stopwatch / timestamp-on-close created afterwards, D advanced by 2 s: every value must come from D",
                       "got": got, "expected": want}),
            );
            return;
        }
    }
    let sys = secs(time_source());
    let real = std::time::SystemTime::now().duration_since(UNIX_EPOCH).unwrap().as_secs();
    rep.eval();
    for (what, got, expect) in &observed {
        if got != expect {
            rep.violation("time-source-resolution-order", json!({"case": what, "got_epoch_secs": got, "expected": expect}));
            return;
        }
    }
    if sys.abs_diff(real) > 5 {
        rep.violation("time-source-resolution-order", json!({"case": "system default after all overrides dropped", "got_epoch_secs": sys, "real": real}));
    }
    rep.distinct(Fnv::new().str("resolution-order").finish());
}

fn main() {
    let args = Args::parse();
    let rep = Report::new("C18", &args);
    let default_hook = std::panic::take_hook();
    std::panic::set_hook(Box::new(move |info| {
        if !info.payload().is::<IntentionalPanic>() {
            default_hook(info);
        }
    }));
    if is_miri() || args.get_u64("tiny", 0) == 1 {
        rep.rule("owned guards of one stopwatch ended concurrently on separate threads, closes by reference racing with guards being stopped on another thread, and short random op sequences, under the interpreter/sanitizer");
        let mut rng = Rng::derive(args.seed, args.get_u64("variant", 0));
        for i in 0..args.get_u64("rounds", 4) {
            rep.eval();
            if !concurrent_round(&mut rng, &rep) || !concurrent_close_round(&mut rng, &rep) {
                break;
            }
            rep.distinct(Fnv::new().str("conc").u64(i).finish());
            let ops: Vec<Op> = {
                let mut ops = vec![];
                let mut live = 0usize;
                for _ in 0..12 {
                    let op = *rng.pick(&enabled(live, 3));
                    match op {
                        Op::StartOwned => live += 1,
                        Op::EndOwned(..) => live -= 1,
                        _ => {}
                    }
                    ops.push(op);
                }
                ops
            };
            rep.eval();
            if !run(&ops, &rep) {
                break;
            }
            rep.distinct(Fnv::new().str(&format!("{ops:?}")).finish());
        }
        println!("OUTCOME variant={} rounds={} closes_seen_during_the_races={}", args.get_u64("variant", 0), rep.counter("concurrent_guard_rounds"), rep.counter("concurrent_closes_by_reference"));
        rep.finish_and_exit();
    }
    rep.rule(
        "stopwatch op sequences over a ManuallyAdvancedTimeSource: start_owned (up to 2 live in the exhaustive part, 3 in the random part), advance (by distinct powers of two, so a total identifies its spans), \
         stop/drop/discard/overwrite of any live owned guard, a borrowed guard (start, advance, end), clear. EVERY sequence up to length L, plus random ones up to length 200; after every prefix close(&stopwatch) \
         must equal the reference total, and so must closing BY VALUE at the end (owned guards possibly still live). Rounds of 2-5 owned guards ended at the same moment on separate threads (stop/drop/discard). Timers (creation -> first stop / close, repeated stops), Timestamp / TimestampOnClose in EpochSeconds/Millis/Micros, and the time-source resolution order. \
         distinct = distinct op sequences",
    );
    let depth = args.get_u64("depth", args.by_tier(6, 7)) as usize;
    // parallel exhaustive enumeration: split on the first two ops
    let mut prefixes: Vec<(Vec<Op>, usize)> = vec![];
    for a in enabled(0, 2) {
        let la = matches!(a, Op::StartOwned) as usize;
        for b in enabled(la, 2) {
            let lb = match b {
                Op::StartOwned => la + 1,
                Op::EndOwned(..) => la - 1,
                _ => la,
            };
            prefixes.push((vec![a, b], lb));
        }
    }
    let idx = std::sync::atomic::AtomicUsize::new(0);
    let total = std::sync::atomic::AtomicU64::new(0);
    std::thread::scope(|s| {
        for _ in 0..14 {
            s.spawn(|| loop {
                let i = idx.fetch_add(1, std::sync::atomic::Ordering::SeqCst);
                if i >= prefixes.len() || rep.violation_count() > 0 {
                    break;
                }
                let (p, live) = &prefixes[i];
                let mut p = p.clone();
                let mut c = 0;
                dfs(&mut p, *live, depth - 2, 2, &mut c, &rep);
                total.fetch_add(c, std::sync::atomic::Ordering::SeqCst);
            });
        }
    });
    let n = total.load(std::sync::atomic::Ordering::SeqCst);
    rep.eval_n(n);
    rep.set("exhaustive_sequences", n);
    rep.set("exhaustive_length", depth as u64);
    rep.distinct_many((0..n.min(100_000)).map(|i| Fnv::new().str("seq").u64(i).finish()));
    if rep.violation_count() == 0 {
        random_sequences(&args, &rep, Duration::from_secs(args.get_u64("secs", args.by_tier(5, 60))));
    }
    if rep.violation_count() == 0 {
        timers_and_timestamps(&args, &rep);
    }
    rep.finish_and_exit();
}
