//! C09 — a full queue never blocks: it drops the oldest entry, keeps order, counts losses.
//!
//! (a) sequential, deterministic histories against a reference ring (exact equality),
//! (b) concurrent histories checked with constraints true in every linearization.
//! See DESIGN.md §7 C09.

use checks::recorder::{CountingRecorder, Counts};
use metrique_writer::EntrySink;
use metrique_writer::sink::{BackgroundQueue, BackgroundQueueBuilder};
use std::collections::{HashMap, HashSet, VecDeque};
use std::sync::atomic::{AtomicBool, AtomicU64, Ordering};
use std::sync::Arc;
use vcommon::sync::SpinGate as Barrier;
use std::time::{Duration, Instant};
use vcommon::serde_json::{Value, json};
use vcommon::stream::{Ev, IdEntry, StreamShared, id_producer, id_seq, make_id};
use vcommon::sync::{default_stall, is_miri, progress_wait, ticket, ticket_now};
use vcommon::{Args, Fnv, Report, Rng};

fn build(
    sh: &Arc<StreamShared>,
    capacity: usize,
    flush_us: u64,
) -> (BackgroundQueue<IdEntry>, metrique_writer::sink::BackgroundQueueJoinHandle, Arc<Counts>) {
    let counts = Arc::new(Counts::default());
    // the capacity is set first, last or in the middle of the other builder calls
    let b = BackgroundQueueBuilder::new();
    let b = match (capacity + flush_us as usize) % 3 {
        0 => b.capacity(capacity).thread_name("c09-writer").metric_name("c09").shutdown_timeout(Duration::from_secs(20)).flush_interval(Duration::from_micros(flush_us)),
        1 => b.thread_name("c09-writer").flush_interval(Duration::from_micros(flush_us)).capacity(capacity).metric_name("c09"),
        _ => b.flush_interval(Duration::from_micros(flush_us)).metric_name("c09").shutdown_timeout(Duration::from_secs(20)).thread_name("c09-writer").capacity(capacity),
    };
    let (q, h) = b.metrics_recorder_local::<dyn metrics::Recorder, _>(CountingRecorder(counts.clone())).build::<IdEntry>(sh.stream());
    (q, h, counts)
}

/// Runs `f` on its own thread; returns None if it made no progress (ticket counter) for the stall
/// period, i.e. something inside blocked.
fn run_guarded<T: Send + 'static>(f: impl FnOnce() -> T + Send + 'static) -> Option<T> {
    let done = Arc::new(AtomicBool::new(false));
    let d2 = done.clone();
    let t = std::thread::spawn(move || {
        let r = f();
        d2.store(true, Ordering::SeqCst);
        r
    });
    if progress_wait(|| done.load(Ordering::SeqCst), default_stall()) {
        t.join().ok()
    } else {
        None // thread is leaked on purpose: it is stuck
    }
}

// ------------------------------------------------------------------------------------------
// (a) sequential

#[derive(Clone, Debug)]
struct SeqPlan {
    capacity: usize,
    /// (burst size, next calls to let through)
    rounds: Vec<(u32, u32)>,
    flush_us: u64,
}

fn seq_history(plan: &SeqPlan, rep: &Report) -> Option<u64> {
    let plan2 = plan.clone();
    let open_call = Arc::new(AtomicU64::new(0));
    let oc = open_call.clone();
    let result = run_guarded(move || seq_history_inner(&plan2, &oc));
    match result {
        None => {
            let id = open_call.load(Ordering::SeqCst);
            rep.violation(
                "append-blocked",
                json!({"plan": format!("{plan:?}"),
                       "evidence": if id != 0 { format!("append call of id {:#x} is open (called, not returned) while the writer is blocked at the stream gate; no ticket progress for the stall period", id) }
                                   else { "history made no progress; no append call open (harness wait)".to_string() }}),
            );
            None
        }
        Some(Err(msg)) => {
            rep.inconclusive(&format!("sequential protocol could not be established: {msg}"));
            None
        }
        Some(Ok((expected, displaced, log, overflows, stalled_mismatch))) => {
            let got: Vec<u64> = log.iter().filter_map(|e| e.id()).collect();
            let witness = |what: &str| {
                json!({"what": what, "plan": format!("{plan:?}"),
                   "expected_stream": expected.iter().map(|i| id_seq(*i)).collect::<Vec<_>>(),
                   "observed_stream": got.iter().map(|i| id_seq(*i)).collect::<Vec<_>>(),
                   "expected_displaced": displaced, "overflow_counter": overflows})
            };
            let mut ok = true;
            if got != expected {
                let kind = if got.len() == expected.len() && {
                    let a: HashSet<_> = got.iter().collect();
                    let b: HashSet<_> = expected.iter().collect();
                    a == b
                } {
                    "order-differs-from-reference-ring"
                } else {
                    "delivered-set-differs-from-reference-ring"
                };
                rep.violation(kind, witness("stream log differs from the displace-oldest reference ring"));
                ok = false;
            }
            if overflows != displaced {
                rep.violation("overflow-counter-mismatch", witness("metrique_queue_overflows != number of displaced entries"));
                ok = false;
            }
            if let Some((counter, discarded, appended)) = stalled_mismatch {
                rep.violation(
                    "overflow-counter-mismatch-while-writer-stalled",
                    json!({"what": "writer completely stalled (blocked inside next() with one entry in hand), all appends of the burst returned: the overflow counter at the recorder differs from the number of entries discarded so far",
                           "plan": format!("{plan:?}"), "counter_at_recorder": counter, "discarded_so_far": discarded, "appended_so_far": appended, "counter_after_shutdown": overflows}),
                );
                ok = false;
            }
            rep.count("seq_entries_appended", (expected.len() as u64) + displaced);
            rep.count("seq_entries_displaced", displaced);
            if ok {
                let mut h = Fnv::new();
                h.u64(plan.capacity as u64);
                for (b, k) in &plan.rounds {
                    h.u64(*b as u64).u64(*k as u64);
                }
                Some(h.finish())
            } else {
                None
            }
        }
    }
}

/// (.., first (counter, displaced, appended) seen to disagree while the writer was stalled)
type SeqOut = Result<(Vec<u64>, u64, Vec<Ev>, u64, Option<(u64, u64, u32)>), String>;

fn seq_history_inner(plan: &SeqPlan, open_call: &AtomicU64) -> SeqOut {
    let sh = StreamShared::new(1);
    sh.set_fuel(Some(0));
    // in half of the histories the stream answers every third entry or so with an I/O error (of
    // varying kind): the entry was handed over all the same, nothing else may change
    if plan.capacity % 2 == 1 || plan.rounds.len() % 2 == 0 {
        sh.set_script(|k| match k {
            vcommon::stream::EntryKind::Id(id) if Fnv::new().u64(*id).finish() % 3 == 0 => vcommon::stream::Outcome::Io,
            _ => vcommon::stream::Outcome::Ok,
        });
    }
    let (q, handle, counts) = build(&sh, plan.capacity, plan.flush_us);
    let c = plan.capacity;
    let mut ring: VecDeque<u64> = VecDeque::new();
    let mut in_hand: Option<u64> = None;
    let mut expected: Vec<u64> = vec![];
    let mut displaced = 0u64;
    let mut seq = 0u32;
    let mut delivered_total = 0u64;
    let mut stalled_mismatch: Option<(u64, u64, u32)> = None;
    let stall = default_stall();
    let append = |seq: &mut u32| -> u64 {
        let id = make_id(0, *seq);
        *seq += 1;
        open_call.store(id, Ordering::SeqCst);
        ticket();
        q.append(IdEntry { id });
        vcommon::sync::progress_tick();
        open_call.store(0, Ordering::SeqCst);
        id
    };
    for (burst, k) in &plan.rounds {
        for _ in 0..*burst {
            if in_hand.is_none() && ring.is_empty() {
                // establish the invariant "writer blocked in next() holding one popped entry"
                let id = append(&mut seq);
                if !progress_wait(|| sh.blocked_next.load(Ordering::SeqCst), stall) {
                    return Err("writer never picked up the first entry".into());
                }
                in_hand = Some(id);
                continue;
            }
            let id = append(&mut seq);
            if ring.len() == c {
                ring.pop_front();
                displaced += 1;
            }
            ring.push_back(id);
        }
        // the writer is completely stalled (blocked in next() with one entry in hand) and every
        // append of the burst has returned: the counter must already equal the discards
        if in_hand.is_some() && stalled_mismatch.is_none() {
            let now = counts.counter("metrique_queue_overflows");
            if now != displaced {
                stalled_mismatch = Some((now, displaced, seq));
            }
        }
        // let exactly k' next calls complete (never more than what is available)
        let avail = in_hand.is_some() as u32 + ring.len() as u32;
        let k = (*k).min(avail);
        if k > 0 {
            for _ in 0..k {
                expected.push(in_hand.take().expect("in hand"));
                in_hand = ring.pop_front();
                delivered_total += 1;
            }
            sh.add_fuel(k as u64);
            if !progress_wait(|| sh.consumed_ids.load(Ordering::SeqCst) == delivered_total, stall) {
                return Err(format!(
                    "writer did not complete {k} next calls (consumed {} of {delivered_total})",
                    sh.consumed_ids.load(Ordering::SeqCst)
                ));
            }
            if in_hand.is_some()
                && !progress_wait(|| sh.blocked_next.load(Ordering::SeqCst), stall)
            {
                return Err("writer did not block again with an entry in hand".into());
            }
        }
    }
    // quiescence: release everything, shut down drains the rest in order
    expected.extend(in_hand.take());
    expected.extend(ring.drain(..));
    sh.open_all();
    drop(q);
    handle.shut_down();
    Ok((expected, displaced, sh.log(), counts.counter("metrique_queue_overflows"), stalled_mismatch))
}

fn gen_seq_plan(rng: &mut Rng) -> SeqPlan {
    let capacity = if is_miri() || rng.below(12) != 0 { *rng.pick(&[1usize, 1, 2, 2, 3, 4, 7, 8, 16, 33]) } else { *rng.pick(&[100usize, 1000, 1024, 5000]) };
    let rounds = (0..1 + rng.below(6))
        .map(|_| {
            let burst = match rng.below(4) {
                0 => rng.below(3),
                1 => capacity as u64 + rng.below(3),
                2 => rng.below(2 * capacity as u64 + 3),
                _ => rng.below(3 * capacity as u64 + 40),
            } as u32;
            let k = match rng.below(3) {
                0 => 0,
                1 => 1 + rng.below(3),
                _ => rng.below(capacity as u64 + 3),
            } as u32;
            (burst, k)
        })
        .collect();
    SeqPlan { capacity, rounds, flush_us: *rng.pick(&[1u64, 100, 5000, 50_000]) }
}

// ------------------------------------------------------------------------------------------
// (b) concurrent

#[derive(Clone, Debug)]
struct ConcPlan {
    capacity: usize,
    producers: u32,
    per: u32,
    /// 0 = stalled until producers finish, 1 = slow, 2 = free running
    writer: u8,
    flush_us: u64,
    /// per mille of entries for which the stream reports an I/O error (they still count as handed over)
    err_pm: u64,
    /// per mille of appends after which the producer also requests a flush (the future is not awaited)
    flush_pm: u64,
    seed: u64,
}

fn conc_history(plan: &ConcPlan, rep: &Report) -> Option<u64> {
    let p2 = plan.clone();
    let open_calls = Arc::new(AtomicU64::new(0));
    let oc = open_calls.clone();
    let out = run_guarded(move || conc_inner(&p2, &oc));
    let Some((calls, log, overflows)) = out else {
        rep.violation(
            "append-blocked",
            json!({"plan": format!("{plan:?}"),
                   "evidence": format!("{} append calls open (called, not returned); no ticket progress for the stall period; writer mode {}", open_calls.load(Ordering::SeqCst), plan.writer)}),
        );
        return None;
    };
    let witness = |what: &str, extra: Value| {
        json!({"what": what, "plan": format!("{plan:?}"), "extra": extra,
               "overflow_counter": overflows, "appended": calls.len(),
               "delivered": log.iter().filter(|e| e.id().is_some()).count()})
    };
    let mut ok = true;
    // per-producer order + no duplicates among what was delivered
    let mut last: HashMap<u32, u32> = HashMap::new();
    let mut delivered: HashSet<u64> = HashSet::new();
    let mut sig = Fnv::new();
    for ev in &log {
        if let Some(id) = ev.id() {
            let (p, s) = (id_producer(id), id_seq(id));
            sig.u64(p as u64);
            if !delivered.insert(id) {
                rep.violation("entry-duplicated", witness("delivered twice", json!({"producer": p, "seq": s})));
                ok = false;
            }
            if let Some(prev) = last.get(&p) {
                if s <= *prev {
                    rep.violation("per-producer-order", witness("delivered out of append order", json!({"producer": p, "seq": s, "previous": prev})));
                    ok = false;
                }
            }
            last.insert(p, s);
        }
    }
    let appended: HashSet<u64> = calls.iter().map(|c| c.0).collect();
    if !delivered.is_subset(&appended) {
        rep.violation("unknown-id", witness("stream saw an id nobody appended", json!({})));
        ok = false;
    }
    // conservation at quiescence
    let lost: Vec<&(u64, u64, u64)> = calls.iter().filter(|c| !delivered.contains(&c.0)).collect();
    if lost.len() as u64 != overflows {
        rep.violation(
            "conservation",
            witness("appended != delivered + overflow counter", json!({"lost": lost.len(), "overflow_counter": overflows})),
        );
        ok = false;
    }
    // a lost entry must have been followed by >= capacity appends
    let mut returns: Vec<u64> = calls.iter().map(|c| c.2).collect();
    returns.sort_unstable();
    for (id, call, _ret) in lost.iter().copied() {
        let later = returns.len() - returns.partition_point(|r| *r <= *call);
        // `later` counts x's own return as well
        if (later as i64 - 1) < plan.capacity as i64 {
            rep.violation(
                "lost-without-being-displaced",
                witness(
                    "an entry was lost although fewer than `capacity` appends returned after its append was called",
                    json!({"producer": id_producer(*id), "seq": id_seq(*id), "later_appends": later - 1, "capacity": plan.capacity}),
                ),
            );
            ok = false;
            break;
        }
    }
    rep.count("conc_entries_appended", calls.len() as u64);
    rep.count("conc_entries_lost", lost.len() as u64);
    if ok { Some(sig.u64(lost.len() as u64).finish()) } else { None }
}

fn conc_inner(plan: &ConcPlan, open_calls: &Arc<AtomicU64>) -> (Vec<(u64, u64, u64)>, Vec<Ev>, u64) {
    let sh = StreamShared::new(plan.seed);
    match plan.writer {
        0 => sh.set_fuel(Some(0)),
        1 => sh.delay_per_mille.store(900, Ordering::Relaxed),
        _ => {}
    }
    if plan.err_pm > 0 {
        let pm = plan.err_pm;
        sh.set_script(move |k| match k {
            vcommon::stream::EntryKind::Id(id) if Fnv::new().u64(*id).finish() % 1000 < pm => vcommon::stream::Outcome::Io,
            _ => vcommon::stream::Outcome::Ok,
        });
    }
    let (q, handle, counts) = build(&sh, plan.capacity, plan.flush_us);
    let barrier = Arc::new(Barrier::new(plan.producers as usize));
    let flush_pm = plan.flush_pm;
    let mut threads = vec![];
    for prod in 0..plan.producers {
        let q = q.clone();
        let barrier = barrier.clone();
        let per = plan.per;
        let oc = open_calls.clone();
        let seed = plan.seed;
        threads.push(std::thread::spawn(move || {
            let mut rng = Rng::derive(seed, prod as u64);
            let mut calls = Vec::with_capacity(per as usize);
            barrier.wait();
            for seq in 0..per {
                let id = make_id(prod, seq);
                oc.fetch_add(1, Ordering::SeqCst);
                let call = ticket();
                q.append(IdEntry { id });
                let ret = ticket();
                vcommon::sync::progress_tick();
                oc.fetch_sub(1, Ordering::SeqCst);
                calls.push((id, call, ret));
                if rng.below(1000) < flush_pm {
                    drop(q.flush_async()); // the request stays pending with the writer
                }
                if rng.below(16) == 0 {
                    std::thread::yield_now();
                }
            }
            calls
        }));
    }
    let mut calls = vec![];
    for t in threads {
        calls.extend(t.join().expect("producer panicked"));
    }
    // the gate is opened only after every producer has finished: nobody waited for the writer
    sh.open_all();
    drop(q);
    handle.shut_down();
    let _ = ticket_now();
    (calls, sh.log(), counts.counter("metrique_queue_overflows"))
}

fn gen_conc_plan(rng: &mut Rng, thorough: bool) -> ConcPlan {
    let capacity = *rng.pick(&[1usize, 2, 3, 4, 8, 16, 64, 256, 1000, 4096]);
    ConcPlan {
        capacity,
        producers: 1 + rng.below(6) as u32,
        per: (1 + rng.below(if thorough { 3000 } else { 800 })) as u32,
        writer: rng.below(3) as u8,
        flush_us: *rng.pick(&[1u64, 100, 5000, 50_000]),
        err_pm: *rng.pick(&[0u64, 0, 100, 500]),
        flush_pm: *rng.pick(&[0u64, 0, 5, 100]),
        seed: rng.next_u64(),
    }
}

/// an entry type of 16 KiB (inline): the ring must still hold `capacity` of them
struct BigEntry {
    id: u64,
    #[allow(dead_code)]
    pad: [u8; 16_384],
}
impl metrique_writer::Entry for BigEntry {
    fn write<'a>(&'a self, writer: &mut impl metrique_writer::EntryWriter<'a>) {
        writer.value("id", &self.id);
    }
}

/// Configurations the random histories do not reach: (i) two queues with different names that
/// report to the GLOBAL metrics recorder - each queue's losses under its own name; (ii) a queue of
/// large entries with a large capacity. Both with a writer held at the gate, so the expected
/// number of discards is exact.
fn configuration_scenarios(rep: &Report) {
    // (i)
    let global = Arc::new(Counts::default());
    if metrics::set_global_recorder(CountingRecorder(global.clone())).is_ok() {
        rep.eval();
        let mut expected = vec![];
        let mut queues = vec![];
        for (name, capacity, extra) in [("verif_queue_a", 4usize, 7u32), ("verif_queue_b", 9, 22), ("verif_queue_c", 3, 0)] {
            let sh = StreamShared::new(1);
            sh.set_fuel(Some(0));
            let (q, h) = BackgroundQueueBuilder::new()
                .capacity(capacity)
                .flush_interval(Duration::from_micros(100))
                .metric_name(name)
                .metrics_recorder_global::<dyn metrics::Recorder>()
                .build::<IdEntry>(sh.stream());
            // one entry in the writer's hand, `capacity` in the ring, `extra` more: exactly `extra` are displaced
            q.append(IdEntry::new(0, 0));
            let _ = progress_wait(|| sh.blocked_next.load(Ordering::SeqCst), default_stall());
            for s in 1..=(capacity as u32 + extra) {
                q.append(IdEntry::new(0, s));
            }
            expected.push((name, extra as u64, capacity as u64 + 1));
            queues.push((sh, q, h));
        }
        let mut delivered = vec![];
        for (sh, q, h) in queues {
            sh.open_all();
            drop(q);
            h.shut_down();
            delivered.push(sh.log().iter().filter(|e| e.id().is_some()).count() as u64);
        }
        for ((name, lost, kept), got_delivered) in expected.iter().zip(&delivered) {
            let counted = global.counter_with_label_value("metrique_queue_overflows", name);
            if counted != *lost || got_delivered != kept {
                rep.violation(
                    "overflow-counter-differs-from-discards",
                    json!({"what": "several named queues reporting to the global metrics recorder, writers held: each queue's overflow counter (the one labelled with its name) must equal the number of entries it discarded",
                           "queue": name, "discarded": lost, "counter_labelled_with_queue_name": counted, "delivered": got_delivered, "expected_delivered": kept,
                           "label_sets_of_the_counter": global.label_sets("metrique_queue_overflows"), "sum_over_all_labels": global.counter("metrique_queue_overflows")}),
                );
                return;
            }
        }
        rep.count("global_recorder_queues_checked", expected.len() as u64);
        rep.distinct(Fnv::new().str("global-recorder").finish());
    }
    // (ii)
    rep.eval();
    let capacity = 8192usize;
    let sh = StreamShared::new(2);
    sh.set_fuel(Some(0));
    let counts = Arc::new(Counts::default());
    let (q, h) = BackgroundQueueBuilder::new()
        .capacity(capacity)
        .flush_interval(Duration::from_micros(100))
        .metrics_recorder_local::<dyn metrics::Recorder, _>(CountingRecorder(counts.clone()))
        .build::<BigEntry>(sh.stream());
    q.append(BigEntry { id: make_id(0, 0), pad: [0; 16_384] });
    let _ = progress_wait(|| sh.blocked_next.load(Ordering::SeqCst), default_stall());
    for s in 1..=capacity as u32 {
        q.append(BigEntry { id: make_id(0, s), pad: [s as u8; 16_384] });
    }
    sh.open_all();
    drop(q);
    h.shut_down();
    let ids: Vec<u64> = sh.log().iter().filter_map(|e| e.id()).collect();
    let overflows = counts.counter("metrique_queue_overflows");
    let in_order = ids.windows(2).all(|w| w[0] < w[1]);
    if ids.len() != capacity + 1 || overflows != 0 || !in_order {
        rep.violation(
            "lost-without-being-displaced",
            json!({"what": "16 KiB entries, capacity 8192, writer held with one entry in hand, exactly `capacity` more appended: nothing may be discarded",
                   "delivered": ids.len(), "expected": capacity + 1, "overflow_counter": overflows, "in_order": in_order, "first_missing": (0..=capacity as u32).find(|s| !ids.contains(&make_id(0, *s)))}),
        );
        return;
    }
    rep.count("large_entry_scenarios", 1);
    rep.distinct(Fnv::new().str("large-entries").finish());
    // (iii) a full queue whose join handle is being dropped (the writer is still held, so the
    // shutdown drain has not happened) while another thread keeps appending: those appends still
    // displace entries the drain would have written, and every displacement is counted
    for (capacity, extra) in [(4usize, 4u32), (1, 3), (16, 40)] {
        rep.eval();
        let sh = StreamShared::new(3);
        sh.set_fuel(Some(0));
        let counts = Arc::new(Counts::default());
        let (q, h) = BackgroundQueueBuilder::new()
            .capacity(capacity)
            .flush_interval(Duration::from_micros(100))
            .metrics_recorder_local::<dyn metrics::Recorder, _>(CountingRecorder(counts.clone()))
            .build::<IdEntry>(sh.stream());
        q.append(IdEntry::new(0, 0));
        let _ = progress_wait(|| sh.blocked_next.load(Ordering::SeqCst), default_stall());
        for s in 1..=capacity as u32 {
            q.append(IdEntry::new(0, s));
        }
        let stores_before = vcommon::sync::hook_hits().into_iter().find(|x| x.0 == "bq.handle_drop.after_store").map(|x| x.1).unwrap_or(0);
        let dropper = std::thread::spawn(move || h.shut_down());
        if vcommon::sync::hooks_compiled_in() {
            let _ = progress_wait(|| vcommon::sync::hook_hits().into_iter().find(|x| x.0 == "bq.handle_drop.after_store").map(|x| x.1).unwrap_or(0) > stores_before, Duration::from_secs(5));
        } else {
            std::thread::sleep(Duration::from_millis(50));
        }
        for s in 0..extra {
            q.append(IdEntry::new(0, capacity as u32 + 1 + s));
        }
        let appended = 1 + capacity as u64 + extra as u64;
        sh.open_all();
        let _ = dropper.join();
        let delivered = sh.log().iter().filter(|e| e.id().is_some()).count() as u64;
        let overflows = counts.counter("metrique_queue_overflows");
        if delivered + overflows != appended {
            rep.violation(
                "conservation",
                json!({"what": "appends racing with a shutdown whose drain has not happened yet (writer held): appended = written + counted as overflow",
                       "capacity": capacity, "appended": appended, "written": delivered, "overflow_counter": overflows, "unaccounted": appended as i64 - delivered as i64 - overflows as i64}),
            );
            return;
        }
        rep.count("appends_during_shutdown_scenarios", 1);
        drop(q);
    }
}

fn native_main(args: &Args, rep: &Report) {
    rep.rule(
        "(a) sequential histories: one producer, writer held at a fuel gate inside next() with one popped entry in hand, \
         random bursts / amounts of writer progress, capacities {1,2,3,4,7,8,16,33} and, in 1 of 12 histories, {100,1000,1024,5000}; the stream log must EQUAL a displace-oldest \
         reference ring and the overflow counter the displaced count. (b) concurrent histories: 1-6 producers against a \
         stalled / slow / free writer; per-producer order, conservation appended = delivered + overflow counter, and every lost entry \
         has >= capacity later appends. Appends must return while the gate is closed. (c) configuration scenarios: three named queues reporting to the GLOBAL metrics recorder (each queue's losses under its own label), and a queue of 16 KiB entries with capacity 8192. distinct = distinct plans / delivery signatures with loss",
    );
    vcommon::sync::install_perturbation(args.seed, 50);
    let budget = Duration::from_secs(args.get_u64("secs", args.by_tier(12, 150)));
    let start = Instant::now();
    std::thread::scope(|s| {
        for lane in 0..args.get_u64("lanes", 6) {
            let rep = &rep;
            let args = &args;
            s.spawn(move || {
                let mut rng = Rng::derive(args.seed, lane);
                while start.elapsed() < budget && rep.violation_count() == 0 {
                    rep.eval();
                    if lane % 2 == 0 {
                        let plan = gen_seq_plan(&mut rng);
                        if let Some(h) = seq_history(&plan, rep) {
                            rep.count("seq_histories", 1);
                            if plan.rounds.iter().any(|(b, _)| *b as usize > plan.capacity) {
                                rep.distinct(h);
                            }
                            rep.sample(|| json!({"sequential": format!("{plan:?}")}));
                        }
                    } else {
                        let plan = gen_conc_plan(&mut rng, args.thorough());
                        if let Some(h) = conc_history(&plan, rep) {
                            rep.count("conc_histories", 1);
                            rep.distinct(h);
                            if rng.below(50) == 0 {
                                rep.sample(|| json!({"concurrent": format!("{plan:?}")}));
                            }
                        }
                    }
                }
            });
        }
    });
    if rep.violation_count() == 0 {
        configuration_scenarios(rep);
    }
    for (name, hits) in vcommon::sync::hook_hits() {
        rep.set(&format!("hook:{name}"), hits);
    }
}

fn tiny_main(args: &Args, rep: &Report) {
    rep.rule("tiny instances under the interpreter/sanitizer: capacity 1 or 2; variant even = sequential plan, odd = 2 producers x 3 entries against a stalled writer");
    vcommon::sync::install_perturbation(args.seed, 1000);
    let v = args.get_u64("variant", 0);
    rep.eval();
    let sig = if v % 2 == 0 {
        let plan = SeqPlan { capacity: 1 + (v as usize / 2) % 2, rounds: vec![(3, 1), (2, 0), (1, 2)], flush_us: 1 };
        seq_history(&plan, rep)
    } else {
        let plan = ConcPlan { capacity: 1 + (v as usize / 2) % 2, producers: 2, per: 3, writer: (v % 3) as u8, flush_us: 1, err_pm: if v % 4 == 1 { 500 } else { 0 }, flush_pm: if v % 2 == 0 { 300 } else { 0 }, seed: args.seed };
        conc_history(&plan, rep)
    };
    if let Some(sig) = sig {
        println!("OUTCOME sig={sig:016x} variant={v}");
        rep.distinct(sig);
        rep.distinct(sig ^ 1);
    }
}

fn main() {
    let args = Args::parse();
    let rep = Report::new("C09", &args);
    if is_miri() || args.get_u64("tiny", 0) == 1 {
        tiny_main(&args, &rep);
    } else {
        native_main(&args, &rep);
    }
    rep.finish_and_exit();
}
