//! C04 — a completed flush means everything appended before it is written and flushed; the
//! future completes after bounded writer progress, and immediately after shutdown.
//!
//! Monitor 1: barrier on real threads (with a gated variant that makes hidden violations definite)
//! Monitor 2: bounded completion while the queue is never empty (logical fuel units, no time)
//! Monitor 3: the real WakerTracker stepped through exhaustive / random op sequences (hook H3)
//! See DESIGN.md §7 C04.

use metrique_writer::sink::{BackgroundQueue, BackgroundQueueBuilder, BackgroundQueueJoinHandle, FlushWait};
use metrique_writer::{AnyEntrySink, BoxEntrySink, EntrySink};
use std::collections::HashMap;
use std::sync::atomic::{AtomicBool, AtomicU32, AtomicU64, Ordering};
use std::sync::{Arc, Mutex};
use vcommon::sync::SpinGate as Barrier;
use std::time::{Duration, Instant};
use vcommon::serde_json::{Value, json};
use vcommon::stream::{Ev, IdEntry, StreamShared, id_producer, make_id};
use vcommon::sync::{block_on, default_stall, is_miri, poll_once, progress_wait, ticket};
use vcommon::{Args, Fnv, Report, Rng};

#[derive(Clone)]
enum Q {
    Typed(BackgroundQueue<IdEntry>),
    Boxed(BoxEntrySink),
}
impl Q {
    fn append(&self, e: IdEntry) {
        match self {
            Q::Typed(q) => q.append(e),
            Q::Boxed(q) => q.append_any(e),
        }
    }
    fn flush_async(&self) -> FlushWait {
        match self {
            Q::Typed(q) => q.flush_async(),
            Q::Boxed(q) => AnyEntrySink::flush_async(q),
        }
    }
}

fn build(sh: &Arc<StreamShared>, capacity: usize, flush: Duration, boxed: bool) -> (Q, BackgroundQueueJoinHandle) {
    let b = BackgroundQueueBuilder::new().capacity(capacity).flush_interval(flush);
    if boxed {
        let (q, h) = b.build_boxed(sh.stream());
        (Q::Boxed(q), h)
    } else {
        let (q, h) = b.build::<IdEntry>(sh.stream());
        (Q::Typed(q), h)
    }
}

fn run_guarded<T: Send + 'static>(f: impl FnOnce() -> T + Send + 'static) -> Option<T> {
    let done = Arc::new(AtomicBool::new(false));
    let d2 = done.clone();
    let t = std::thread::spawn(move || {
        let r = f();
        d2.store(true, Ordering::SeqCst);
        r
    });
    if progress_wait(|| done.load(Ordering::SeqCst), default_stall()) { t.join().ok() } else { None }
}

// ------------------------------------------------------------------------------------------
// the barrier oracle, shared by monitors 1 and 2

#[derive(Clone, Debug)]
struct FlushRec {
    /// per producer: number of appends that had returned before the request was issued
    snap: Vec<u32>,
    /// stream log length read after the future completed
    len_after: usize,
    gated: bool,
}

/// returns number of (record, entry) obligations checked
fn check_barrier(recs: &[FlushRec], log: &[Ev], overflow_allowed: bool, ctx: &str, rep: &Report) -> u64 {
    let mut pos: HashMap<u64, usize> = HashMap::new();
    let mut flush_pos: Vec<usize> = vec![];
    for (i, e) in log.iter().enumerate() {
        match e {
            Ev::Next { .. } => {
                if let Some(id) = e.id() {
                    pos.entry(id).or_insert(i);
                }
            }
            Ev::Flush { .. } => flush_pos.push(i),
        }
    }
    let mut obligations = 0u64;
    for (ri, r) in recs.iter().enumerate() {
        let mut last: Option<usize> = None;
        for (p, n) in r.snap.iter().enumerate() {
            for s in 0..*n {
                let id = make_id(p as u32, s);
                obligations += 1;
                match pos.get(&id) {
                    None => {
                        if !overflow_allowed {
                            rep.violation(
                                "entry-before-flush-never-delivered",
                                json!({"ctx": ctx, "record": ri, "producer": p, "seq": s, "rec": format!("{r:?}")}),
                            );
                            return obligations;
                        }
                        rep.count("barrier_entries_displaced", 1);
                    }
                    Some(&i) if i >= r.len_after => {
                        rep.violation(
                            "flush-completed-before-entry-written",
                            json!({"ctx": ctx, "record": ri, "producer": p, "seq": s,
                                   "entry_log_position": i, "log_len_after_completion": r.len_after,
                                   "what": "an entry whose append returned before the flush request was handed to the stream only after the flush future completed",
                                   "log_window": log[r.len_after.saturating_sub(6)..(i + 2).min(log.len())].iter().map(|e| format!("{e:?}")).collect::<Vec<_>>()}),
                        );
                        return obligations;
                    }
                    Some(&i) => last = Some(last.map_or(i, |l| l.max(i))),
                }
            }
        }
        if let Some(m) = last {
            let k = flush_pos.partition_point(|f| *f <= m);
            let ok = flush_pos.get(k).is_some_and(|f| *f < r.len_after);
            if !ok {
                rep.violation(
                    "no-stream-flush-before-completion",
                    json!({"ctx": ctx, "record": ri,
                           "what": "no stream.flush() between the last must-precede entry and the completion of the flush future",
                           "last_must_precede_position": m, "log_len_after_completion": r.len_after,
                           "next_flush_position": flush_pos.get(k),
                           "log_window": log[m.saturating_sub(3)..r.len_after.min(log.len())].iter().rev().take(12).rev().map(|e| format!("{e:?}")).collect::<Vec<_>>()}),
                );
                return obligations;
            }
        }
    }
    obligations
}

// ------------------------------------------------------------------------------------------
// Monitor 1

#[derive(Clone, Debug)]
struct BarrierPlan {
    producers: u32,
    per: u32,
    capacity: usize,
    flush_us: u64,
    overflow: bool,
    request_pm: u64,
    gated_requests: u32,
    boxed: bool,
    delay_pm: u64,
    /// per mille of entries the stream answers with an error (alternately I/O and validation); they
    /// were handed to the stream all the same, and the flush after them is owed all the same
    err_pm: u64,
    seed: u64,
}

fn barrier_history(plan: &BarrierPlan, rep: &Report) -> Option<u64> {
    let p2 = plan.clone();
    let out = run_guarded(move || barrier_inner(&p2));
    let Some((recs, log, ready_while_gated)) = out else {
        rep.violation(
            "flush-never-completed",
            json!({"plan": format!("{plan:?}"), "evidence": "a client blocked on a flush future (or the writer) made no progress for the stall period; see hook tickets",
                   "park_enter_ticket": vcommon::sync::hook_last_ticket("bq.run.park_enter"),
                   "park_exit_ticket": vcommon::sync::hook_last_ticket("bq.run.park_exit")}),
        );
        return None;
    };
    if let Some(detail) = ready_while_gated {
        rep.violation("flush-completed-while-stream-gated", json!({"plan": format!("{plan:?}"), "detail": detail}));
        return None;
    }
    let before = rep.violation_count();
    let ob = check_barrier(&recs, &log, plan.overflow, &format!("{plan:?}"), rep);
    rep.count("m1_flush_requests_completed", recs.len() as u64);
    rep.count("m1_gated_requests", recs.iter().filter(|r| r.gated).count() as u64);
    rep.count("m1_barrier_obligations", ob);
    if rep.violation_count() != before {
        return None;
    }
    let mut h = Fnv::new();
    for r in &recs {
        h.u64(r.len_after as u64);
    }
    for e in &log {
        h.u64(e.id().map(|i| id_producer(i) as u64).unwrap_or(99));
    }
    Some(h.finish())
}

fn barrier_inner(plan: &BarrierPlan) -> (Vec<FlushRec>, Vec<Ev>, Option<Value>) {
    let sh = StreamShared::new(plan.seed);
    sh.delay_per_mille.store(plan.delay_pm, Ordering::Relaxed);
    if plan.err_pm > 0 {
        let pm = plan.err_pm;
        sh.set_script(move |k| match k {
            vcommon::stream::EntryKind::Id(id) => {
                let h = Fnv::new().u64(*id).finish();
                if h % 1000 < pm {
                    if (h >> 20) % 2 == 0 { vcommon::stream::Outcome::Io } else { vcommon::stream::Outcome::Validation }
                } else {
                    vcommon::stream::Outcome::Ok
                }
            }
            _ => vcommon::stream::Outcome::Ok,
        });
    }
    let (q, handle) = build(&sh, plan.capacity, Duration::from_micros(plan.flush_us), plan.boxed);
    let n = plan.producers as usize;
    // slot n is the gater's own producer id
    let returned: Arc<Vec<AtomicU32>> = Arc::new((0..=n).map(|_| AtomicU32::new(0)).collect());
    let appended = Arc::new(AtomicU64::new(0));
    let recs: Arc<Mutex<Vec<FlushRec>>> = Arc::new(Mutex::new(vec![]));
    let producers_done = Arc::new(AtomicU32::new(0));
    let barrier = Arc::new(Barrier::new(n + 1));
    let flow = {
        let (sh, appended, cap, overflow) = (sh.clone(), appended.clone(), plan.capacity as u64, plan.overflow);
        move || {
            if overflow {
                return;
            }
            let idx = appended.fetch_add(1, Ordering::SeqCst);
            // cannot fail unless the writer is dead; then the guarded runner reports it
            while !progress_wait(|| idx < sh.consumed_ids.load(Ordering::SeqCst) + cap, default_stall()) {}
        }
    };
    let snapshot = {
        let returned = returned.clone();
        move || returned.iter().map(|r| r.load(Ordering::SeqCst)).collect::<Vec<u32>>()
    };
    let mut threads = vec![];
    for prod in 0..plan.producers {
        let (q, sh, returned, recs, barrier, flow, snapshot, producers_done, plan) = (
            q.clone(), sh.clone(), returned.clone(), recs.clone(), barrier.clone(), flow.clone(),
            snapshot.clone(), producers_done.clone(), plan.clone(),
        );
        threads.push(std::thread::spawn(move || {
            let mut rng = Rng::derive(plan.seed, prod as u64 + 1);
            barrier.wait();
            for seq in 0..plan.per {
                flow();
                q.append(IdEntry::new(prod, seq));
                returned[prod as usize].fetch_add(1, Ordering::SeqCst);
                vcommon::sync::progress_tick();
                if rng.below(1000) < plan.request_pm {
                    let snap = snapshot();
                    let f = q.flush_async();
                    block_on(f);
                    let len_after = sh.log_len();
                    recs.lock().unwrap().push(FlushRec { snap, len_after, gated: false });
                }
            }
            producers_done.fetch_add(1, Ordering::SeqCst);
        }));
    }
    // the gater: closes the stream gates, appends a sentinel, requests a flush and polls it
    let mut ready_while_gated: Option<Value> = None;
    barrier.wait();
    let gp = n as u32;
    for g in 0..plan.gated_requests {
        if !is_miri() {
            std::thread::sleep(Duration::from_micros(50 + (plan.seed % 400)));
        }
        flow();
        sh.set_fuel(Some(0));
        sh.close_flush_gate(true);
        q.append(IdEntry::new(gp, g));
        returned[n].fetch_add(1, Ordering::SeqCst);
        let snap = snapshot();
        // requests made and abandoned (future dropped, un-polled or polled once) right before and
        // after the one that is awaited: they sit in the same batch and must not change what the
        // awaited one is owed
        if (plan.seed >> g) & 1 == 1 {
            drop(q.flush_async());
        }
        let mut f = Box::pin(q.flush_async());
        if (plan.seed >> (g + 4)) & 1 == 1 {
            let mut a = Box::pin(q.flush_async());
            let _ = poll_once(a.as_mut());
            drop(a);
        }
        let mut ready = false;
        let mut polls = 0u64;
        // poll until the writer is seen blocked at a gate, then some more
        let _ = progress_wait(
            || {
                ready |= poll_once(f.as_mut()).is_ready();
                polls += 1;
                ready || sh.blocked_next.load(Ordering::SeqCst) || sh.blocked_flush.load(Ordering::SeqCst)
            },
            Duration::from_secs(if is_miri() { 60 } else { 3 }),
        );
        for _ in 0..if is_miri() { 5 } else { 200 } {
            if ready {
                break;
            }
            ready |= poll_once(f.as_mut()).is_ready();
            polls += 1;
            std::thread::yield_now();
        }
        if ready {
            let log = sh.log();
            ready_while_gated = Some(json!({
                "what": "flush future completed while the stream's next() and flush() gates were closed: the sentinel appended before the request cannot have been handed to the stream and no flush can have completed",
                "sentinel": {"producer": gp, "seq": g},
                "sentinel_in_log": log.iter().any(|e| e.id() == Some(make_id(gp, g))),
                "polls": polls,
                "log_tail": log.iter().rev().take(8).rev().map(|e| format!("{e:?}")).collect::<Vec<_>>(),
            }));
            sh.open_all();
            break;
        }
        sh.open_all();
        block_on(f);
        let len_after = sh.log_len();
        recs.lock().unwrap().push(FlushRec { snap, len_after, gated: true });
    }
    for t in threads {
        let _ = t.join();
    }
    // one last request after everything was appended
    let snap = snapshot();
    block_on(q.flush_async());
    let len_after = sh.log_len();
    recs.lock().unwrap().push(FlushRec { snap, len_after, gated: false });
    drop(q);
    handle.shut_down();
    let r = recs.lock().unwrap().clone();
    (r, sh.log(), ready_while_gated)
}

fn gen_barrier_plan(rng: &mut Rng, thorough: bool) -> BarrierPlan {
    BarrierPlan {
        producers: 1 + rng.below(6) as u32,
        per: (1 + rng.below(if thorough { 400 } else { 150 })) as u32,
        capacity: *rng.pick(&[2usize, 3, 8, 31, 64, 500]),
        flush_us: *rng.pick(&[1u64, 50, 1000, 20_000, 50_000]),
        overflow: rng.below(4) == 0,
        request_pm: *rng.pick(&[5u64, 30, 100, 400]),
        gated_requests: rng.below(4) as u32,
        boxed: rng.bool(),
        delay_pm: *rng.pick(&[0u64, 0, 100, 600]),
        err_pm: *rng.pick(&[0u64, 0, 200, 1000]),
        seed: rng.next_u64(),
    }
}

// ------------------------------------------------------------------------------------------
// Monitor 2: bounded completion in logical units while the queue never becomes empty

fn roundup32(c: usize) -> u64 {
    (c as u64).div_ceil(32) * 32
}

#[derive(Clone, Debug)]
struct BoundPlan {
    capacity: usize,
    /// entries already consumed (in fuel units) before the request is made: moves the request
    /// to different offsets inside the writer's 32-entry deadline window
    warmup_units: u32,
    second_request_after: Option<u32>,
    boxed: bool,
    /// per mille of entries the stream refuses with an I/O error: handing an entry over is
    /// writer progress whether or not the stream liked it
    err_pm: u64,
    /// None: the queue is kept FULL (two appends per consumed entry). Some(b): a lock-step producer
    /// keeps a small backlog of exactly b entries (one append per consumed entry): never empty,
    /// never anywhere near full
    backlog: Option<usize>,
}

fn bounded_history(plan: &BoundPlan, rep: &Report) -> Option<u64> {
    let p2 = plan.clone();
    let out = run_guarded(move || bounded_inner(&p2));
    match out {
        None => {
            rep.violation("bounded-flush-stuck", json!({"plan": format!("{plan:?}"), "evidence": "no ticket progress while handing out fuel"}));
            None
        }
        Some(Err(e)) => {
            rep.inconclusive(&format!("monitor 2 protocol failed: {e}"));
            None
        }
        Some(Ok((units, units2, recs, log))) => {
            let bound = roundup32(plan.capacity) + 64;
            rep.max("m2_max_units_to_complete", units);
            let mut ok = true;
            if units > bound {
                rep.violation(
                    "flush-not-completed-within-bound",
                    json!({"plan": format!("{plan:?}"), "units_consumed_after_request": units, "bound": bound,
                           "what": "with a never-empty queue the flush future was still pending after roundup32(capacity)+64 further entries were consumed by the stream"}),
                );
                ok = false;
            }
            if let Some(u2) = units2 {
                rep.max("m2_max_units_second_request", u2);
                if u2 > 2 * bound {
                    rep.violation(
                        "second-flush-not-completed-within-bound",
                        json!({"plan": format!("{plan:?}"), "units_consumed_after_request": u2, "bound": 2 * bound}),
                    );
                    ok = false;
                }
            }
            let before = rep.violation_count();
            let ob = check_barrier(&recs, &log, true, &format!("{plan:?}"), rep);
            rep.count("m2_barrier_obligations", ob);
            rep.count("m2_histories", 1);
            if ok && rep.violation_count() == before {
                Some(Fnv::new().u64(plan.capacity as u64).u64(plan.warmup_units as u64).u64(units).u64(units2.unwrap_or(0)).finish())
            } else {
                None
            }
        }
    }
}

type BoundOut = Result<(u64, Option<u64>, Vec<FlushRec>, Vec<Ev>), String>;

fn bounded_inner(plan: &BoundPlan) -> BoundOut {
    let sh = StreamShared::new(7);
    sh.set_fuel(Some(0));
    if plan.err_pm > 0 {
        // (I/O errors only: a validation error would make the queue write its in-band report entry,
        // which passes the fuel gate like any entry and would upset this history's unit accounting)
        let pm = plan.err_pm;
        sh.set_script(move |k| match k {
            vcommon::stream::EntryKind::Id(id) if Fnv::new().u64(*id).finish() % 1000 < pm => vcommon::stream::Outcome::Io,
            _ => vcommon::stream::Outcome::Ok,
        });
    }
    let (q, handle) = build(&sh, plan.capacity, Duration::from_micros(1), plan.boxed);
    let stall = default_stall();
    let seq = std::cell::Cell::new(0u32);
    let mut append = |n: u32| {
        for _ in 0..n {
            q.append(IdEntry::new(0, seq.get()));
            seq.set(seq.get() + 1);
        }
    };
    // fill: one entry in hand + a full ring (or + the small backlog)
    let per_unit = if plan.backlog.is_some() { 1 } else { 2 };
    append(plan.backlog.map_or(plan.capacity as u32 + 3, |b| b as u32 + 1));
    if !progress_wait(|| sh.blocked_next.load(Ordering::SeqCst), stall) {
        return Err("writer never blocked at the gate".into());
    }
    let mut consumed = 0u64;
    let mut one_unit = |append: &mut dyn FnMut(u32)| -> Result<(), String> {
        append(per_unit); // keep the queue full / the backlog constant: the writer never sees it empty
        consumed += 1;
        sh.add_fuel(1);
        if !progress_wait(|| sh.consumed_ids.load(Ordering::SeqCst) >= consumed, stall) {
            return Err("fuel unit was not consumed".into());
        }
        if !progress_wait(|| sh.blocked_next.load(Ordering::SeqCst) && sh.started.load(Ordering::SeqCst) == consumed, stall) {
            return Err("writer did not return to the gate".into());
        }
        Ok(())
    };
    for _ in 0..plan.warmup_units {
        one_unit(&mut append)?;
    }
    let mut recs = vec![];
    let snap1 = vec![seq.get()];
    let mut f1 = Box::pin(q.flush_async());
    let mut f2: Option<(std::pin::Pin<Box<FlushWait>>, Vec<u32>, u64)> = None;
    let mut units = 0u64;
    let limit = 3 * (roundup32(plan.capacity) + 64) + 64;
    let mut units1 = None;
    let mut units2 = None;
    loop {
        if units1.is_none() && poll_once(f1.as_mut()).is_ready() {
            units1 = Some(units);
            recs.push(FlushRec { snap: snap1.clone(), len_after: sh.log_len(), gated: false });
        }
        if let Some((f, snap, at)) = f2.as_mut() {
            if units2.is_none() && poll_once(f.as_mut()).is_ready() {
                units2 = Some(units - *at);
                recs.push(FlushRec { snap: snap.clone(), len_after: sh.log_len(), gated: false });
            }
        }
        let want2 = plan.second_request_after.is_some();
        if units1.is_some() && (!want2 || units2.is_some()) {
            break;
        }
        if units >= limit {
            break;
        }
        if let Some(after) = plan.second_request_after {
            if f2.is_none() && units == after as u64 {
                f2 = Some((Box::pin(q.flush_async()), vec![seq.get()], units));
            }
        }
        one_unit(&mut append)?;
        units += 1;
    }
    let u1 = units1.unwrap_or(units + 1_000_000);
    let u2 = if plan.second_request_after.is_some() { Some(units2.unwrap_or(units + 1_000_000)) } else { None };
    sh.open_all();
    drop(f1);
    drop(f2);
    drop(q);
    handle.shut_down();
    Ok((u1, u2, recs, sh.log()))
}

// ------------------------------------------------------------------------------------------
// Monitor 2b: special scenarios, run alone (the progress watchdog needs a quiet process)

fn special_scenarios(rep: &Report) {
    // (i) idle, parked writer with the longest allowed flush interval: a request must wake it
    for boxed in [false, true] {
        rep.eval();
        let sh = StreamShared::new(3);
        let (q, handle) = build(&sh, 16, Duration::from_secs(59), boxed);
        q.append(IdEntry::new(0, 0));
        let parked = progress_wait(
            || sh.consumed_ids.load(Ordering::SeqCst) == 1 && (!vcommon::sync::hooks_compiled_in() || vcommon::sync::hook_last_ticket("bq.run.park_enter") > sh.log().last().map(|e| e.ticket()).unwrap_or(0)),
            Duration::from_secs(10),
        );
        if !parked {
            rep.inconclusive("idle scenario: writer was not observed parked");
        }
        q.append(IdEntry::new(0, 1));
        let req_ticket = ticket();
        let q2 = q.clone();
        let done = run_guarded(move || block_on(q2.flush_async()));
        if done.is_none() {
            rep.violation(
                "flush-on-parked-writer-never-completed",
                json!({"what": "writer parked with flush_interval=59s; flush request made no progress for the stall period",
                       "request_ticket": req_ticket,
                       "park_enter_ticket": vcommon::sync::hook_last_ticket("bq.run.park_enter"),
                       "park_exit_ticket": vcommon::sync::hook_last_ticket("bq.run.park_exit")}),
            );
            handle.forget();
            continue;
        }
        let len_after = sh.log_len();
        let log = sh.log();
        check_barrier(&[FlushRec { snap: vec![2], len_after, gated: false }], &log, false, "idle-parked-59s", rep);
        rep.count("special_idle_parked_ok", 1);
        rep.distinct(Fnv::new().str("idle").u64(boxed as u64).finish());
        // (ii) after shutdown a fresh request is ready on its first poll
        handle.shut_down();
        for k in 0..3 {
            rep.eval();
            let mut f = Box::pin(q.flush_async());
            if !poll_once(f.as_mut()).is_ready() {
                rep.violation("flush-after-shutdown-not-ready", json!({"boxed": boxed, "attempt": k, "what": "flush_async() on a shut-down queue was Pending on its first poll"}));
            } else {
                rep.count("special_after_shutdown_ready", 1);
            }
        }
        rep.distinct(Fnv::new().str("after-shutdown").u64(boxed as u64).finish());
    }
    // (iii) requests racing with shutdown all complete
    for round in 0..if is_miri() { 1 } else { 40 } {
        rep.eval();
        let sh = StreamShared::new(round);
        let (q, handle) = build(&sh, 8, Duration::from_micros(if round % 2 == 0 { 1 } else { 20_000 }), round % 3 == 0);
        let stop = Arc::new(AtomicBool::new(false));
        let completed = Arc::new(AtomicU64::new(0));
        let (q2, stop2, completed2) = (q.clone(), stop.clone(), completed.clone());
        let racers = run_guarded(move || {
            let ts: Vec<_> = (0..3)
                .map(|i| {
                    let (q, stop, completed) = (q2.clone(), stop2.clone(), completed2.clone());
                    std::thread::spawn(move || {
                        let mut n = 0u32;
                        while !stop.load(Ordering::SeqCst) || n < 3 {
                            q.append(IdEntry::new(i, n));
                            block_on(q.flush_async());
                            completed.fetch_add(1, Ordering::SeqCst);
                            vcommon::sync::progress_tick();
                            n += 1;
                            if n > 20_000 {
                                break;
                            }
                        }
                    })
                })
                .collect();
            if !is_miri() {
                std::thread::sleep(Duration::from_micros(200 * (round % 7)));
            }
            handle.shut_down();
            stop2.store(true, Ordering::SeqCst);
            for t in ts {
                let _ = t.join();
            }
        });
        if racers.is_none() {
            rep.violation(
                "flush-racing-with-shutdown-never-completed",
                json!({"round": round, "completed_before_stall": completed.load(Ordering::SeqCst),
                       "what": "a flush future requested around shutdown never completed"}),
            );
            return;
        }
        rep.count("special_racing_shutdown_flushes", completed.load(Ordering::SeqCst));
        rep.distinct(Fnv::new().str("race-shutdown").u64(round).finish());
        drop(q);
    }
    // (iv) a request made on the live queue is still pending, with a backlog behind a slow stream,
    // when shutdown begins: its completion must still mean "backlog written and flushed". The
    // stream is fed one entry at a time and the future polled at every step.
    let combos: &[(u32, u32, u64, bool)] = if is_miri() {
        &[(40, 0, 1, false)]
    } else {
        &[(5, 0, 1, false), (40, 0, 1, false), (40, 0, 1, true), (40, 31, 1, false), (40, 33, 1, true), (100, 1, 1, false),
          (100, 64, 1, true), (70, 0, 59_000_000, false), (70, 32, 20_000, true), (33, 32, 1, false), (300, 0, 1, false)]
    };
    for &(backlog, fed_before, flush_us, boxed) in combos {
        rep.eval();
        let sh = StreamShared::new(backlog as u64);
        let (q, handle) = build(&sh, 512, Duration::from_micros(flush_us), boxed);
        sh.set_fuel(Some(0));
        for s in 0..backlog {
            q.append(IdEntry::new(0, s));
        }
        let mut f = Box::pin(q.flush_async());
        let mut ready = poll_once(f.as_mut()).is_ready();
        let wait_step = |target: u64, f: &mut std::pin::Pin<Box<FlushWait>>, ready: &mut bool| {
            progress_wait(
                || {
                    if !*ready {
                        *ready = poll_once(f.as_mut()).is_ready();
                    }
                    *ready || (sh.consumed_ids.load(Ordering::SeqCst) >= target && (sh.blocked_next.load(Ordering::SeqCst) || target == backlog as u64))
                },
                default_stall(),
            )
        };
        let mut fed = 0u64;
        let mut stalled = false;
        while fed < fed_before as u64 && !ready {
            sh.add_fuel(1);
            fed += 1;
            stalled |= !wait_step(fed, &mut f, &mut ready);
        }
        let shut = std::thread::spawn(move || handle.shut_down());
        if !is_miri() {
            std::thread::sleep(Duration::from_millis(2));
        }
        let mut len_after = None;
        while !stalled {
            if ready && len_after.is_none() {
                len_after = Some(sh.log_len());
            }
            if fed < backlog as u64 {
                sh.add_fuel(1);
                fed += 1;
                stalled |= !wait_step(fed, &mut f, &mut ready);
            } else if ready {
                break;
            } else {
                stalled |= !progress_wait(|| { ready = ready || poll_once(f.as_mut()).is_ready(); ready }, default_stall());
            }
        }
        sh.open_all();
        if stalled {
            rep.violation(
                "flush-pending-at-shutdown-never-completed",
                json!({"backlog": backlog, "fed_before_shutdown": fed_before, "flush_us": flush_us, "boxed": boxed, "fed": fed,
                       "consumed": sh.consumed_ids.load(Ordering::SeqCst), "future_ready": ready}),
            );
            return;
        }
        let _ = shut.join();
        let log = sh.log();
        let ctx = format!("pending-at-shutdown backlog={backlog} fed_before={fed_before} flush_us={flush_us} boxed={boxed}");
        let ob = check_barrier(&[FlushRec { snap: vec![backlog], len_after: len_after.unwrap_or(log.len()), gated: true }], &log, false, &ctx, rep);
        rep.count("special_pending_at_shutdown_obligations", ob);
        rep.distinct(Fnv::new().str("pending-at-shutdown").u64(backlog as u64).u64(fed_before as u64).u64(flush_us).u64(boxed as u64).finish());
        drop(q);
    }
    // (v) thousands of requests outstanding at once while the writer is held inside next(): none
    // may complete before the gate opens, and all complete afterwards
    for (round, &burst) in (if is_miri() { &[200usize][..] } else { &[1500usize, 5000, 20_000][..] }).iter().enumerate() {
        rep.eval();
        let sh = StreamShared::new(round as u64);
        let (q, handle) = build(&sh, 16, Duration::from_micros(if round % 2 == 0 { 1 } else { 5_000 }), round % 2 == 1);
        sh.set_fuel(Some(0));
        sh.close_flush_gate(true);
        q.append(IdEntry::new(0, 0));
        let _ = progress_wait(|| sh.blocked_next.load(Ordering::SeqCst), Duration::from_secs(if is_miri() { 60 } else { 5 }));
        q.append(IdEntry::new(0, 1));
        let mut futs: Vec<_> = (0..burst).map(|_| Box::pin(q.flush_async())).collect();
        let early: Vec<usize> = futs.iter_mut().enumerate().filter_map(|(i, f)| poll_once(f.as_mut()).is_ready().then_some(i)).collect();
        if !early.is_empty() {
            rep.violation(
                "flush-completed-while-stream-gated",
                json!({"what": "with the writer held inside stream.next() and nothing written, flush futures of a burst of outstanding requests were Ready on their first poll",
                       "burst": burst, "ready_count": early.len(), "first_ready_index": early[0], "log": sh.log().iter().map(|e| format!("{e:?}")).collect::<Vec<_>>()}),
            );
            sh.open_all();
            handle.forget();
            return;
        }
        sh.open_all();
        let all = run_guarded(move || {
            for f in futs {
                block_on(f);
            }
        });
        if all.is_none() {
            rep.violation("flush-never-completed", json!({"what": "a burst of outstanding flush requests did not all complete after the gates opened", "burst": burst}));
            handle.forget();
            return;
        }
        let len_after = sh.log_len();
        check_barrier(&[FlushRec { snap: vec![2], len_after, gated: true }], &sh.log(), false, &format!("burst-of-{burst}-requests"), rep);
        rep.count("special_burst_requests", burst as u64);
        rep.distinct(Fnv::new().str("burst").u64(burst as u64).finish());
        drop(q);
        handle.shut_down();
    }
}

// ------------------------------------------------------------------------------------------
// Monitor 3: the real WakerTracker, step by step

#[cfg(metrique_verif)]
mod tracker {
    use super::*;
    use metrique_writer::sink::verif_waker::{Status, WakerDriver};
    use std::cell::{Cell, RefCell};

    #[derive(Clone, Copy, Debug, PartialEq, Eq)]
    pub enum Op {
        Push,
        Request,
        Pop,
        ObserveEmpty,
        Handle,
    }
    pub const OPS: [Op; 5] = [Op::Push, Op::Request, Op::Pop, Op::ObserveEmpty, Op::Handle];

    struct Req {
        rx: tokio::sync::oneshot::Receiver<()>,
        /// ids that were in the ring or popped-but-unflushed when the request was made
        must: Vec<u32>,
        done: bool,
    }

    /// executes one op sequence against a fresh real tracker; Err = (kind, detail)
    pub fn run(cap: usize, ops: &[Op]) -> Result<u64, (String, String)> {
        let mut drv = WakerDriver::new();
        let mut ring: std::collections::VecDeque<u32> = Default::default();
        let mut next_id = 0u32;
        // pop step of every id (u64::MAX = displaced)
        let mut popped_at: HashMap<u32, u64> = HashMap::new();
        let mut reqs: Vec<Req> = vec![];
        let mut step = 0u64;
        let flushes: RefCell<Vec<u64>> = RefCell::new(vec![]);
        let mut pending_pops = 0usize;
        let mut observed_empty = false;
        // reference for the liveness bound
        let mut model_waiting: Vec<usize> = vec![];
        let mut model_uncollected: Vec<usize> = vec![];
        let mut pops_since_collect = 0usize;
        let mut sig = Fnv::new();
        let bad = |k: &str, d: String| Err((k.to_string(), d));
        for (i, op) in ops.iter().enumerate() {
            step += 1;
            match op {
                Op::Push => {
                    if ring.len() == cap {
                        let d = ring.pop_front().unwrap();
                        popped_at.insert(d, u64::MAX);
                    }
                    ring.push_back(next_id);
                    next_id += 1;
                }
                Op::Request => {
                    // everything pushed so far and not displaced must precede
                    let must: Vec<u32> = (0..next_id).filter(|id| popped_at.get(id) != Some(&u64::MAX)).collect();
                    reqs.push(Req { rx: drv.request_flush(), must, done: false });
                    model_uncollected.push(reqs.len() - 1);
                }
                Op::Pop => {
                    // precondition: non-empty and not after an "observed empty"
                    if ring.is_empty() || observed_empty {
                        return Ok(0);
                    }
                    let id = ring.pop_front().unwrap();
                    popped_at.insert(id, step);
                    pending_pops += 1;
                }
                Op::ObserveEmpty => {
                    if !ring.is_empty() || observed_empty {
                        return Ok(0);
                    }
                    observed_empty = true; // P1: the queue has been empty since the last call
                }
                Op::Handle => {
                    let status = if observed_empty { Status::Drained } else { Status::HitDeadline };
                    if status == Status::HitDeadline && pending_pops == 0 {
                        return Ok(0); // excluded: cannot occur in the real loop
                    }
                    let will_progress_before = drv.will_progress();
                    let open_inside: Cell<Option<usize>> = Cell::new(None);
                    {
                        let reqs_ref = &mut reqs;
                        let flushes = &flushes;
                        let open_inside = &open_inside;
                        drv.step(status, pending_pops, cap, || {
                            flushes.borrow_mut().push(step);
                            // S1 (first half): nobody may have been woken before the stream flush
                            let mut closed = None;
                            for (ri, r) in reqs_ref.iter_mut().enumerate() {
                                if !r.done && matches!(r.rx.try_recv(), Err(tokio::sync::oneshot::error::TryRecvError::Closed)) {
                                    closed = Some(ri);
                                }
                            }
                            open_inside.set(closed);
                        });
                    }
                    if let Some(ri) = open_inside.get() {
                        return bad("S1-woken-before-flush", format!("request #{ri} was already closed inside the flush callback at op {i}"));
                    }
                    // liveness reference
                    let mut must_be_done: Vec<usize> = vec![];
                    if !model_waiting.is_empty() {
                        pops_since_collect += pending_pops;
                        if pops_since_collect >= cap || status == Status::Drained {
                            must_be_done = std::mem::take(&mut model_waiting);
                        }
                    }
                    if model_waiting.is_empty() {
                        model_waiting = std::mem::take(&mut model_uncollected);
                        pops_since_collect = 0;
                    }
                    let done_before = reqs.iter().filter(|r| r.done).count();
                    // observe completions
                    let last_flush = flushes.borrow().last().copied();
                    for (ri, r) in reqs.iter_mut().enumerate() {
                        if r.done {
                            continue;
                        }
                        let closed = matches!(r.rx.try_recv(), Err(tokio::sync::oneshot::error::TryRecvError::Closed));
                        if closed {
                            r.done = true;
                            // S1: every must-precede id has left the ring, and a flush ran after the last
                            let mut last_pop = 0u64;
                            for id in &r.must {
                                match popped_at.get(id) {
                                    None => return bad("S1-entry-still-queued", format!("request #{ri} completed at op {i} while entry {id} (pushed before it) was still in the queue")),
                                    Some(&u64::MAX) => {}
                                    Some(&s) => last_pop = last_pop.max(s),
                                }
                            }
                            if !r.must.is_empty() && last_flush.is_none_or(|f| f < last_pop) {
                                return bad("S1-no-flush-after-last-entry", format!("request #{ri} completed at op {i} without a stream flush after its last entry was popped (last pop step {last_pop}, last flush {last_flush:?})"));
                            }
                            if last_flush != Some(step) {
                                return bad("S1-completed-without-flush-in-step", format!("request #{ri} completed at op {i} but no flush ran in that step"));
                            }
                        } else if must_be_done.contains(&ri) {
                            return bad("L1-bound", format!("request #{ri} still pending at op {i} although {cap} entries were popped (or the queue was seen empty) since it was collected"));
                        }
                    }
                    // S2 (busy-loop freedom, observational): if will_progress() was true, a Drained step
                    // must make progress by completing at least one request
                    let done_after = reqs.iter().filter(|r| r.done).count();
                    if will_progress_before && status == Status::Drained && done_after == done_before {
                        return bad("S2", format!("will_progress() was true but the Drained step at op {i} completed no request"));
                    }
                    sig.u64(reqs.iter().filter(|r| r.done).count() as u64);
                    pending_pops = 0;
                    observed_empty = false;
                }
            }
        }
        // nontrivial iff some request was completed
        let done = reqs.iter().filter(|r| r.done).count() as u64;
        Ok(if done > 0 { sig.u64(cap as u64).u64(ops.len() as u64).finish() | 1 } else { 0 })
    }

    pub fn exhaustive(max_len: usize, rep: &Report) {
        let mut total = 0u64;
        for cap in 1..=4usize {
            for len in 1..=max_len {
                let mut idx = vec![0usize; len];
                'outer: loop {
                    // only sequences that end in Handle are interesting (and prefixes are covered by shorter lens)
                    if OPS[idx[len - 1]] == Op::Handle {
                        let ops: Vec<Op> = idx.iter().map(|i| OPS[*i]).collect();
                        total += 1;
                        match run(cap, &ops) {
                            Ok(0) => {}
                            Ok(sig) => {
                                rep.count("m3_exhaustive_nontrivial", 1);
                                if total % 997 == 0 {
                                    rep.distinct(sig);
                                }
                            }
                            Err((k, d)) => {
                                rep.violation(&format!("waker-tracker:{k}"), json!({"capacity": cap, "ops": format!("{ops:?}"), "detail": d}));
                                return;
                            }
                        }
                    }
                    let mut p = len;
                    loop {
                        if p == 0 {
                            break 'outer;
                        }
                        p -= 1;
                        idx[p] += 1;
                        if idx[p] < OPS.len() {
                            break;
                        }
                        idx[p] = 0;
                    }
                }
            }
        }
        rep.eval_n(total);
        rep.count("m3_exhaustive_sequences", total);
        rep.set("m3_exhaustive_max_len", max_len as u64);
    }

    pub fn random(n: u64, seed: u64, rep: &Report) {
        let mut rng = Rng::derive(seed, 0x77);
        let mut sample_done = false;
        for _ in 0..n {
            let cap = 1 + rng.usize_below(6);
            let len = 5 + rng.usize_below(56);
            // generate only valid sequences
            let mut ops = vec![];
            let (mut ring, mut observed) = (0usize, false);
            while ops.len() < len {
                let op = *rng.pick(&[Op::Push, Op::Push, Op::Request, Op::Pop, Op::Pop, Op::Pop, Op::ObserveEmpty, Op::Handle]);
                match op {
                    Op::Push => ring = (ring + 1).min(cap),
                    Op::Pop => {
                        if ring == 0 || observed {
                            continue;
                        }
                        ring -= 1;
                    }
                    Op::ObserveEmpty => {
                        if ring != 0 || observed {
                            continue;
                        }
                        observed = true;
                    }
                    Op::Handle => observed = false,
                    Op::Request => {}
                }
                ops.push(op);
            }
            ops.push(Op::Handle);
            // pops before a HitDeadline handle may be zero: run() returns 0 for those (excluded)
            rep.eval();
            match run(cap, &ops) {
                Ok(0) => {}
                Ok(sig) => {
                    rep.distinct(sig);
                    rep.count("m3_random_nontrivial", 1);
                    if !sample_done {
                        sample_done = true;
                        rep.sample(|| json!({"waker_tracker_sequence": {"capacity": cap, "ops": format!("{ops:?}")}}));
                    }
                }
                Err((k, d)) => {
                    rep.violation(&format!("waker-tracker:{k}"), json!({"capacity": cap, "ops": format!("{ops:?}"), "detail": d}));
                    return;
                }
            }
        }
    }
}

fn native_main(args: &Args, rep: &Report) {
    rep.rule(
        "monitor 1: multi-producer histories with flush requests from every thread; oracle: every entry whose append returned before a \
         completed request is in the stream log before the completion, a stream flush lies after the last of them (gated variant: future \
         polled while next()/flush() are held closed must stay Pending). monitor 2: never-empty queue, fuel-gated stream, flush_interval=1us: \
         units of stream progress until Ready <= roundup32(capacity)+64. monitor 3 (hook H3): the real WakerTracker stepped through every \
         op sequence up to a length bound plus random long ones, asserting S1/S2/L1. distinct = distinct history/sequence signatures in which a request completed",
    );
    vcommon::sync::install_perturbation(args.seed, 50);
    let which = args.kv.get("monitor").cloned().unwrap_or_else(|| "all".into());
    let budget = Duration::from_secs(args.get_u64("secs", args.by_tier(14, 170)));
    let start = Instant::now();
    if which == "all" || which == "12" {
        std::thread::scope(|s| {
            for lane in 0..args.get_u64("lanes", 6) {
                let rep = &rep;
                let args = &args;
                s.spawn(move || {
                    let mut rng = Rng::derive(args.seed, lane);
                    while start.elapsed() < budget && rep.violation_count() == 0 {
                        rep.eval();
                        if lane % 3 != 2 {
                            let plan = gen_barrier_plan(&mut rng, args.thorough());
                            vcommon::sync::set_perturbation(plan.seed, *rng.pick(&[0u64, 50, 300]));
                            if let Some(h) = barrier_history(&plan, rep) {
                                rep.distinct(h);
                                rep.count("m1_histories", 1);
                                if rng.below(20) == 0 {
                                    rep.sample(|| json!({"monitor1": format!("{plan:?}")}));
                                }
                            }
                        } else {
                            let capacity = *rng.pick(&[1usize, 2, 5, 31, 32, 33, 64, 100, 257, 1024]);
                            let plan = BoundPlan {
                                backlog: if rng.below(3) == 0 { Some(1 + rng.usize_below((capacity / 4).max(1)).min(capacity - 1).max(0)) } else { None },
                                capacity,
                                warmup_units: rng.below(70) as u32,
                                second_request_after: if rng.below(3) == 0 { Some(rng.below(40) as u32) } else { None },
                                boxed: rng.bool(),
                                err_pm: *rng.pick(&[0u64, 0, 500, 1000]),
                            };
                            if let Some(h) = bounded_history(&plan, rep) {
                                rep.distinct(h);
                                if rng.below(10) == 0 {
                                    rep.sample(|| json!({"monitor2": format!("{plan:?}")}));
                                }
                            }
                        }
                    }
                });
            }
        });
    }
    if (which == "all" || which == "2b") && rep.violation_count() == 0 {
        special_scenarios(rep);
    }
    #[cfg(metrique_verif)]
    if (which == "all" || which == "3") && rep.violation_count() == 0 {
        tracker::exhaustive(args.get_u64("m3len", args.by_tier(7, 9)) as usize, rep);
        if rep.violation_count() == 0 {
            tracker::random(args.get_u64("m3random", args.by_tier(100_000, 1_000_000)), args.seed, rep);
        }
    }
    #[cfg(not(metrique_verif))]
    rep.inconclusive("built without --cfg metrique_verif: monitor 3 unavailable");
    for (name, hits) in vcommon::sync::hook_hits() {
        rep.set(&format!("hook:{name}"), hits);
    }
}

fn tiny_main(args: &Args, rep: &Report) {
    rep.rule("tiny barrier history under the interpreter/sanitizer: 2 producers x 2 entries, capacity 2, one plain and one gated request");
    vcommon::sync::install_perturbation(args.seed, 1000);
    let v = args.get_u64("variant", 0);
    let plan = BarrierPlan {
        producers: 2,
        per: 2,
        capacity: 2,
        flush_us: if v % 2 == 0 { 1 } else { 3000 },
        overflow: v % 4 == 3,
        request_pm: 500,
        gated_requests: (v % 2) as u32,
        boxed: v % 3 == 0,
        delay_pm: 300,
        err_pm: 500,
        seed: args.seed + v,
    };
    rep.eval();
    if let Some(sig) = barrier_history(&plan, rep) {
        println!("OUTCOME sig={sig:016x} variant={v}");
        rep.distinct(sig);
        rep.distinct(sig ^ 1);
    }
}

fn main() {
    let args = Args::parse();
    let rep = Report::new("C04", &args);
    if is_miri() || args.get_u64("tiny", 0) == 1 {
        tiny_main(&args, &rep);
    } else {
        native_main(&args, &rep);
    }
    rep.finish_and_exit();
}
