//! C07 — `#[metrics]` emits the documented names, values and units for every type shape.
//!
//! Shape R over generated programs: this binary (1) draws trees of `#[metrics]` types and
//! instances, (2) writes them out as Rust source into a scratch cargo workspace under
//! harness/target/c07/, (3) has the REAL proc-macro compile them (`cargo build`), (4) runs the
//! programs, which close one value of every root and print what a recording EntryWriter saw, and
//! (5) compares that with an independent naming reference (which, like the documentation, uses
//! the `Inflector` crate as its trusted base). See DESIGN.md §7 C07.

use inflector::Inflector;
use std::collections::BTreeMap;
use std::fmt::Write as _;
use std::path::PathBuf;
use std::process::Command;
use vcommon::serde_json::{self, Value as J, json};
use vcommon::{Args, Fnv, Report, Rng};

// ------------------------------------------------------------------------------------------
// model of a generated program

#[derive(Clone, Copy, Debug, PartialEq, Eq)]
enum Style {
    Preserve,
    Pascal,
    Snake,
    Kebab,
}
impl Style {
    fn attr(self) -> Option<&'static str> {
        match self {
            Style::Preserve => None,
            Style::Pascal => Some("PascalCase"),
            Style::Snake => Some("snake_case"),
            Style::Kebab => Some("kebab-case"),
        }
    }
    /// documented: "uses the Inflector crate"
    fn apply(self, s: &str) -> String {
        match self {
            Style::Preserve => s.to_string(),
            Style::Pascal => s.to_pascal_case(),
            Style::Snake => s.to_snake_case(),
            Style::Kebab => s.to_kebab_case(),
        }
    }
    /// a prefix inflected in this style keeps / gets its trailing delimiter
    fn apply_prefix(self, s: &str) -> String {
        match self {
            Style::Preserve => s.to_string(),
            Style::Pascal => s.to_pascal_case(),
            Style::Snake => {
                let mut r = s.to_snake_case();
                if !r.ends_with('_') {
                    r.push('_');
                }
                r
            }
            Style::Kebab => {
                let mut r = s.to_kebab_case();
                if !r.ends_with('-') {
                    r.push('-');
                }
                r
            }
        }
    }
}

#[derive(Clone, Debug, PartialEq)]
enum Pfx {
    None,
    Infl(String),
    Exact(String),
}

#[derive(Clone, Debug, PartialEq)]
enum Ty {
    U64,
    U32,
    Bool,
    F64,
    Duration,
    String,
    StaticStr,
    ValueStruct(usize),
    ValueEnum(usize),
}

#[derive(Clone, Debug)]
enum FieldKind {
    Plain { ty: Ty, optional: bool, name: Option<String>, unit: Option<&'static str>, sample_group: bool },
    Ignore,
    Flatten { child: Child, prefix: Pfx },
}

#[derive(Clone, Copy, Debug)]
enum Child {
    Struct(usize),
    Enum(usize),
}

#[derive(Clone, Debug)]
struct FieldDef {
    ident: String,
    kind: FieldKind,
}

#[derive(Clone, Debug)]
struct StructDef {
    name: String,
    rename_all: Style,
    prefix: Pfx,
    mode: &'static str, // "", "subfield", "subfield_owned"
    fields: Vec<FieldDef>,
}

#[derive(Clone, Debug)]
enum VariantData {
    Unit,
    Struct(Vec<FieldDef>),
    Tuple(usize, Pfx), // flattened child struct
}

#[derive(Clone, Debug)]
struct VariantDef {
    ident: String,
    name: Option<String>,
    data: VariantData,
}

#[derive(Clone, Debug)]
struct TagDef {
    name: String,
    exact: bool,
    sample_group: bool,
}

#[derive(Clone, Debug)]
struct EnumDef {
    name: String,
    rename_all: Style,
    prefix: Pfx,
    mode: &'static str,
    tag: Option<TagDef>,
    variants: Vec<VariantDef>,
}

#[derive(Clone, Debug)]
struct ValueEnumDef {
    name: String,
    rename_all: Style,
    variants: Vec<(String, Option<String>)>,
}

#[derive(Clone, Debug)]
struct ValueStructDef {
    name: String,
    inner: Ty, // U64 (with optional unit) or StaticStr (with sample_group)
    unit: Option<&'static str>,
    sample_group: bool,
}

#[derive(Default)]
struct Program {
    structs: Vec<StructDef>,
    enums: Vec<EnumDef>,
    value_enums: Vec<ValueEnumDef>,
    value_structs: Vec<ValueStructDef>,
    roots: Vec<Child>,
}

// ------------------------------------------------------------------------------------------
// generation

const WORDS: &[&str] = &[
    "request_count", "bytes_in", "latency", "status", "operation", "retry_attempts", "cache_hit", "payload_size", "region", "shard_id", "total", "p99_wait", "queue_depth", "error", "http2_frames", "a", "db_time",
    "io_2xx_count", "x__y", "e2e_p99_9",
    // (identifiers that start with a run of capitals: inflecting "prefix + name" is not the same as
    // inflecting the two separately)
    "ID_count", "TTL_secs", "HTTPStatus", "Q",
];
// (acronym runs, digits and underscores: the inflector is not the identity on these, in any style)
const VARIANT_WORDS: &[&str] = &["ReadData", "WriteData", "Delete", "ListObjects", "Get", "HeadBucket", "Scan2", "HTTPError", "DBTimeout", "Read_only", "IOError2", "S3Upload", "XMLHttpRequest", "ALLCAPS", "lower_case"];
// (several of these texts are also in EXACT_PREFIXES: the same text in both prefix roles within one crate)
const PREFIX_WORDS: &[&str] = &["api_", "sub-", "Outer_", "db_", "v2_", "client-side_", "Foo-", "X__"];
const FLATTEN_PREFIXES: &[&str] = &["alt", "waterfowl_", "inner-", "Upstream_", "x", "long_prefix_component_number_one_", "another-rather-long-prefix-component-"];
const EXACT_PREFIXES: &[&str] = &["API:", "Api.", "X__", "svc/", "A very long exact prefix with spaces and UPPER case, 60+ bytes.. ", "é-", "api_", "db_", "Outer_"];
const NAME_OVERRIDES: &[&str] = &["NDucks", "custom_name", "Custom-Name", "lowerCamel", "X"];
const UNITS: &[(&str, &str)] = &[("Count", "Count"), ("Percent", "Percent"), ("Megabyte", "Megabytes"), ("Millisecond", "Milliseconds"), ("BitPerSecond", "Bits/Second")];

struct Gen<'a> {
    rng: &'a mut Rng,
    p: Program,
    tag: String,
}

impl Gen<'_> {
    fn style(&mut self) -> Style {
        *self.rng.pick(&[Style::Preserve, Style::Preserve, Style::Pascal, Style::Snake, Style::Kebab])
    }
    fn container_prefix(&mut self) -> Pfx {
        match self.rng.below(5) {
            0 => Pfx::Infl(self.rng.pick(PREFIX_WORDS).to_string()),
            1 => Pfx::Exact(self.rng.pick(EXACT_PREFIXES).to_string()),
            _ => Pfx::None,
        }
    }
    /// two flatten prefixes with the same text in one container do not compile with the pinned macro
    /// (it derives the names of its helper types from the prefix text): make them distinct
    fn unique_prefix(&mut self, p: Pfx, used: &mut std::collections::HashSet<String>) -> Pfx {
        let key = |t: &str| t.to_pascal_case().chars().filter(|c| c.is_alphanumeric()).collect::<String>();
        match p {
            Pfx::None => Pfx::None,
            Pfx::Infl(t) => {
                let mut t2 = t.clone();
                let mut n = 1;
                while !used.insert(key(&t2)) {
                    n += 1;
                    t2 = format!("n{n}_{t}");
                }
                Pfx::Infl(t2)
            }
            Pfx::Exact(t) => {
                let mut t2 = t.clone();
                let mut n = 1;
                while !used.insert(key(&t2)) {
                    n += 1;
                    t2 = format!("N{n}{t}");
                }
                Pfx::Exact(t2)
            }
        }
    }

    fn flatten_prefix(&mut self, long: bool) -> Pfx {
        if long {
            return if self.rng.bool() { Pfx::Infl(FLATTEN_PREFIXES[5 + self.rng.usize_below(2)].to_string()) } else { Pfx::Exact(EXACT_PREFIXES[4].to_string()) };
        }
        match self.rng.below(5) {
            0 | 1 => Pfx::Infl(self.rng.pick(FLATTEN_PREFIXES).to_string()),
            2 => Pfx::Exact(self.rng.pick(EXACT_PREFIXES).to_string()),
            _ => Pfx::None,
        }
    }
    fn value_enum(&mut self) -> usize {
        let n = self.p.value_enums.len();
        let nv = 1 + self.rng.usize_below(3);
        let mut variants = vec![];
        for i in 0..nv {
            let id = format!("{}{}", self.rng.pick(VARIANT_WORDS), i);
            let name = if self.rng.below(4) == 0 { Some(format!("custom_{}", self.rng.pick(WORDS))) } else { None };
            variants.push((id, name));
        }
        let rename_all = self.style();
        self.p.value_enums.push(ValueEnumDef { name: format!("VE{}_{n}", self.tag), rename_all, variants });
        n
    }
    fn value_struct(&mut self) -> usize {
        let n = self.p.value_structs.len();
        let sg = self.rng.below(3) == 0;
        let (inner, unit) = if sg { (Ty::StaticStr, None) } else { (Ty::U64, if self.rng.bool() { Some(self.rng.pick(UNITS).0) } else { None }) };
        self.p.value_structs.push(ValueStructDef { name: format!("VS{}_{n}", self.tag), inner, unit, sample_group: sg });
        n
    }
    fn fields(&mut self, depth: u32, force_long: bool) -> Vec<FieldDef> {
        let n = 1 + self.rng.usize_below(5);
        let mut used = std::collections::HashSet::new();
        let mut used_prefixes = std::collections::HashSet::new();
        let mut out = vec![];
        for i in 0..n {
            let mut ident = self.rng.pick(WORDS).to_string();
            if !used.insert(ident.clone()) {
                ident = format!("{ident}_{i}");
                used.insert(ident.clone());
            }
            let kind = match self.rng.below(12) {
                0 => FieldKind::Ignore,
                1 | 2 | 3 if depth > 0 => {
                    let child = if self.rng.below(4) == 0 { Child::Enum(self.entry_enum(depth - 1, false)) } else { Child::Struct(self.strukt(depth - 1, false, force_long)) };
                    let fp = self.flatten_prefix(force_long);
                    FieldKind::Flatten { child, prefix: self.unique_prefix(fp, &mut used_prefixes) }
                }
                _ => {
                    let ty = match self.rng.below(11) {
                        0 => Ty::U32,
                        1 => Ty::Bool,
                        2 => Ty::F64,
                        3 => Ty::Duration,
                        4 => Ty::String,
                        5 => Ty::StaticStr,
                        6 => Ty::ValueStruct(self.value_struct()),
                        7 => Ty::ValueEnum(self.value_enum()),
                        _ => Ty::U64,
                    };
                    let sample_group_ok = match &ty {
                        Ty::StaticStr | Ty::ValueEnum(_) => true,
                        Ty::ValueStruct(i) => self.p.value_structs[*i].sample_group,
                        _ => false,
                    };
                    let optional = !sample_group_ok && self.rng.below(4) == 0;
                    FieldKind::Plain {
                        unit: if ty == Ty::U64 && self.rng.below(3) == 0 { Some(self.rng.pick(UNITS).0) } else if ty == Ty::Duration && self.rng.below(3) == 0 { Some(*self.rng.pick(&["Microsecond", "Second", "Millisecond"])) } else { None },
                        name: if self.rng.below(5) == 0 { Some(format!("{}{}", self.rng.pick(NAME_OVERRIDES), i)) } else { None },
                        sample_group: sample_group_ok && self.rng.bool(),
                        optional,
                        ty,
                    }
                }
            };
            out.push(FieldDef { ident, kind });
        }
        out
    }
    fn strukt(&mut self, depth: u32, root: bool, force_long: bool) -> usize {
        let fields = self.fields(depth, force_long);
        let n = self.p.structs.len();
        let def = StructDef {
            name: format!("S{}_{n}", self.tag),
            rename_all: self.style(),
            prefix: self.container_prefix(),
            mode: if root { "" } else { *self.rng.pick(&["", "subfield", "subfield_owned"]) },
            fields,
        };
        // indices are allocated after the children: insert at the end
        self.p.structs.push(def);
        let idx = self.p.structs.len() - 1;
        self.p.structs[idx].name = format!("S{}_{idx}", self.tag);
        let _ = n;
        idx
    }
    fn entry_enum(&mut self, depth: u32, root: bool) -> usize {
        let nv = 1 + self.rng.usize_below(3);
        let mut variants = vec![];
        let mut used_prefixes = std::collections::HashSet::new();
        for i in 0..nv {
            let ident = format!("{}{}", self.rng.pick(VARIANT_WORDS), i);
            let data = match self.rng.below(3) {
                0 => VariantData::Unit,
                1 => {
                    // (ignored fields inside enum struct variants do not compile with the pinned macro:
                    // the generated close() destructures them from the Entry variant, which lacks them)
                    let mut f = self.fields(depth, false);
                    f.retain(|x| !matches!(x.kind, FieldKind::Ignore));
                    if f.is_empty() {
                        f.push(FieldDef { ident: "total".into(), kind: FieldKind::Plain { ty: Ty::U64, optional: false, name: None, unit: None, sample_group: false } });
                    }
                    VariantData::Struct(f)
                }
                _ => {
                    let fp = self.flatten_prefix(false);
                    let fp = self.unique_prefix(fp, &mut used_prefixes);
                    VariantData::Tuple(self.strukt(depth, false, false), fp)
                }
            };
            variants.push(VariantDef { ident, name: if self.rng.below(4) == 0 { Some(format!("variant_{}", self.rng.pick(WORDS))) } else { None }, data });
        }
        let tag = if self.rng.below(3) != 0 {
            Some(TagDef { name: self.rng.pick(&["operation", "op_kind", "Kind", "request-type", "HTTPMethod", "API_call", "ID"]).to_string(), exact: self.rng.bool(), sample_group: self.rng.below(3) == 0 })
        } else {
            None
        };
        let def = EnumDef { name: String::new(), rename_all: self.style(), prefix: self.container_prefix(), mode: if root { "" } else { *self.rng.pick(&["", "subfield_owned"]) }, tag, variants };
        self.p.enums.push(def);
        let idx = self.p.enums.len() - 1;
        self.p.enums[idx].name = format!("E{}_{idx}", self.tag);
        idx
    }
}

fn gen_program(rng: &mut Rng, tag: &str, roots: usize) -> Program {
    let mut g = Gen { rng, p: Program::default(), tag: tag.to_string() };
    for r in 0..roots {
        let depth = g.rng.below(4) as u32;
        let force_long = r % 20 == 7; // >= 5% of the trees force prefix chains beyond 100 bytes
        let root = if g.rng.below(5) == 0 { Child::Enum(g.entry_enum(depth, true)) } else { Child::Struct(g.strukt(depth.max(force_long as u32 * 2), true, force_long)) };
        g.p.roots.push(root);
    }
    // names whose total length sits on and around the 100-byte limit of the compile-time string
    // machinery: a one-byte field behind one flatten prefix (exact or inflectable) of L-1 bytes, and
    // behind a chain of two prefixes, for L = 98..=104
    for total in 98usize..=104 {
        for shape in 0..3 {
            let leaf = g.p.structs.len();
            g.p.structs.push(StructDef {
                name: format!("S{}_{leaf}", g.tag),
                rename_all: Style::Preserve,
                prefix: Pfx::None,
                mode: "",
                fields: vec![FieldDef { ident: "v".into(), kind: FieldKind::Plain { ty: Ty::U64, optional: false, name: None, unit: None, sample_group: false } }],
            });
            let pad = |n: usize, c: char| -> String { std::iter::repeat_n(c, n).collect() };
            let chain: Vec<Pfx> = match shape {
                0 => vec![Pfx::Exact(pad(total - 1, 'b'))],
                1 => vec![Pfx::Infl(pad(total - 1, 'c'))],
                _ => vec![Pfx::Exact(pad(total - 1 - 50, 'd')), Pfx::Exact(pad(50, 'e'))],
            };
            push_chain(&mut g, leaf, chain);
        }
    }
    // chains of three and four prefixes that pass 100 bytes early (two or more segments before the
    // end), late, and more than once; exact, inflectable and mixed
    for (k, lens) in [[60usize, 60, 50, 0], [50, 60, 60, 0], [5, 10, 110, 0], [110, 10, 5, 0], [40, 40, 40, 40], [101, 1, 1, 1], [1, 1, 1, 101], [99, 1, 1, 0], [30, 30, 30, 9]].iter().enumerate() {
        for kind in 0..3 {
            let leaf = g.p.structs.len();
            g.p.structs.push(StructDef {
                name: format!("S{}_{leaf}", g.tag),
                rename_all: Style::Preserve,
                prefix: Pfx::None,
                mode: "",
                fields: vec![FieldDef { ident: "value".into(), kind: FieldKind::Plain { ty: Ty::U64, optional: false, name: None, unit: None, sample_group: false } }],
            });
            let chain: Vec<Pfx> = lens
                .iter()
                .enumerate()
                .filter(|(_, n)| **n > 0)
                .map(|(j, n)| {
                    let text: String = std::iter::repeat_n((b'f' + ((k + j) % 20) as u8) as char, *n - 1).chain(std::iter::once('_')).collect();
                    if kind == 0 || (kind == 2 && j % 2 == 0) { Pfx::Exact(text) } else { Pfx::Infl(text) }
                })
                .collect();
            push_chain(&mut g, leaf, chain);
        }
    }
    sanitize_subfields(&mut g.p);
    g.p
}

fn push_chain(g: &mut Gen, leaf: usize, chain: Vec<Pfx>) {
    let mut child = Child::Struct(leaf);
    {
        {
            let chain = chain;
            for prefix in chain {
                let idx = g.p.structs.len();
                g.p.structs.push(StructDef {
                    name: format!("S{}_{idx}", g.tag),
                    rename_all: Style::Preserve,
                    prefix: Pfx::None,
                    mode: "",
                    fields: vec![FieldDef { ident: "inner".into(), kind: FieldKind::Flatten { child, prefix } }],
                });
                child = Child::Struct(idx);
            }
            g.p.roots.push(child);
        }
    }
}

/// `#[metrics(subfield)]` types are closed by reference, so everything inside them must be
/// closable by reference as well: no owned Strings, and flattened children must be `subfield` too.
fn sanitize_subfields(p: &mut Program) {
    loop {
        let mut changed = false;
        for i in 0..p.structs.len() {
            if p.structs[i].mode != "subfield" {
                continue;
            }
            let mut fields = p.structs[i].fields.clone();
            for f in &mut fields {
                match &mut f.kind {
                    FieldKind::Plain { ty, .. } if *ty == Ty::String => {
                        *ty = Ty::StaticStr;
                        changed = true;
                    }
                    FieldKind::Flatten { child: Child::Struct(c), .. } => {
                        if p.structs[*c].mode != "subfield" {
                            p.structs[*c].mode = "subfield";
                            changed = true;
                        }
                    }
                    FieldKind::Flatten { child: Child::Enum(_), .. } => {
                        // entry enums are closed by value: not inside a by-reference parent
                        f.kind = FieldKind::Ignore;
                        changed = true;
                    }
                    _ => {}
                }
            }
            p.structs[i].fields = fields;
        }
        if !changed {
            break;
        }
    }
}

// ------------------------------------------------------------------------------------------
// instances: Rust expressions + expected items, produced together by the reference walker

#[derive(Clone, Debug, PartialEq)]
struct Item {
    name: String,
    /// "s:<text>" for strings, "u:<n>" unsigned, "f:<float>" floating
    value: String,
    unit: String,
}

struct Walk<'a> {
    p: &'a Program,
    rng: &'a mut Rng,
    counter: u64,
}

#[derive(Clone)]
struct Ns {
    style: Style,
    prefix: String,
}

impl Walk<'_> {
    fn fresh(&mut self) -> u64 {
        self.counter += 1;
        self.counter
    }

    fn variant_string(rename_all: Style, ident: &str, name: &Option<String>) -> String {
        match name {
            Some(n) => n.clone(),
            None => rename_all.apply(ident),
        }
    }

    /// (rust expression, value rendering, unit name, sample-group string if usable)
    fn plain_value(&mut self, ty: &Ty, unit: Option<&'static str>) -> (String, String, String, Option<String>) {
        let unit_name = |u: Option<&'static str>| u.map(|u| UNITS.iter().find(|x| x.0 == u).map(|x| x.1).unwrap_or(match u {
            "Microsecond" => "Microseconds",
            "Second" => "Seconds",
            "Millisecond" => "Milliseconds",
            _ => "?",
        })).unwrap_or("None").to_string();
        let v = self.fresh();
        match ty {
            Ty::U64 => (format!("{v}u64"), format!("u:{v}"), unit_name(unit), None),
            Ty::U32 => (format!("{v}u32"), format!("u:{v}"), "None".into(), None),
            Ty::Bool => {
                let b = v % 2 == 0;
                (format!("{b}"), format!("u:{}", b as u8), "None".into(), None)
            }
            Ty::F64 => (format!("{v}.5f64"), format!("f:{}", v as f64 + 0.5), "None".into(), None),
            Ty::Duration => {
                // whole milliseconds: exact in every time unit's double arithmetic up to 4 ulp
                let ms = v * 8;
                let (factor, un) = match unit {
                    Some("Microsecond") => (1000.0, "Microseconds"),
                    Some("Second") => (0.001, "Seconds"),
                    _ => (1.0, "Milliseconds"),
                };
                (format!("std::time::Duration::from_millis({ms})"), format!("f:{}", ms as f64 * factor), un.into(), None)
            }
            Ty::String => (format!("String::from(\"str{v}\")"), format!("s:str{v}"), "None".into(), None),
            Ty::StaticStr => (format!("\"lit{v}\""), format!("s:lit{v}"), "None".into(), Some(format!("lit{v}"))),
            Ty::ValueStruct(i) => {
                let d = &self.p.value_structs[*i];
                let (e, r, u, sg) = self.plain_value(&d.inner.clone(), d.unit);
                (format!("{}({e})", d.name), r, u, if d.sample_group { sg } else { None })
            }
            Ty::ValueEnum(i) => {
                let d = &self.p.value_enums[*i];
                let k = self.rng.usize_below(d.variants.len());
                let (id, name) = &d.variants[k];
                let s = Self::variant_string(d.rename_all, id, name);
                (format!("{}::{id}", d.name), format!("s:{s}"), "None".into(), Some(s))
            }
        }
    }

    fn fields(&mut self, fields: &[FieldDef], rename_all: Style, prefix: &Pfx, ns: &Ns, items: &mut Vec<Item>, sg: &mut Vec<(String, String, usize)>) -> String {
        let style = if rename_all == Style::Preserve { ns.style } else { rename_all };
        let mut expr = String::new();
        for f in fields {
            match &f.kind {
                FieldKind::Ignore => {
                    let _ = write!(expr, "{}: {}u64, ", f.ident, self.fresh());
                }
                FieldKind::Plain { ty, optional, name, unit, sample_group } => {
                    let (e, rendered, unit_name, sgv) = self.plain_value(ty, *unit);
                    let local = match name {
                        Some(n) => n.clone(),
                        None => match prefix {
                            Pfx::None => style.apply(&f.ident),
                            Pfx::Infl(p) => style.apply(&format!("{p}{}", f.ident)),
                            Pfx::Exact(p) => format!("{p}{}", style.apply(&f.ident)),
                        },
                    };
                    let full = format!("{}{}", ns.prefix, local);
                    let present = !*optional || self.rng.bool();
                    if *optional {
                        let _ = write!(expr, "{}: {}, ", f.ident, if present { format!("Some({e})") } else { "None".into() });
                    } else {
                        let _ = write!(expr, "{}: {e}, ", f.ident);
                    }
                    if present {
                        items.push(Item { name: full.clone(), value: rendered, unit: unit_name });
                        if *sample_group {
                            sg.push((full, sgv.expect("sample group value"), ns.prefix.len()));
                        }
                    }
                }
                FieldKind::Flatten { child, prefix: fp } => {
                    let add = match fp {
                        Pfx::None => String::new(),
                        Pfx::Infl(p) => style.apply_prefix(p),
                        Pfx::Exact(p) => p.clone(),
                    };
                    let child_ns = Ns { style, prefix: format!("{}{}", ns.prefix, add) };
                    let e = self.child(*child, &child_ns, items, sg);
                    let _ = write!(expr, "{}: {e}, ", f.ident);
                }
            }
        }
        expr
    }

    fn child(&mut self, c: Child, ns: &Ns, items: &mut Vec<Item>, sg: &mut Vec<(String, String, usize)>) -> String {
        match c {
            Child::Struct(i) => {
                let d = self.p.structs[i].clone();
                let body = self.fields(&d.fields, d.rename_all, &d.prefix, ns, items, sg);
                format!("{} {{ {body} }}", d.name)
            }
            Child::Enum(i) => {
                let d = self.p.enums[i].clone();
                let style = if d.rename_all == Style::Preserve { ns.style } else { d.rename_all };
                let k = self.rng.usize_below(d.variants.len());
                let v = &d.variants[k];
                if let Some(tag) = &d.tag {
                    // documented: `name` is inflectable and respects prefix and rename_all; `name_exact` is exact.
                    // The tag VALUE respects rename_all (the enum's own) and the variant `name`, not the prefix.
                    let local = if tag.exact {
                        tag.name.clone()
                    } else {
                        match &d.prefix {
                            Pfx::None => style.apply(&tag.name),
                            Pfx::Infl(p) => style.apply(&format!("{p}{}", tag.name)),
                            Pfx::Exact(p) => format!("{p}{}", style.apply(&tag.name)),
                        }
                    };
                    let value = Self::variant_string(d.rename_all, &v.ident, &v.name);
                    let full = format!("{}{}", ns.prefix, local);
                    items.push(Item { name: full.clone(), value: format!("s:{value}"), unit: "None".into() });
                    if tag.sample_group {
                        sg.push((full.clone(), value, ns.prefix.len()));
                    }
                }
                match &v.data {
                    VariantData::Unit => format!("{}::{}", d.name, v.ident),
                    VariantData::Struct(fields) => {
                        let body = self.fields(fields, d.rename_all, &d.prefix, ns, items, sg);
                        format!("{}::{} {{ {body} }}", d.name, v.ident)
                    }
                    VariantData::Tuple(si, fp) => {
                        let add = match fp {
                            Pfx::None => String::new(),
                            Pfx::Infl(p) => style.apply_prefix(p),
                            Pfx::Exact(p) => p.clone(),
                        };
                        let child_ns = Ns { style, prefix: format!("{}{}", ns.prefix, add) };
                        let e = self.child(Child::Struct(*si), &child_ns, items, sg);
                        format!("{}::{}({e})", d.name, v.ident)
                    }
                }
            }
        }
    }
}

// ------------------------------------------------------------------------------------------
// source emission

fn lit(s: &str) -> String {
    format!("{s:?}")
}

fn attrs(rename_all: Style, prefix: &Pfx, mode: &str, extra: Option<String>) -> String {
    let mut a: Vec<String> = vec![];
    if let Some(r) = rename_all.attr() {
        a.push(format!("rename_all = {}", lit(r)));
    }
    match prefix {
        Pfx::None => {}
        Pfx::Infl(p) => a.push(format!("prefix = {}", lit(p))),
        Pfx::Exact(p) => a.push(format!("exact_prefix = {}", lit(p))),
    }
    if !mode.is_empty() {
        a.push(mode.to_string());
    }
    if let Some(e) = extra {
        a.push(e);
    }
    if a.is_empty() { "#[metrics]".into() } else { format!("#[metrics({})]", a.join(", ")) }
}

fn ty_src(p: &Program, ty: &Ty) -> String {
    match ty {
        Ty::U64 => "u64".into(),
        Ty::U32 => "u32".into(),
        Ty::Bool => "bool".into(),
        Ty::F64 => "f64".into(),
        Ty::Duration => "std::time::Duration".into(),
        Ty::String => "String".into(),
        Ty::StaticStr => "&'static str".into(),
        Ty::ValueStruct(i) => p.value_structs[*i].name.clone(),
        Ty::ValueEnum(i) => p.value_enums[*i].name.clone(),
    }
}

fn fields_src(p: &Program, fields: &[FieldDef], by_value: bool) -> String {
    let mut s = String::new();
    for f in fields {
        match &f.kind {
            FieldKind::Ignore => {
                let _ = writeln!(s, "    #[metrics(ignore)]\n    {}: u64,", f.ident);
            }
            FieldKind::Plain { ty, optional, name, unit, sample_group } => {
                let mut a: Vec<String> = vec![];
                if let Some(n) = name {
                    a.push(format!("name = {}", lit(n)));
                }
                if let Some(u) = unit {
                    a.push(format!("unit = metrique::unit::{u}"));
                }
                if *sample_group {
                    a.push("sample_group".into());
                }
                // plain numbers and durations are values as they are: in types closed by value every
                // other such field is declared no_close (with or without a unit), which must not change what is emitted
                if by_value && matches!(ty, Ty::U64 | Ty::Duration) && !*optional && !*sample_group && f.ident.len() % 2 == 0 {
                    a.push("no_close".into());
                }
                if !a.is_empty() {
                    let _ = writeln!(s, "    #[metrics({})]", a.join(", "));
                }
                let t = ty_src(p, ty);
                let _ = writeln!(s, "    {}: {},", f.ident, if *optional { format!("Option<{t}>") } else { t });
            }
            FieldKind::Flatten { child, prefix } => {
                let mut a = vec!["flatten".to_string()];
                match prefix {
                    Pfx::None => {}
                    Pfx::Infl(x) => a.push(format!("prefix = {}", lit(x))),
                    Pfx::Exact(x) => a.push(format!("exact_prefix = {}", lit(x))),
                }
                let t = match child {
                    Child::Struct(i) => &p.structs[*i].name,
                    Child::Enum(i) => &p.enums[*i].name,
                };
                let _ = writeln!(s, "    #[metrics({})]\n    {}: {t},", a.join(", "), f.ident);
            }
        }
    }
    s
}

fn program_src(p: &Program, instances: &[(String, String)]) -> String {
    let mut s = String::from("// generated by c07_macro_programs - do not edit\n#![allow(dead_code, non_camel_case_types, non_snake_case, unused_imports, deprecated)]\nuse metrique::unit_of_work::metrics;\nuse metrique::{CloseValue, RootEntry};\n\n");
    for d in &p.value_enums {
        let _ = writeln!(s, "{}\nenum {} {{", attrs(d.rename_all, &Pfx::None, "", Some("value(string)".into())), d.name);
        for (id, name) in &d.variants {
            if let Some(n) = name {
                let _ = writeln!(s, "    #[metrics(name = {})]", lit(n));
            }
            let _ = writeln!(s, "    {id},");
        }
        s.push_str("}\n\n");
    }
    for d in &p.value_structs {
        let extra = if d.sample_group { "value, sample_group" } else { "value" };
        let unit = d.unit.map(|u| format!("#[metrics(unit = metrique::unit::{u})] ")).unwrap_or_default();
        let _ = writeln!(s, "#[metrics({extra})]\nstruct {}({unit}{});\n", d.name, ty_src(p, &d.inner));
    }
    for d in &p.structs {
        let _ = writeln!(s, "{}\nstruct {} {{\n{}}}\n", attrs(d.rename_all, &d.prefix, d.mode, None), d.name, fields_src(p, &d.fields, d.mode != "subfield"));
    }
    for d in &p.enums {
        let tag = d.tag.as_ref().map(|t| format!("tag({} = {}{})", if t.exact { "name_exact" } else { "name" }, lit(&t.name), if t.sample_group { ", sample_group" } else { "" }));
        let _ = writeln!(s, "{}\nenum {} {{", attrs(d.rename_all, &d.prefix, d.mode, tag), d.name);
        for v in &d.variants {
            if let Some(n) = &v.name {
                let _ = writeln!(s, "    #[metrics(name = {})]", lit(n));
            }
            match &v.data {
                VariantData::Unit => {
                    let _ = writeln!(s, "    {},", v.ident);
                }
                VariantData::Struct(fields) => {
                    let _ = writeln!(s, "    {} {{\n{}    }},", v.ident, fields_src(p, fields, false).replace("    ", "        "));
                }
                VariantData::Tuple(si, fp) => {
                    let mut a = vec!["flatten".to_string()];
                    match fp {
                        Pfx::None => {}
                        Pfx::Infl(x) => a.push(format!("prefix = {}", lit(x))),
                        Pfx::Exact(x) => a.push(format!("exact_prefix = {}", lit(x))),
                    }
                    let _ = writeln!(s, "    {}(#[metrics({})] {}),", v.ident, a.join(", "), p.structs[*si].name);
                }
            }
        }
        s.push_str("}\n\n");
    }
    s.push_str("fn emit(id: &str, e: &impl metrique::writer::Entry) {\n    use vcommon::recording::{Op, Val, Obs};\n    let log = vcommon::recording::record(e);\n    let mut items = vec![];\n    for op in &log {\n        if let Op::Value { name, val } = op {\n            match val {\n                Val::String(s) => items.push(vcommon::serde_json::json!({\"name\": name, \"value\": format!(\"s:{s}\"), \"unit\": \"None\"})),\n                Val::Metric { obs, unit, .. } => {\n                    let v = match obs.first() { Some(Obs::U(u)) => format!(\"u:{u}\"), Some(Obs::F(b)) => format!(\"f:{}\", f64::from_bits(*b)), other => format!(\"?{other:?}\") };\n                    items.push(vcommon::serde_json::json!({\"name\": name, \"value\": v, \"unit\": unit.name(), \"n_obs\": obs.len()}))\n                }\n                Val::Error(m) => items.push(vcommon::serde_json::json!({\"name\": name, \"value\": format!(\"error:{m}\"), \"unit\": \"None\"})),\n                Val::Nothing => {}\n            }\n        }\n    }\n    let sg = vcommon::recording::record_sample_group(e);\n    println!(\"{}\", vcommon::serde_json::json!({\"id\": id, \"items\": items, \"sample_group\": sg}));\n}\n\nfn main() {\n");
    for (id, expr) in instances {
        let _ = writeln!(s, "    emit({}, &RootEntry::new(({expr}).close()));", lit(id));
    }
    s.push_str("}\n");
    s
}

// ------------------------------------------------------------------------------------------

struct Expected {
    items: Vec<Item>,
    sample_group: Vec<(String, String, usize)>,
    shape: u64,
    expr: String,
}

fn build_programs(args: &Args, rep: &Report, nprog: usize, roots_per: usize) -> Option<(PathBuf, Vec<BTreeMap<String, Expected>>)> {
    let base = vcommon::report::verif_dir().join("harness/target/c07").join(format!("seed{}-{}", args.seed, if args.thorough() { "t" } else { "q" }));
    let _ = std::fs::remove_dir_all(&base);
    std::fs::create_dir_all(&base).ok()?;
    let mut members = vec![];
    let mut all_expected = vec![];
    for k in 0..nprog {
        let mut rng = Rng::derive(args.seed, 0x700 + k as u64);
        let tag = format!("p{k}");
        let program = gen_program(&mut rng, &tag, roots_per);
        let mut instances = vec![];
        let mut expected = BTreeMap::new();
        let roots = program.roots.clone();
        for (ri, root) in roots.iter().enumerate() {
            for inst in 0..2 {
                let mut w = Walk { p: &program, rng: &mut rng, counter: (ri as u64) * 1000 + inst * 500 };
                let (mut items, mut sg) = (vec![], vec![]);
                let expr = w.child(*root, &Ns { style: Style::Preserve, prefix: String::new() }, &mut items, &mut sg);
                let id = format!("{tag}:r{ri}:{inst}");
                let mut h = Fnv::new();
                h.str(&format!("{:?}", match root { Child::Struct(i) => format!("{:?}", program.structs[*i]), Child::Enum(i) => format!("{:?}", program.enums[*i]) }));
                let shape = h.finish();
                instances.push((id.clone(), expr.clone()));
                expected.insert(id, Expected { items, sample_group: sg, shape, expr });
            }
        }
        let dir = base.join(&tag);
        std::fs::create_dir_all(dir.join("src")).ok()?;
        std::fs::write(dir.join("src/main.rs"), program_src(&program, &instances)).ok()?;
        std::fs::write(
            dir.join("Cargo.toml"),
            format!("[package]\nname = \"c07-{tag}\"\nversion = \"0.0.0\"\nedition = \"2024\"\npublish = false\n\n[dependencies]\nmetrique = {{ path = \"/repo/metrique\" }}\nvcommon = {{ path = \"{}\" }}\n", vcommon::report::verif_dir().join("harness/vcommon").display()),
        )
        .ok()?;
        members.push(format!("\"{tag}\""));
        all_expected.push(expected);
    }
    std::fs::write(base.join("Cargo.toml"), format!("[workspace]\nresolver = \"3\"\nmembers = [{}]\n\n[profile.dev]\nopt-level = 0\ndebug = false\n", members.join(", "))).ok()?;
    let _ = std::fs::copy(vcommon::report::verif_dir().join("harness/Cargo.lock"), base.join("Cargo.lock"));
    rep.set("programs_generated", nprog as u64);
    Some((base, all_expected))
}

fn main() {
    let args = Args::parse();
    let rep = Report::new("C07", &args);
    rep.rule(
        "generated programs: trees (depth <= 4, <= 5 fields per node) of #[metrics] structs and entry enums with every combination of rename_all (absent + 3 styles), container prefix / exact_prefix, name overrides, unit, ignore, \
         Option (Some/None), flatten with prefix / exact_prefix / none, sample_group, #[metrics(value)] newtypes, value(string) enums (own rename_all, variant names), entry enums (struct / tuple / unit variants, tag name / name_exact / sample_group), \
         prefix chains beyond 100 bytes. The REAL proc-macro compiles them; every root is closed twice with unique field values and replayed into a recording writer; the ordered items (name, value, unit, string-or-metric) and the sample group \
         are compared with an independent naming reference built on the Inflector crate. distinct = distinct root type definitions",
    );
    let nprog = args.get_u64("programs", args.by_tier(2, 16)) as usize;
    let roots_per = args.get_u64("roots", args.by_tier(150, 400)) as usize;
    let Some((base, all_expected)) = build_programs(&args, &rep, nprog, roots_per) else {
        rep.inconclusive("could not write the generated programs");
        rep.finish_and_exit();
    };
    let target_dir = vcommon::report::verif_dir().join("harness/target/c07build");
    let out = Command::new("cargo")
        .args(["build", "--offline", "--target-dir"])
        .arg(&target_dir)
        .current_dir(&base)
        .env("CARGO_NET_OFFLINE", "true")
        .env_remove("RUSTFLAGS")
        .output();
    match out {
        Ok(o) if o.status.success() => {}
        Ok(o) => {
            let err = String::from_utf8_lossy(&o.stderr);
            let tail: String = err.lines().filter(|l| l.starts_with("error") || l.contains("-->")).take(12).collect::<Vec<_>>().join(" | ");
            // a generated program that does not compile is a harness problem (or a macro that now rejects
            // well-formed definitions): never a verdict on the naming property
            rep.inconclusive(&format!("generated programs did not compile: {tail}"));
            rep.finish_and_exit();
        }
        Err(e) => {
            rep.inconclusive(&format!("cargo could not be started: {e}"));
            rep.finish_and_exit();
        }
    }
    let mut longest = 0usize;
    let mut known_f8 = 0u64;
    for (k, expected) in all_expected.iter().enumerate() {
        let bin = target_dir.join("debug").join(format!("c07-p{k}"));
        let Ok(o) = Command::new(&bin).output() else {
            rep.inconclusive("generated program could not be run");
            continue;
        };
        if !o.status.success() {
            rep.violation("generated-program-crashed", json!({"program": k, "stderr": String::from_utf8_lossy(&o.stderr).chars().take(800).collect::<String>()}));
            continue;
        }
        rep.count("programs", 1);
        for line in String::from_utf8_lossy(&o.stdout).lines() {
            let Ok(v) = serde_json::from_str::<J>(line) else { continue };
            let id = v["id"].as_str().unwrap_or("").to_string();
            let Some(exp) = expected.get(&id) else { continue };
            rep.eval();
            rep.distinct(exp.shape);
            let got_items: Vec<Item> = v["items"].as_array().map(|a| a.iter().map(|i| Item { name: i["name"].as_str().unwrap_or("").into(), value: i["value"].as_str().unwrap_or("").into(), unit: i["unit"].as_str().unwrap_or("").into() }).collect()).unwrap_or_default();
            let got_sg: Vec<(String, String)> = v["sample_group"].as_array().map(|a| a.iter().map(|p| (p[0].as_str().unwrap_or("").to_string(), p[1].as_str().unwrap_or("").to_string())).collect()).unwrap_or_default();
            longest = longest.max(got_items.iter().map(|i| i.name.len()).max().unwrap_or(0));
            // floats are compared numerically (4 ulp), everything else textually
            let same_value = |a: &str, b: &str| {
                if a == b {
                    return true;
                }
                match (a.strip_prefix("f:").and_then(|x| x.parse::<f64>().ok()), b.strip_prefix("f:").and_then(|x| x.parse::<f64>().ok())) {
                    (Some(x), Some(y)) => (x.to_bits() as i64 - y.to_bits() as i64).abs() <= 4,
                    _ => false,
                }
            };
            let mut hard: Option<String> = None;
            if got_items.len() != exp.items.len() {
                hard = Some(format!("{} items emitted, {} expected", got_items.len(), exp.items.len()));
            } else {
                for (g, e) in got_items.iter().zip(&exp.items) {
                    if !same_value(&g.value, &e.value) || g.unit != e.unit {
                        hard = Some(format!("item {:?}: value/unit {:?}/{:?} != expected {:?}/{:?}", g.name, g.value, g.unit, e.value, e.unit));
                        break;
                    }
                    if g.name != e.name {
                        hard = Some(format!("item name {:?} != expected {:?}", g.name, e.name));
                        break;
                    }
                }
            }
            // sample group: the same names as the emitted items
            let mut sg_problem: Option<String> = None;
            let mut f8: Vec<(String, String)> = vec![];
            if hard.is_none() {
                if got_sg.len() != exp.sample_group.len() {
                    sg_problem = Some(format!("{} sample-group pairs, {} expected", got_sg.len(), exp.sample_group.len()));
                } else {
                    for (g, e) in got_sg.iter().zip(&exp.sample_group) {
                        if g.1 != e.1 {
                            sg_problem = Some(format!("sample-group value {:?} != {:?}", g.1, e.1));
                        } else if g.0 != e.0 {
                            // known finding F8: exactly the accumulated flatten-prefix chain is missing
                            if e.2 > 0 && e.0.get(e.2..) == Some(g.0.as_str()) {
                                f8.push((g.0.clone(), e.0.clone()));
                            } else {
                                sg_problem = Some(format!("sample-group key {:?} != name of the emitted item {:?}", g.0, e.0));
                            }
                        }
                    }
                }
            }
            let witness = |what: String| json!({"what": what, "instance": id, "expression": exp.expr.chars().take(1500).collect::<String>(), "emitted": v["items"], "emitted_sample_group": v["sample_group"],
                "expected": exp.items.iter().map(|i| json!([i.name, i.value, i.unit])).collect::<Vec<_>>(), "expected_sample_group": exp.sample_group.iter().map(|x| json!([x.0, x.1])).collect::<Vec<_>>(), "source": base.join(format!("p{k}/src/main.rs")).display().to_string()});
            if let Some(h) = hard {
                rep.violation("emitted-items-differ-from-naming-reference", witness(h));
            } else if let Some(s) = sg_problem {
                rep.violation("sample-group-names-differ", witness(s));
            } else if !f8.is_empty() {
                known_f8 += 1;
                rep.known_finding(
                    "F8",
                    "sample-group keys of fields reached through a flatten with prefix/exact_prefix lack the flatten prefix, so they differ from the names the same fields are emitted under",
                    witness(format!("sample-group key(s) without the flatten prefix: {f8:?}")),
                );
            } else {
                rep.count("instances_matching_reference", 1);
            }
            if rep.want_sample() && rep.evaluations() % 97 == 0 {
                rep.sample(|| json!({"instance": id, "expression": exp.expr.chars().take(600).collect::<String>(), "emitted": v["items"]}));
            }
        }
    }
    rep.set("longest_emitted_name_bytes", longest as u64);
    rep.set("instances_showing_known_finding_F8", known_f8);
    if rep.violation_count() == 0 {
        // keep the scratch workspace only when there is something to look at
        let _ = std::fs::remove_dir_all(&base);
    }
    rep.finish_and_exit();
}
