//! C11 — histograms conserve observation counts and stay within their stated error.
//! Shape R (+ TSan on the concurrent recording). See DESIGN.md §7 C11.

use metrique::CloseValue;
use metrique_aggregation::histogram::{
    AggregationStrategy, SharedAggregationStrategy,
    AtomicExponentialAggregationStrategy, ExponentialAggregationStrategy, Histogram, HistogramClosed, SharedHistogram, SortAndMerge,
};
use metrique_aggregation::traits::AggregateValue;
use metrique_writer::unit::{AsMicroseconds, AsSeconds};
use metrique_writer::{MetricFlags, MetricValue, Observation, Unit, Value, ValueWriter};
use std::sync::Arc;
use std::time::{Duration, Instant};
use vcommon::recording::{Obs, Val, record_value};
use vcommon::serde_json::{Value as J, json};
use vcommon::sync::is_miri;
use vcommon::{Args, Fnv, Report, Rng};

/// A value that writes one `Repeated` observation (v, n times)
#[derive(Clone, Copy, Debug)]
struct Rep {
    v: f64,
    n: u64,
}
impl Value for Rep {
    fn write(&self, writer: impl ValueWriter) {
        // (n == 0: a zero-occurrence observation with a non-zero total - it contributes nothing)
        let total = if self.n == 0 { self.v } else { self.v * self.n as f64 };
        writer.metric([Observation::Repeated { total, occurrences: self.n }], Unit::None, [], MetricFlags::empty())
    }
}
impl MetricValue for Rep {
    type Unit = metrique_writer::unit::None;
}

/// A value that reports SEVERAL observations in one metric() call (a per-batch summary): single
/// ones, repeated ones, and zero-occurrence ones anywhere in the list
#[derive(Clone, Debug)]
struct Multi(Vec<(f64, u64)>);
impl Value for Multi {
    fn write(&self, writer: impl ValueWriter) {
        writer.metric(
            self.0.iter().map(|(v, n)| match n {
                1 if v.fract() == 0.0 && *v < 9.0e15 && v.to_bits() % 2 == 0 => Observation::Unsigned(*v as u64),
                1 => Observation::Floating(*v),
                0 => Observation::Repeated { total: *v, occurrences: 0 },
                n => Observation::Repeated { total: v * *n as f64, occurrences: *n },
            }),
            Unit::None,
            [],
            MetricFlags::empty(),
        )
    }
}
impl MetricValue for Multi {
    type Unit = metrique_writer::unit::None;
}

/// what a source value contributes: (value, count) pairs, via the same Value impl the histogram sees
fn contributions<T: Value>(v: &T) -> Vec<(f64, u64)> {
    match record_value(v) {
        Val::Metric { obs, .. } => obs
            .iter()
            .filter_map(|o| match *o {
                Obs::U(u) => Some((u as f64, 1)),
                Obs::F(b) => Some((f64::from_bits(b), 1)),
                Obs::R { total, occ } => {
                    if occ > 0 {
                        Some((f64::from_bits(total) / occ as f64, occ))
                    } else {
                        None
                    }
                }
                Obs::Other => None,
            })
            .collect(),
        _ => vec![],
    }
}

fn closed_obs<T: MetricValue>(c: &HistogramClosed<T>) -> Vec<(f64, u64)> {
    match record_value(c) {
        Val::Metric { obs, .. } => obs
            .iter()
            .map(|o| match *o {
                Obs::R { total, occ } => (f64::from_bits(total), occ),
                Obs::U(u) => (u as f64, 1),
                Obs::F(b) => (f64::from_bits(b), 1),
                Obs::Other => (f64::NAN, 0),
            })
            .collect(),
        _ => vec![],
    }
}

fn ulps(a: f64, b: f64) -> u64 {
    if a == b {
        return 0;
    }
    (a.to_bits() as i64 - b.to_bits() as i64).unsigned_abs()
}

/// exponential oracle: counts conserved, every input reported within the stated error
fn check_exponential(inputs: &[(f64, u64)], out: &[(f64, u64)], ctx: &str, rep: &Report) -> bool {
    let witness = |what: &str, extra: J| json!({"what": what, "ctx": ctx, "extra": extra, "inputs_head": &inputs[..inputs.len().min(12)], "out_head": &out[..out.len().min(12)]});
    let n_in: u128 = inputs.iter().map(|i| i.1 as u128).sum();
    let n_out: u128 = out.iter().map(|i| i.1 as u128).sum();
    if n_in != n_out {
        rep.violation("occurrence-count-not-conserved", witness("total occurrences differ from the number of recorded observations", json!({"recorded": n_in.to_string(), "reported": n_out.to_string()})));
        return false;
    }
    let mut sorted: Vec<(f64, u64)> = inputs.to_vec();
    sorted.sort_by(|a, b| a.0.partial_cmp(&b.0).unwrap());
    let mut idx = 0usize;
    let mut left = sorted.first().map(|s| s.1).unwrap_or(0);
    let mut prev_m = -1.0f64;
    for (total, occ) in out {
        if *occ == 0 {
            rep.violation("zero-occurrence-bucket-reported", witness("bucket with zero occurrences", json!({})));
            return false;
        }
        let m = total / *occ as f64;
        if m < prev_m {
            rep.violation("buckets-not-ascending", witness("reported values are not ascending", json!({"m": m, "prev": prev_m})));
            return false;
        }
        prev_m = m;
        let mut need = *occ;
        while need > 0 {
            let v = sorted[idx].0;
            let tol = if v < 1.0 / 32.0 { 1.0 / 1024.0 } else { v / 16.0 };
            if (m - v).abs() > tol * (1.0 + 1e-12) {
                rep.violation(
                    "observation-reported-outside-stated-error",
                    witness("an observation is reported at a value outside 6.25% (1/1024 absolute below 1/32) of the original", json!({"original": v, "reported": m, "tolerance": tol, "bucket_occurrences": occ})),
                );
                return false;
            }
            let take = need.min(left);
            need -= take;
            left -= take;
            if left == 0 {
                idx += 1;
                left = sorted.get(idx).map(|s| s.1).unwrap_or(0);
            }
        }
    }
    true
}

fn check_sort_merge(inputs: &[(f64, u64)], out: &[(f64, u64)], ctx: &str, rep: &Report) -> bool {
    let mut sorted: Vec<(f64, u64)> = inputs.to_vec();
    sorted.sort_by(|a, b| a.0.partial_cmp(&b.0).unwrap());
    let mut merged: Vec<(f64, u64)> = vec![];
    for (v, n) in sorted {
        match merged.last_mut() {
            Some(l) if l.0 == v => l.1 += n,
            _ => merged.push((v, n)),
        }
    }
    let expect: Vec<(f64, u64)> = merged.iter().map(|(v, n)| (v * *n as f64, *n)).collect();
    // (-0.0 and 0.0 are the same value: either sign may be reported for a run of zeros)
    if out.len() != expect.len() || out.iter().zip(&expect).any(|(a, b)| !(a.0.to_bits() == b.0.to_bits() || (a.0 == 0.0 && b.0 == 0.0)) || a.1 != b.1) {
        let first = out.iter().zip(&expect).position(|(a, b)| a != b);
        rep.violation(
            "sort-and-merge-output-differs",
            json!({"what": "reported (total, occurrences) list is not the recorded values ascending with equal values merged", "ctx": ctx,
                   "first_difference_at": first, "got": &out[..out.len().min(10)], "expected": &expect[..expect.len().min(10)], "got_len": out.len(), "expected_len": expect.len()}),
        );
        return false;
    }
    true
}

fn same_lists(a: &[(f64, u64)], b: &[(f64, u64)], max_ulps: u64) -> Option<usize> {
    if a.len() != b.len() {
        return Some(a.len().min(b.len()));
    }
    a.iter().zip(b).position(|(x, y)| x.1 != y.1 || ulps(x.0, y.0) > max_ulps)
}

/// all checks for one multiset of source values of type T
fn case<T: MetricValue + Clone + Send + Sync + 'static>(values: &[T], small_counts: bool, ctx: &str, rep: &Report) -> bool {
    let inputs: Vec<(f64, u64)> = values.iter().flat_map(contributions).collect();
    // non-atomic exponential
    let mut h: Histogram<T, ExponentialAggregationStrategy> = Histogram::default();
    for v in values {
        h.add_value(v);
    }
    let closed = h.close();
    let out = closed_obs(&closed);
    if !check_exponential(&inputs, &out, &format!("{ctx} / Histogram<_, Exponential>"), rep) {
        return false;
    }
    // atomic, single-threaded
    let sh: SharedHistogram<T, AtomicExponentialAggregationStrategy> = SharedHistogram::default();
    for v in values {
        sh.add_value(v.clone());
    }
    let out_atomic = closed_obs(&sh.close());
    if let Some(i) = same_lists(&out, &out_atomic, 0) {
        rep.violation("atomic-differs-from-non-atomic", json!({"ctx": ctx, "index": i, "non_atomic": out.get(i), "atomic": out_atomic.get(i)}));
        return false;
    }
    // atomic, concurrent: the same multiset dealt to threads
    if values.len() >= 4 {
        let sh: Arc<SharedHistogram<T, AtomicExponentialAggregationStrategy>> = Arc::new(SharedHistogram::default());
        let nthreads = if is_miri() { 2 } else { 2 + values.len() % 7 };
        let chunks: Vec<Vec<T>> = (0..nthreads).map(|t| values.iter().skip(t).step_by(nthreads).cloned().collect()).collect();
        let ts: Vec<_> = chunks
            .into_iter()
            .map(|c| {
                let sh = sh.clone();
                std::thread::spawn(move || {
                    for v in c {
                        sh.add_value(v);
                    }
                })
            })
            .collect();
        for t in ts {
            let _ = t.join();
        }
        let out_conc = closed_obs(&Arc::try_unwrap(sh).ok().expect("sole owner").close());
        if let Some(i) = same_lists(&out, &out_conc, 0) {
            rep.violation("concurrent-atomic-differs", json!({"ctx": ctx, "index": i, "sequential": out.get(i), "concurrent": out_conc.get(i), "threads": nthreads}));
            return false;
        }
        rep.count("concurrent_recordings", 1);
    }
    // re-aggregation, exponential
    let mut again: Histogram<T, ExponentialAggregationStrategy> = Histogram::default();
    <Histogram<T, ExponentialAggregationStrategy> as AggregateValue<HistogramClosed<T>>>::insert(&mut again, closed);
    let out2 = closed_obs(&again.close());
    if let Some(i) = same_lists(&out, &out2, 2) {
        rep.violation("re-aggregation-changed-histogram", json!({"ctx": format!("{ctx} / exponential"), "index": i, "before": out.get(i), "after": out2.get(i), "len_before": out.len(), "len_after": out2.len()}));
        return false;
    }
    // sort-and-merge (stores one f64 per occurrence: only with small counts)
    if small_counts {
        let mut s: Histogram<T, SortAndMerge> = Histogram::default();
        for v in values {
            s.add_value(v);
        }
        let closed = s.close();
        let out = closed_obs(&closed);
        if !check_sort_merge(&inputs, &out, &format!("{ctx} / Histogram<_, SortAndMerge>"), rep) {
            return false;
        }
        let mut again: Histogram<T, SortAndMerge> = Histogram::default();
        <Histogram<T, SortAndMerge> as AggregateValue<HistogramClosed<T>>>::insert(&mut again, closed);
        let out2 = closed_obs(&again.close());
        if let Some(i) = same_lists(&out, &out2, 2) {
            rep.violation("re-aggregation-changed-histogram", json!({"ctx": format!("{ctx} / sort-and-merge"), "index": i, "before": out.get(i), "after": out2.get(i), "len_before": out.len(), "len_after": out2.len()}));
            return false;
        }
    }
    rep.count("observations_recorded", inputs.iter().map(|i| i.1.min(1 << 20)).sum());
    true
}

fn obs_list(v: &[Observation]) -> Vec<(f64, u64)> {
    v.iter()
        .map(|o| match *o {
            Observation::Repeated { total, occurrences } => (total, occurrences),
            Observation::Unsigned(u) => (u as f64, 1),
            Observation::Floating(f) => (f, 1),
            _ => (f64::NAN, 0),
        })
        .collect()
}

/// `drain()` is documented to reset a strategy: several recording windows through ONE strategy
/// object, drained in between, the last window through a histogram built around the used strategy.
/// Every window's output must account for that window's observations only.
fn windows_history(rng: &mut Rng, bounds: &[u64], rep: &Report) -> bool {
    let nwin = 2 + rng.usize_below(3);
    let kind = rng.below(3);
    let wins: Vec<Vec<(f64, u64)>> = (0..nwin)
        .map(|w| {
            let n = if rng.below(5) == 0 { 0 } else { 1 + rng.usize_below(if is_miri() { 4 } else { 40 }) };
            (0..n)
                .map(|_| {
                    let top = *rng.pick(&[1u64, 5, 1 << 20]);
                    (gen_value(rng, bounds), if w + 1 == nwin || kind == 1 { 1 } else { 1 + rng.below(top) })
                })
                .collect()
        })
        .collect();
    let name = ["ExponentialAggregationStrategy", "SortAndMerge", "AtomicExponentialAggregationStrategy"][kind as usize];
    let ctx = |w: usize| format!("{name}: window {} of {nwin} through one strategy object (windows before it: {:?} observations)", w + 1, wins[..w].iter().map(|x| x.len()).collect::<Vec<_>>());
    let last = &wins[nwin - 1];
    let ok = match kind {
        0 => {
            let mut s = ExponentialAggregationStrategy::new();
            for (w, win) in wins[..nwin - 1].iter().enumerate() {
                for (v, n) in win {
                    s.record_many(*v, *n);
                }
                if !check_exponential(win, &obs_list(&s.drain()), &ctx(w), rep) {
                    return false;
                }
            }
            let mut h: Histogram<f64, ExponentialAggregationStrategy> = Histogram::new(s);
            for (v, _) in last {
                h.add_value(v);
            }
            check_exponential(last, &closed_obs(&h.close()), &ctx(nwin - 1), rep)
        }
        1 => {
            let mut s: SortAndMerge = SortAndMerge::new();
            for (w, win) in wins[..nwin - 1].iter().enumerate() {
                for (v, n) in win {
                    s.record_many(*v, *n);
                }
                if !check_sort_merge(win, &obs_list(&s.drain()), &ctx(w), rep) {
                    return false;
                }
            }
            let mut h: Histogram<f64, SortAndMerge> = Histogram::new(s);
            for (v, _) in last {
                h.add_value(v);
            }
            check_sort_merge(last, &closed_obs(&h.close()), &ctx(nwin - 1), rep)
        }
        _ => {
            let s = AtomicExponentialAggregationStrategy::new();
            for (w, win) in wins[..nwin - 1].iter().enumerate() {
                for (v, n) in win {
                    s.record_many(*v, *n);
                }
                if !check_exponential(win, &obs_list(&s.drain()), &ctx(w), rep) {
                    return false;
                }
            }
            let h: SharedHistogram<f64, AtomicExponentialAggregationStrategy> = SharedHistogram::new(s);
            for (v, _) in last {
                h.add_value(*v);
            }
            check_exponential(last, &closed_obs(&h.close()), &ctx(nwin - 1), rep)
        }
    };
    if ok {
        rep.count("strategy_reuse_windows_checked", nwin as u64);
    }
    ok
}

/// 2-4 threads, released together, each add ONE or two values of very different magnitude to a fresh
/// shared histogram: the first records into an empty histogram race with each other
fn aligned_round(rng: &mut Rng, bounds: &[u64], rep: &Report) -> bool {
    let nthreads = if is_miri() { 2 } else { 2 + rng.usize_below(3) };
    let per = 1 + rng.usize_below(2);
    let vals: Vec<Vec<f64>> = (0..nthreads).map(|_| (0..per).map(|_| gen_value(rng, bounds)).collect()).collect();
    let sh: Arc<SharedHistogram<f64, AtomicExponentialAggregationStrategy>> = Arc::new(SharedHistogram::default());
    let gate = Arc::new(std::sync::atomic::AtomicUsize::new(0));
    let ts: Vec<_> = vals
        .iter()
        .cloned()
        .map(|mine| {
            let (sh, gate) = (sh.clone(), gate.clone());
            std::thread::spawn(move || {
                gate.fetch_add(1, std::sync::atomic::Ordering::SeqCst);
                let mut spins = 0u32;
                while gate.load(std::sync::atomic::Ordering::SeqCst) < nthreads {
                    spins += 1;
                    if spins > 2000 {
                        std::thread::yield_now();
                    } else {
                        std::hint::spin_loop();
                    }
                }
                for v in mine {
                    sh.add_value(v);
                }
            })
        })
        .collect();
    for t in ts {
        let _ = t.join();
    }
    let out = closed_obs(&Arc::try_unwrap(sh).ok().expect("sole owner").close());
    let mut h: Histogram<f64, ExponentialAggregationStrategy> = Histogram::default();
    for v in vals.iter().flatten() {
        h.add_value(v);
    }
    let want = closed_obs(&h.close());
    if let Some(i) = same_lists(&want, &out, 0) {
        rep.violation(
            "concurrent-atomic-differs",
            json!({"ctx": "threads released together, each adding its values to a fresh SharedHistogram", "values_per_thread": vals, "index": i,
                   "sequential_non_atomic": want, "concurrent_atomic": out}),
        );
        return false;
    }
    rep.count("aligned_concurrent_rounds", 1);
    true
}

/// every boundary of the (4,64) layout below 2^53 (scaled), computed from the formula
/// the source value's own conversion, checked against arithmetic done here (the histogram oracle
/// takes its inputs through the source's Value impl, so that impl is checked separately)
fn check_duration_sources<T: Value>(values: &[T], nanos: &[u128], per_unit: f64, ctx: &str, rep: &Report) -> bool {
    for (v, n) in values.iter().zip(nanos) {
        let got = contributions(v);
        let want = *n as f64 / per_unit;
        let ok = got.len() == 1 && got[0].1 == 1 && (got[0].0 - want).abs() <= want.abs() * 1e-12;
        if !ok {
            rep.violation("source-value-conversion-wrong", json!({"what": "a Duration source does not contribute its exact length (to 1e-12 relative) in the declared unit", "ctx": ctx, "nanoseconds": n.to_string(), "units_per_nanosecond": 1.0 / per_unit, "contributed": format!("{got:?}"), "expected_value": want}));
            return false;
        }
    }
    rep.count("duration_conversions_checked", values.len() as u64);
    true
}

fn boundaries() -> Vec<u64> {
    let mut b: Vec<u64> = (0..32).collect();
    for k in 5..53u32 {
        for j in 0..16u64 {
            b.push((1u64 << k) + j * (1u64 << (k - 4)));
        }
    }
    b
}

fn gen_value(rng: &mut Rng, bounds: &[u64]) -> f64 {
    match rng.below(6) {
        0 => {
            // a bucket boundary or its neighbour, scaled back (exact in f64)
            let b = *rng.pick(bounds);
            let s = match rng.below(3) {
                0 => b.saturating_sub(1),
                1 => b,
                _ => b + 1,
            };
            s.min((1 << 53) - 1) as f64 / 1024.0
        }
        1 => rng.f64() / 32.0,              // linear region, dense
        2 => (rng.below(64) as f64) / 1024.0, // exactly representable small
        3 => if rng.bool() { 0.0 } else { -0.0 }, // negative zero is not a negative value
        _ => {
            // log-uniform in [2^-12, 2^43)
            let e = rng.f64() * 55.0 - 12.0;
            2f64.powf(e).min(8.79e12)
        }
    }
}

fn run_random(rng: &mut Rng, bounds: &[u64], rep: &Report) -> bool {
    let n = 1 + rng.usize_below(if is_miri() { 6 } else { 300 });
    let kind = rng.below(9);
    let ctx = format!("source kind {kind}, {n} values");
    let ok = match kind {
        0 => {
            let v: Vec<f64> = (0..n).map(|_| gen_value(rng, bounds)).collect();
            case(&v, true, &ctx, rep)
        }
        1 => {
            let v: Vec<u64> = (0..n).map(|_| gen_value(rng, bounds).min(8.0e12) as u64).collect();
            case(&v, true, &ctx, rep)
        }
        2 => {
            let v: Vec<u32> = (0..n).map(|_| gen_value(rng, bounds).min(4.0e9) as u32).collect();
            case(&v, true, &ctx, rep)
        }
        3 => {
            // Duration reports fractional milliseconds
            let v: Vec<Duration> = (0..n).map(|_| Duration::from_nanos((gen_value(rng, bounds).min(8.0e12) * 1000.0) as u64)).collect();
            let nanos: Vec<u128> = v.iter().map(|d| d.as_nanos()).collect();
            check_duration_sources(&v, &nanos, 1e6, &ctx, rep) && case(&v, true, &ctx, rep)
        }
        4 => {
            let d: Vec<Duration> = (0..n).map(|_| Duration::from_nanos((gen_value(rng, bounds).min(8.0e12) * 1000.0) as u64 + rng.below(1000))).collect();
            let nanos: Vec<u128> = d.iter().map(|d| d.as_nanos()).collect();
            let v: Vec<AsSeconds<Duration>> = d.into_iter().map(AsSeconds::from).collect();
            check_duration_sources(&v, &nanos, 1e9, &ctx, rep) && case(&v, true, &ctx, rep)
        }
        5 => {
            let d: Vec<Duration> = (0..n).map(|_| Duration::from_nanos((gen_value(rng, bounds).min(8.0e9) * 1000.0) as u64 + rng.below(1000))).collect();
            let nanos: Vec<u128> = d.iter().map(|d| d.as_nanos()).collect();
            let v: Vec<AsMicroseconds<Duration>> = d.into_iter().map(AsMicroseconds::from).collect();
            check_duration_sources(&v, &nanos, 1e3, &ctx, rep) && case(&v, true, &ctx, rep)
        }
        8 => {
            // several observations per write, zero-occurrence ones in any position
            let v: Vec<Multi> = (0..n.min(30))
                .map(|_| Multi((0..1 + rng.below(6)).map(|_| (gen_value(rng, bounds), match rng.below(5) { 0 => 0, 1 => 2 + rng.below(20), _ => 1 })).collect()))
                .collect();
            case(&v, true, &ctx, rep)
        }
        6 => {
            // repeated observations with small counts (also through sort-and-merge)
            let v: Vec<Rep> = (0..n.min(40)).map(|_| Rep { v: gen_value(rng, bounds), n: if rng.below(6) == 0 { 0 } else { 1 + rng.below(1000) } }).collect();
            case(&v, true, &ctx, rep)
        }
        _ => {
            // repeated observations with large counts, exponential only
            let v: Vec<Rep> = (0..n).map(|_| Rep { v: gen_value(rng, bounds), n: if rng.below(8) == 0 { 0 } else { 1 + (rng.next_u64() >> (24 + rng.below(40))) } }).collect();
            case(&v, false, &ctx, rep)
        }
    };
    if ok {
        rep.distinct(Fnv::new().u64(kind).u64(n as u64).u64(rng.next_u64() % 1024).finish());
    }
    ok
}

fn main() {
    let args = Args::parse();
    let rep = Report::new("C11", &args);
    rep.rule(
        "value multisets: every boundary of the (4,64) layout (from the formula) below 2^53 scaled, each +-1, divided by 1024; log-uniform values in [0,2^43); the linear region below 1/32 densely; \
         repeated observations with counts up to 2^40 (exponential) / 10^3 (sort-and-merge); sources u64, u32, f64, Duration, AsSeconds/AsMicroseconds<Duration>. For each multiset: Histogram<_,Exponential>, \
         SharedHistogram (atomic) single-threaded and with 2-8 threads adding the same multiset, Histogram<_,SortAndMerge>, and re-aggregation of the closed value into a fresh histogram of the same strategy. \
         Also: 2-4 recording windows through ONE strategy object with drain() in between (documented to reset), the last through Histogram::new(used strategy); and 2-4 threads released together each adding 1-2 values to a fresh SharedHistogram. \
         Oracle: total occurrences conserved; sorted matching of inputs to reported buckets within 6.25% (1/1024 absolute below 1/32); atomic == non-atomic == concurrent; sort-and-merge exact; re-aggregation unchanged. \
         distinct = distinct (source kind, size, draw) classes",
    );
    let bounds = boundaries();
    rep.set("layout_boundaries", bounds.len() as u64);
    // exhaustive part: every boundary and both neighbours, alone and all together
    if !is_miri() {
        let mut all: Vec<f64> = vec![];
        for b in &bounds {
            for s in [b.saturating_sub(1), *b, b + 1] {
                let v = s.min((1 << 53) - 1) as f64 / 1024.0;
                all.push(v);
                rep.eval();
                if !case(&[v], true, &format!("single boundary value {s}/1024"), &rep) {
                    rep.finish_and_exit();
                }
            }
        }
        rep.eval();
        if !case(&all, false, "all boundaries together", &rep) {
            rep.finish_and_exit();
        }
        rep.set("boundary_values_checked", all.len() as u64);
    }
    let budget = Duration::from_secs(args.get_u64("secs", args.by_tier(8, 100)));
    let start = Instant::now();
    let lanes = if is_miri() { 1 } else { args.get_u64("lanes", 8) };
    // a floor on the work per lane, so that a loaded machine makes the run longer rather than thinner
    let min_rounds = args.get_u64("min_rounds", args.by_tier(150, 1500));
    std::thread::scope(|s| {
        for lane in 0..lanes {
            let (rep, args, bounds) = (&rep, &args, &bounds);
            s.spawn(move || {
                let mut rng = Rng::derive(args.seed, lane + 100 * args.get_u64("variant", 0));
                let mut rounds = 0;
                while (start.elapsed() < budget || rounds < if is_miri() { 3 } else { min_rounds }) && rep.violation_count() == 0 {
                    rounds += 1;
                    rep.eval();
                    if !run_random(&mut rng, bounds, rep) || !windows_history(&mut rng, bounds, rep) {
                        return;
                    }
                    for _ in 0..if is_miri() { 1 } else { 6 } {
                        if !aligned_round(&mut rng, bounds, rep) {
                            return;
                        }
                    }
                    if is_miri() && rounds >= 6 {
                        break;
                    }
                }
            });
        }
    });
    rep.sample(|| json!({"example_boundaries_scaled": &bounds[30..40]}));
    if is_miri() {
        println!("OUTCOME evaluations={} observations={} aligned_rounds={} windows={}", rep.evaluations(), rep.counter("observations_recorded"), rep.counter("aligned_concurrent_rounds"), rep.counter("strategy_reuse_windows_checked"));
    }
    rep.finish_and_exit();
}
