//! C01 — the background queue hands every appended entry to the stream exactly once, in
//! per-producer order; nothing else reaches the stream except the rate-limited error report.
//!
//! Shape H (history + reference) + S (the same tiny workload under Miri / TSan).
//! See DESIGN.md §7 C01.

use checks::recorder::{CountingRecorder, Counts};
use metrique_writer::sink::{BackgroundQueue, BackgroundQueueBuilder};
use metrique_writer::{AnyEntrySink, BoxEntrySink, EntrySink};
use std::collections::HashMap;
use std::sync::atomic::{AtomicU64, Ordering};
use std::sync::Arc;
use vcommon::sync::SpinGate as Barrier;
use std::time::{Duration, Instant};
use vcommon::serde_json::json;
use vcommon::stream::{EntryKind, Ev, IdEntry, Outcome, StreamShared, id_producer, id_seq, make_id};
use vcommon::sync::{block_on, default_stall, is_miri, progress_wait, ticket};
use vcommon::{Args, Fnv, Report, Rng};

#[derive(Clone, Copy, Debug, PartialEq)]
enum Mode {
    Typed,
    Boxed,
    BoxedAny,
}

#[derive(Clone, Debug)]
struct Params {
    producers: u32,
    per: u32,
    capacity: usize,
    flush_us: u64,
    mode: Mode,
    delay_pm: u64,
    err_pm: u64,
    flush_pm: u64,
    seed: u64,
    subscriber: bool,
    /// whether the queue gets a metrics recorder (its absence changes the writer's bookkeeping)
    recorder: bool,
}

#[derive(Clone)]
enum Q {
    Typed(BackgroundQueue<IdEntry>),
    Boxed(BoxEntrySink),
    BoxedAny(BoxEntrySink),
}

impl Q {
    fn append(&self, e: IdEntry) {
        match self {
            Q::Typed(q) => q.append(e),
            Q::Boxed(q) => EntrySink::append(q, e),
            Q::BoxedAny(q) => q.append_any(e),
        }
    }
    fn flush_async(&self) -> metrique_writer::sink::FlushWait {
        match self {
            Q::Typed(q) => q.flush_async(),
            Q::Boxed(q) | Q::BoxedAny(q) => AnyEntrySink::flush_async(q),
        }
    }
}

static REPORT_ENTRIES: AtomicU64 = AtomicU64::new(0);

fn scripted_outcome(id: u64, seed: u64, err_pm: u64) -> Outcome {
    let h = Fnv::new().u64(id).u64(seed).finish() % 1000;
    if h < err_pm / 2 {
        Outcome::Validation
    } else if h < err_pm {
        Outcome::Io
    } else {
        Outcome::Ok
    }
}

/// runs one history against the real queue and checks it; returns the delivery signature
fn run_history(p: &Params, rep: &Report) -> Option<u64> {
    let sh = StreamShared::new(p.seed);
    sh.delay_per_mille.store(p.delay_pm, Ordering::Relaxed);
    let (seed, err_pm) = (p.seed, p.err_pm);
    sh.set_script(move |k| match k {
        EntryKind::Id(id) => scripted_outcome(*id, seed, err_pm),
        // the in-band error report is an entry like any other to the stream: in two thirds of the
        // histories it is refused or fails (it still counts against the one-per-second limit, and
        // nothing changes for the entries after it)
        EntryKind::ErrorReport(_) => match seed % 3 {
            0 => Outcome::Ok,
            1 => Outcome::Io,
            _ => Outcome::Validation,
        },
        _ => Outcome::Ok,
    });
    let counts = Arc::new(Counts::default());
    let mut builder = BackgroundQueueBuilder::new().capacity(p.capacity).flush_interval(Duration::from_micros(p.flush_us));
    if p.recorder {
        builder = builder.metrics_recorder_local::<dyn metrics::Recorder, _>(CountingRecorder(counts.clone()));
    }
    let (q, handle) = match p.mode {
        Mode::Typed => {
            let (q, h) = builder.build::<IdEntry>(sh.stream());
            (Q::Typed(q), h)
        }
        Mode::Boxed => {
            let (q, h) = builder.build_boxed(sh.stream());
            (Q::Boxed(q), h)
        }
        Mode::BoxedAny => {
            let (q, h) = builder.build_boxed(sh.stream());
            (Q::BoxedAny(q), h)
        }
    };

    let appended = Arc::new(AtomicU64::new(0));
    let barrier = Arc::new(Barrier::new(p.producers as usize));
    let stalled = Arc::new(AtomicU64::new(0));
    let mut threads = vec![];
    for prod in 0..p.producers {
        let q = q.clone(); // every producer appends through its own clone
        let sh = sh.clone();
        let appended = appended.clone();
        let barrier = barrier.clone();
        let stalled = stalled.clone();
        let p = p.clone();
        threads.push(std::thread::spawn(move || {
            let mut rng = Rng::derive(p.seed, 100 + prod as u64);
            barrier.wait();
            let mut calls = vec![];
            for seq in 0..p.per {
                // flow control: never more than `capacity` entries outstanding, so the ring wraps
                // constantly but cannot overflow (overflow belongs to C09)
                let idx = appended.fetch_add(1, Ordering::SeqCst);
                let ok = progress_wait(
                    || idx < sh.consumed_ids.load(Ordering::SeqCst) + p.capacity as u64,
                    default_stall(),
                );
                if !ok {
                    stalled.fetch_add(1, Ordering::SeqCst);
                    return calls;
                }
                let call = ticket();
                q.append(IdEntry::new(prod, seq));
                calls.push((make_id(prod, seq), call, ticket()));
                vcommon::sync::progress_tick();
                if rng.below(1000) < p.flush_pm {
                    let f = q.flush_async();
                    if rng.bool() {
                        block_on(f);
                    } // else: dropped without waiting
                }
            }
            calls
        }));
    }
    let mut appended_ids = vec![];
    for t in threads {
        match t.join() {
            Ok(c) => appended_ids.extend(c.into_iter().map(|x| x.0)),
            Err(_) => {
                rep.violation("append-panicked", json!({"params": format!("{p:?}")}));
                return None;
            }
        }
    }
    if stalled.load(Ordering::SeqCst) > 0 {
        // logical evidence: producers were waiting for consumption, nothing moved for the stall
        // period, although entries were outstanding
        let outstanding =
            appended.load(Ordering::SeqCst) as i64 - sh.consumed_ids.load(Ordering::SeqCst) as i64;
        rep.violation(
            "writer-stalled",
            json!({"params": format!("{p:?}"), "outstanding": outstanding,
                   "note": "no ticket progress for the stall period while appended entries were waiting to be consumed"}),
        );
        sh.open_all();
        handle.forget();
        return None;
    }
    drop(q);
    handle.shut_down();
    // (without a recorder the absence of overflow rests on the flow control alone: at most
    // `capacity` entries are ever outstanding)
    let overflows = counts.counter("metrique_queue_overflows");
    if overflows != 0 {
        // precondition of C01 not met; excluded (and counted), never judged
        rep.count("histories_excluded_overflow", 1);
        return None;
    }
    let log = sh.log();
    check_log(p, &appended_ids, &log, rep)
}

fn check_log(p: &Params, appended: &[u64], log: &[Ev], rep: &Report) -> Option<u64> {
    let witness = |what: &str, extra: vcommon::serde_json::Value| {
        json!({
            "what": what,
            "params": format!("{p:?}"),
            "extra": extra,
            "log_tail": log.iter().rev().take(40).rev().map(|e| format!("{e:?}")).collect::<Vec<_>>(),
        })
    };
    let mut seen: HashMap<u64, u32> = HashMap::new();
    let mut last_seq: HashMap<u32, u32> = HashMap::new();
    let mut sig = Fnv::new();
    let mut ok = true;
    for (i, ev) in log.iter().enumerate() {
        match ev {
            Ev::Next { kind: EntryKind::Id(id), outcome, .. } => {
                *seen.entry(*id).or_insert(0) += 1;
                let (pr, sq) = (id_producer(*id), id_seq(*id));
                sig.u64(pr as u64);
                if let Some(prev) = last_seq.get(&pr) {
                    if sq <= *prev {
                        rep.violation(
                            "per-producer-order",
                            witness("entry delivered out of its producer's append order (or twice)",
                                json!({"producer": pr, "seq": sq, "previous_seq": prev, "log_index": i})),
                        );
                        ok = false;
                    }
                }
                last_seq.insert(pr, sq);
                if *outcome != scripted_outcome(*id, p.seed, p.err_pm) {
                    rep.inconclusive("stream script disagreement (harness error)");
                }
            }
            Ev::Next { kind: EntryKind::ErrorReport(_), .. } => {
                REPORT_ENTRIES.fetch_add(1, Ordering::SeqCst);
                rep.count("error_report_entries", 1);
                let after_validation = i > 0
                    && matches!(log[i - 1], Ev::Next { outcome: Outcome::Validation, kind: EntryKind::Id(_), .. });
                if p.subscriber {
                    rep.violation(
                        "report-entry-with-subscriber",
                        witness("in-band error report written although a tracing subscriber is installed", json!({"log_index": i})),
                    );
                    ok = false;
                } else if !after_validation {
                    rep.violation(
                        "report-entry-misplaced",
                        witness("in-band error report does not directly follow a validation failure", json!({"log_index": i})),
                    );
                    ok = false;
                }
            }
            Ev::Next { kind: EntryKind::Other, .. } => {
                rep.violation("foreign-entry", witness("an entry nobody appended reached the stream", json!({"log_index": i})));
                ok = false;
            }
            Ev::Flush { .. } => {}
        }
    }
    for id in appended {
        match seen.get(id).copied().unwrap_or(0) {
            1 => {}
            0 => {
                rep.violation(
                    "entry-lost",
                    witness("appended entry never reached the stream (no overflow, queue shut down cleanly)",
                        json!({"producer": id_producer(*id), "seq": id_seq(*id)})),
                );
                ok = false;
                break;
            }
            n => {
                rep.violation(
                    "entry-duplicated",
                    witness("entry handed to the stream more than once",
                        json!({"producer": id_producer(*id), "seq": id_seq(*id), "times": n})),
                );
                ok = false;
                break;
            }
        }
    }
    if seen.len() > appended.len() {
        rep.violation("unknown-id", witness("stream saw ids that were never appended", json!({})));
        ok = false;
    }
    rep.count("entries_delivered", seen.len() as u64);
    rep.count("flush_calls_seen", log.iter().filter(|e| e.is_flush()).count() as u64);
    rep.count(
        "entries_with_scripted_error",
        log.iter().filter(|e| matches!(e, Ev::Next { outcome: Outcome::Validation | Outcome::Io, .. })).count() as u64,
    );
    if ok { Some(sig.finish()) } else { None }
}

fn gen_params(rng: &mut Rng, subscriber: bool, thorough: bool) -> Params {
    let producers = 1 + rng.below(8) as u32;
    let per_max = if thorough { 2000 } else { 600 };
    let per = match rng.below(4) {
        0 => 1 + rng.below(8),
        1 => 1 + rng.below(64),
        _ => 1 + rng.below(per_max),
    } as u32;
    let capacity = match rng.below(5) {
        0 => 2,
        1 => 3 + rng.below(6),
        2 => 8 + rng.below(56),
        _ => 64 + rng.below(960),
    } as usize;
    let flush_us = *rng.pick(&[1u64, 1, 10, 100, 1000, 5000, 20_000, 50_000]);
    Params {
        producers,
        per,
        capacity: capacity.max(2),
        flush_us,
        mode: *rng.pick(&[Mode::Typed, Mode::Boxed, Mode::BoxedAny]),
        delay_pm: *rng.pick(&[0u64, 0, 20, 200, 800]),
        err_pm: *rng.pick(&[0u64, 50, 100, 400, 1000]),
        flush_pm: *rng.pick(&[0u64, 5, 50, 300]),
        seed: rng.next_u64(),
        subscriber,
        recorder: rng.below(3) != 0,
    }
}

/// A stream that forwards a follow-up entry into a queue-backed sink from inside next(): that
/// append runs on a background writer thread, which is a thread like any other.
struct Forwarding {
    inner: vcommon::stream::ScriptedStream,
    target: Arc<std::sync::OnceLock<BackgroundQueue<IdEntry>>>,
}
impl metrique_writer::EntryIoStream for Forwarding {
    fn next(&mut self, entry: &impl metrique_writer::Entry) -> Result<(), metrique_writer::IoStreamError> {
        if let EntryKind::Id(id) = vcommon::stream::classify(entry) {
            if id_producer(id) == 0 {
                self.target.get().expect("target set before the first append").append(IdEntry::new(1, id_seq(id)));
            }
        }
        self.inner.next(entry)
    }
    fn flush(&mut self) -> std::io::Result<()> {
        self.inner.flush()
    }
}

/// Pipelines: (a) queue A's stream forwards one follow-up entry per entry into queue B;
/// (b) a queue whose stream feeds follow-up entries back into the same queue through a clone of
/// its own handle. Every follow-up entry is an appended entry like any other: exactly once, in order.
fn pipeline_scenarios(args: &Args, rep: &Report) {
    let mut rng = Rng::derive(args.seed, 0x50_0001);
    for round in 0..args.by_tier(6, 40) {
        if rep.violation_count() != 0 {
            return;
        }
        rep.eval();
        let n = 1 + rng.below(if round % 3 == 0 { 3000 } else { 40 }) as u32;
        let feedback = round % 2 == 1;
        let sh_a = StreamShared::new(args.seed ^ round);
        let sh_b = StreamShared::new(args.seed ^ round ^ 0xb);
        let target = Arc::new(std::sync::OnceLock::new());
        let (qa, ha) = BackgroundQueueBuilder::new().capacity(8192).flush_interval(Duration::from_millis(1)).build::<IdEntry>(Forwarding { inner: sh_a.stream(), target: target.clone() });
        let qb = if feedback {
            let _ = target.set(qa.clone());
            None
        } else {
            let (qb, hb) = BackgroundQueueBuilder::new().capacity(8192).flush_interval(Duration::from_millis(1)).build::<IdEntry>(sh_b.stream());
            let _ = target.set(qb.clone());
            Some((qb, hb))
        };
        for s in 0..n {
            qa.append(IdEntry::new(0, s));
            if s % 512 == 511 {
                block_on(qa.flush_async());
            }
        }
        // everything A was given has gone through its stream (and has been forwarded) ...
        block_on(qa.flush_async());
        // ... and a second barrier covers what the stream fed back / forwarded meanwhile
        block_on(qa.flush_async());
        if let Some((qb, _)) = &qb {
            block_on(qb.flush_async());
        }
        let follow_log = if feedback { sh_a.log() } else { sh_b.log() };
        let first: Vec<u64> = sh_a.log().iter().filter_map(|e| e.id()).filter(|id| id_producer(*id) == 0).collect();
        let follow: Vec<u64> = follow_log.iter().filter_map(|e| e.id()).filter(|id| id_producer(*id) == 1).collect();
        let want_first: Vec<u64> = (0..n).map(|s| make_id(0, s)).collect();
        let want_follow: Vec<u64> = (0..n).map(|s| make_id(1, s)).collect();
        // break the reference cycle queue -> stream -> queue before shutting down
        drop(qa);
        if let Some((qb, hb)) = qb {
            ha.shut_down();
            drop(qb);
            hb.shut_down();
        } else {
            // the queue's own stream holds a handle on it: it never becomes unreferenced; shut it down
            ha.shut_down();
        }
        if first != want_first || follow != want_follow {
            rep.violation(
                "entry-lost",
                json!({"what": if feedback { "a stream fed one follow-up entry per entry back into its own queue (an append made on the writer thread through a clone of the handle)" } else { "queue A's stream forwarded one follow-up entry per entry into queue B (an append made on A's writer thread)" },
                       "entries": n, "first_stage_delivered": first.len(), "follow_up_entries_delivered": follow.len(), "follow_up_head": &follow[..follow.len().min(8)]}),
            );
            return;
        }
        rep.count("pipeline_scenarios", 1);
        rep.count("entries_appended_on_a_writer_thread_and_delivered", n as u64);
    }
}

/// The in-band error report refused (validation error) or failing (I/O error) at the stream, with the
/// process-wide one-per-second slot known to be free (this runs alone, after a pause): the entries
/// after it are all delivered, once, in order, and at most one report is handed over within the second.
fn refused_report_scenarios(rep: &Report) {
    for (mode, name) in [(Outcome::Validation, "refused with a validation error"), (Outcome::Io, "failing with an I/O error")] {
        std::thread::sleep(Duration::from_millis(1100));
        rep.eval();
        let sh = StreamShared::new(7);
        sh.set_script(move |k| match k {
            EntryKind::Id(id) if id % 2 == 1 => Outcome::Validation,
            EntryKind::ErrorReport(_) => mode,
            _ => Outcome::Ok,
        });
        let sh2 = sh.clone();
        let done = std::thread::spawn(move || {
            let (q, handle) = BackgroundQueueBuilder::new().capacity(64).flush_interval(Duration::from_millis(1)).build::<IdEntry>(sh2.stream());
            for s in 0..10 {
                q.append(IdEntry::new(0, s));
            }
            let flushed = progress_wait(|| sh2.log().iter().filter(|e| e.id().is_some()).count() == 10, Duration::from_secs(5));
            drop(q);
            if flushed {
                handle.shut_down();
            } else {
                handle.forget();
            }
            flushed
        })
        .join();
        let log = sh.log();
        let ids: Vec<u64> = log.iter().filter_map(|e| e.id()).collect();
        let reports = log.iter().filter(|e| matches!(e, Ev::Next { kind: EntryKind::ErrorReport(_), .. })).count();
        let want: Vec<u64> = (0..10).map(|s| make_id(0, s)).collect();
        if done.is_err() || ids != want {
            rep.violation(
                "entry-lost",
                json!({"what": format!("no tracing subscriber; every other entry fails validation; the in-band error report is itself {name} by the stream: every appended entry must still be handed to the stream once, in order"),
                       "entries_delivered": ids.len(), "appended": 10, "report_entries": reports, "shutdown_or_writer_panicked": done.is_err()}),
            );
            return;
        }
        if reports > 1 {
            rep.violation(
                "report-entry-rate",
                json!({"what": format!("five validation failures within a few milliseconds, the in-band report {name}: at most one report entry per second may be handed to the stream"), "report_entries": reports}),
            );
            return;
        }
        rep.count("refused_report_scenarios", 1);
    }
}

fn native_main(args: &Args, rep: &Report) {
    // subscriber=1: an ordinary subscriber; subscriber=2: a subscriber whose filter lets nothing
    // through (a subscriber IS installed, so errors go to tracing - and are filtered there - never in band)
    let subscriber_mode = args.get_u64("subscriber", 0);
    let subscriber = subscriber_mode != 0;
    if subscriber_mode == 2 {
        let sub = tracing_subscriber::fmt().with_max_level(tracing_subscriber::filter::LevelFilter::OFF).with_writer(std::io::sink).finish();
        tracing::subscriber::set_global_default(sub).expect("set subscriber");
    } else if subscriber {
        let sub = tracing_subscriber::fmt().with_writer(std::io::sink).finish();
        tracing::subscriber::set_global_default(sub).expect("set subscriber");
    }
    rep.rule(
        "each evaluation is one history: P in 1..8 producer threads x 1..N entries with unique ids through \
         typed/boxed/append_any handles (one clone per producer) into the real BackgroundQueue, harness-side flow \
         control so the ring wraps but never overflows, random flush requests, per-entry stream results \
         Ok/Validation/Io, seeded perturbation at the cfg(metrique_verif) hook points; oracle: exactly-once, \
         per-producer order, only error-report entries besides; distinct = distinct (producer-sequence-in-stream-order, parameters) hashes",
    );
    vcommon::sync::install_perturbation(args.seed, 0);
    let budget = Duration::from_secs(args.get_u64("secs", args.by_tier(12, 150)));
    let lanes = args.get_u64("lanes", 6);
    let start = Instant::now();
    std::thread::scope(|s| {
        for lane in 0..lanes {
            let rep = &rep;
            let args = &args;
            s.spawn(move || {
                let mut rng = Rng::derive(args.seed, lane + if subscriber { 1000 } else { 0 });
                while start.elapsed() < budget && rep.violation_count() == 0 {
                    let p = gen_params(&mut rng, subscriber, args.thorough());
                    vcommon::sync::set_perturbation(p.seed, *rng.pick(&[0u64, 20, 100, 300]));
                    rep.eval();
                    if let Some(sig) = run_history(&p, rep) {
                        if p.producers > 1 || p.err_pm > 0 {
                            rep.distinct(Fnv::new().u64(sig).u64(p.producers as u64).u64(p.capacity as u64).finish());
                        }
                        rep.sample(|| json!({"params": format!("{p:?}"), "delivery_signature": format!("{sig:016x}")}));
                    }
                }
            });
        }
    });
    // The last queue handle appends and is dropped while the writer is busy elsewhere (held inside
    // flush() serving a flush request, or inside next()), with the join handle forgotten or merely
    // still alive: the queue neither overflowed nor was shut down, so the entry must be written.
    for round in 0..if rep.violation_count() == 0 { 12u32 } else { 0 } {
        let (boxed, hold_flush, forget) = (round % 2 == 0, round % 4 < 2, round % 3 != 0);
        let sh = StreamShared::new(round as u64);
        let b = BackgroundQueueBuilder::new().capacity(64).flush_interval(Duration::from_millis(if round % 5 == 0 { 59_000 } else { 1 }));
        // op(Some(entry)) appends, op(None) requests a flush without awaiting it
        #[allow(clippy::type_complexity)]
        let (op, handle): (Box<dyn Fn(Option<IdEntry>) + Send>, _) = if boxed {
            let (q, h) = b.build_boxed(sh.stream());
            (
                Box::new(move |e| match e {
                    Some(e) => q.append_any(e),
                    None => drop(AnyEntrySink::flush_async(&q)),
                }),
                h,
            )
        } else {
            let (q, h) = b.build::<IdEntry>(sh.stream());
            (
                Box::new(move |e| match e {
                    Some(e) => q.append(e),
                    None => drop(q.flush_async()),
                }),
                h,
            )
        };
        rep.eval();
        op(Some(IdEntry::new(7, 0)));
        op(Some(IdEntry::new(7, 1)));
        let _ = progress_wait(|| sh.consumed_ids.load(Ordering::SeqCst) == 2, default_stall());
        if hold_flush {
            // a flush request makes the writer call stream.flush(), where it is held
            sh.close_flush_gate(true);
            op(None);
            let _ = progress_wait(|| sh.blocked_flush.load(Ordering::SeqCst), Duration::from_secs(5));
            op(Some(IdEntry::new(7, 2)));
        } else {
            sh.set_fuel(Some(0));
            op(Some(IdEntry::new(7, 2)));
            let _ = progress_wait(|| sh.blocked_next.load(Ordering::SeqCst), Duration::from_secs(5));
        }
        op(Some(IdEntry::new(7, 3)));
        let q = op;
        let kept = if forget {
            handle.forget();
            None
        } else {
            Some(handle)
        };
        drop(q); // the last queue handle
        std::thread::sleep(Duration::from_millis(1));
        sh.open_all();
        // (when and whether the stream is closed afterwards is C05's business; here: nothing is lost)
        let _ = progress_wait(|| sh.consumed_ids.load(Ordering::SeqCst) >= 4 || sh.is_dropped(), default_stall());
        let closed = sh.is_dropped();
        let ids: Vec<u64> = sh.log().iter().filter_map(|e| e.id()).collect();
        let want: Vec<u64> = (0..4).map(|s| make_id(7, s)).collect();
        if ids != want {
            rep.violation(
                "entry-lost",
                json!({"what": "last queue handle appended and was dropped while the writer was held inside the stream (join handle forgotten or still alive): every entry must be written",
                       "boxed": boxed, "writer_held_in": if hold_flush { "flush()" } else { "next()" }, "join_handle": if forget { "forgotten" } else { "alive" },
                       "written": ids.iter().map(|i| id_seq(*i)).collect::<Vec<_>>(), "expected": [0, 1, 2, 3], "stream_closed": closed}),
            );
        }
        rep.count("last_handle_scenarios", 1);
        drop(kept);
    }
    // A shutdown timeout shorter than the time the writer has already spent in its current loop
    // iteration (it is held inside next() for longer than the timeout, with a backlog): the timeout
    // bounds the FINAL DRAIN, counted from the shutdown; it must not cut the drain short because the
    // iteration that noticed the shutdown was old. (3 s of timeout for 300 trivial entries: the
    // timeout itself cannot expire.)
    for boxed in if !subscriber && rep.violation_count() == 0 { vec![false, true] } else { vec![] } {
        rep.eval();
        let sh = StreamShared::new(41);
        let b = BackgroundQueueBuilder::new().capacity(1024).flush_interval(Duration::from_millis(700)).shutdown_timeout(Duration::from_secs(3));
        let (append, handle): (Box<dyn Fn(IdEntry) + Send>, _) = if boxed {
            let (q, h) = b.build_boxed(sh.stream());
            (Box::new(move |e| q.append_any(e)), h)
        } else {
            let (q, h) = b.build::<IdEntry>(sh.stream());
            (Box::new(move |e| q.append(e)), h)
        };
        sh.set_fuel(Some(0));
        append(IdEntry::new(9, 0));
        let _ = progress_wait(|| sh.blocked_next.load(Ordering::SeqCst), Duration::from_secs(5));
        for s in 1..300 {
            append(IdEntry::new(9, s));
        }
        std::thread::sleep(Duration::from_millis(3300));
        let t = std::thread::spawn(move || handle.shut_down());
        std::thread::sleep(Duration::from_millis(5));
        sh.open_all();
        let _ = t.join();
        let written = sh.log().iter().filter(|e| e.id().is_some()).count();
        if written != 300 {
            rep.violation(
                "entry-lost",
                json!({"what": "writer held inside next() for 3.3 s with 299 entries queued behind it (shutdown_timeout 3 s, flush interval 0.7 s), then shut down and released: the final drain has 3 s from the shutdown, nothing may be cut off",
                       "boxed": boxed, "written": written, "appended": 300}),
            );
        }
        rep.count("stale_iteration_shutdown_scenarios", 1);
        drop(append);
    }
    pipeline_scenarios(args, rep);
    if !subscriber && rep.violation_count() == 0 {
        refused_report_scenarios(rep);
    }
    // A subscriber installed AFTER a queue was built: from then on a validation failure must be
    // reported through tracing, not in band. (The global subscriber can be set once per process,
    // so this runs once, at the very end, when no other history is in flight.)
    if !subscriber && rep.violation_count() == 0 {
        let sh = StreamShared::new(args.seed);
        sh.set_script(|k| match k {
            EntryKind::Id(id) if id % 2 == 1 => Outcome::Validation,
            _ => Outcome::Ok,
        });
        let (q, handle) = BackgroundQueueBuilder::new().capacity(64).flush_interval(Duration::from_millis(1)).build::<IdEntry>(sh.stream());
        q.append(IdEntry::new(0, 0));
        block_on(q.flush_async());
        let sub = tracing_subscriber::fmt().with_writer(std::io::sink).finish();
        if tracing::subscriber::set_global_default(sub).is_ok() {
            // the report is rate limited to one per second: wait out the window so that it WOULD be written
            std::thread::sleep(Duration::from_millis(1100));
            for s in 1..6 {
                q.append(IdEntry::new(0, s));
            }
            block_on(q.flush_async());
            drop(q);
            handle.shut_down();
            let log = sh.log();
            rep.eval();
            if log.iter().any(|e| matches!(e, Ev::Next { kind: EntryKind::ErrorReport(_), .. })) {
                rep.violation(
                    "report-entry-with-subscriber",
                    json!({"what": "a tracing subscriber was installed after the queue was built; a later validation failure still wrote the in-band error report entry",
                           "log": log.iter().map(|e| format!("{e:?}")).collect::<Vec<_>>()}),
                );
            }
            let ids: Vec<u64> = log.iter().filter_map(|e| e.id()).collect();
            if ids != (0..6).map(|s| make_id(0, s)).collect::<Vec<_>>() {
                rep.violation("entry-lost", json!({"what": "late-subscriber scenario: entries missing or reordered", "ids": ids}));
            }
            rep.count("late_subscriber_scenarios", 1);
        }
    }
    // rate limit of the in-band report: at most one per second, process-wide
    let reports = REPORT_ENTRIES.load(Ordering::SeqCst);
    let allowed = start.elapsed().as_secs() + 2;
    if reports > allowed {
        rep.violation(
            "report-entry-rate",
            json!({"report_entries": reports, "allowed": allowed, "elapsed_s": start.elapsed().as_secs_f64()}),
        );
    }
    if !subscriber && reports == 0 && rep.counter("entries_with_scripted_error") > 0 && rep.violation_count() == 0 {
        // the report path was never observed although validation errors happened: say so
        rep.count("note_no_report_entry_observed", 1);
    }
    for (name, hits) in vcommon::sync::hook_hits() {
        rep.set(&format!("hook:{name}"), hits);
    }
    if vcommon::sync::hooks_compiled_in() && vcommon::sync::hook_hits().is_empty() {
        rep.inconclusive("hook points never reached");
    }
}

/// Tiny instance for Miri / sanitizer builds: one history per process run.
fn tiny_main(args: &Args, rep: &Report) {
    rep.rule(
        "tiny instance (2 producers x 3 entries, capacity 2 or 4, one flush, one scripted Validation result) \
         under the interpreter/sanitizer; one history per process, schedules chosen by the tool's seed",
    );
    vcommon::sync::install_perturbation(args.seed, 1000);
    let variant = args.get_u64("variant", 0);
    let p = Params {
        producers: 2,
        per: 3,
        capacity: if variant % 2 == 0 { 2 } else { 4 },
        flush_us: if variant % 4 < 2 { 1 } else { 2000 },
        mode: [Mode::Typed, Mode::Boxed, Mode::BoxedAny][(variant % 3) as usize],
        delay_pm: 300,
        err_pm: 300,
        flush_pm: 200,
        seed: args.seed.wrapping_add(variant),
        subscriber: false,
        recorder: variant % 2 == 0,
    };
    rep.eval();
    if let Some(sig) = run_history(&p, rep) {
        println!("OUTCOME sig={sig:016x} variant={variant}");
        rep.distinct(sig);
        rep.distinct(sig ^ 1); // a single-history process: the driver counts distinct OUTCOME lines
        rep.sample(|| json!({"params": format!("{p:?}"), "delivery_signature": format!("{sig:016x}")}));
    }
}

fn main() {
    let args = Args::parse();
    let rep = Report::new("C01", &args);
    if is_miri() || args.get_u64("tiny", 0) == 1 {
        tiny_main(&args, &rep);
    } else {
        native_main(&args, &rep);
    }
    rep.finish_and_exit();
}
