//! C15 — entry and value wrappers are transparent apart from their documented additions.
//! Shape R: the ordered call log (and sample group) a recording writer sees for a wrapped
//! entry must be a pure function of the plain entry's log. See DESIGN.md §7 C15.

use checks::emf_util::{UNITS, flag_ctor, gen_obs_list, gen_text};
use metrique::unit_of_work::metrics;
use metrique_writer::entry::WithGlobalDimensions;
use metrique_writer::format::{Format, FormatExt};
use metrique_writer::stream::tee;
use metrique_writer::value::{FlagConstructor, ForceFlag, MetricFlags, MetricOptions, WithDimensions};
use metrique_writer::{BoxEntry, Entry, EntryIoStream, EntryIoStreamExt, IoStreamError, Value, ValueWriter};
use metrique_writer_format_emf::{HighStorageResolutionCtor, NoMetricCtor};
use smallvec::SmallVec;
use std::borrow::Cow;
use std::collections::HashSet;
use std::io;
use std::sync::{Arc, Mutex};
use std::time::{Duration, Instant};
use vcommon::recording::{Op, POp, PVal, ProgramEntry, Val, log_json, record, record_sample_group};
use vcommon::serde_json::{Value as J, json};
use vcommon::{Args, Fnv, Report, Rng};

// ------------------------------------------------------------------------------------------
// a flag family of the harness's own (mergeable with itself)

#[derive(Debug)]
struct TestOpt(u8);
impl MetricOptions for TestOpt {
    fn try_merge(&self, other: &dyn MetricOptions) -> Option<MetricFlags<'static>> {
        let o = (other as &dyn std::any::Any).downcast_ref::<TestOpt>()?;
        Some(MetricFlags::upcast(match self.0.max(o.0) {
            1 => &TestOpt(1),
            _ => &TestOpt(2),
        }))
    }
}
struct TestFlag1;
impl FlagConstructor for TestFlag1 {
    fn construct() -> MetricFlags<'static> {
        MetricFlags::upcast(&TestOpt(1))
    }
}
struct TestFlag2;
impl FlagConstructor for TestFlag2 {
    fn construct() -> MetricFlags<'static> {
        MetricFlags::upcast(&TestOpt(2))
    }
}

/// a flag switched off (by configuration, say): forcing it adds nothing and must take nothing away
struct TestFlagOff;
impl FlagConstructor for TestFlagOff {
    fn construct() -> MetricFlags<'static> {
        MetricFlags::empty()
    }
}

#[derive(Clone, Copy, Debug, PartialEq)]
enum Flag {
    Off,
    T1,
    T2,
    High,
    NoMetric,
}
impl Flag {
    fn debug(self) -> String {
        format!("{:?}", match self {
            Flag::Off => TestFlagOff::construct(),
            Flag::T1 => TestFlag1::construct(),
            Flag::T2 => TestFlag2::construct(),
            Flag::High => HighStorageResolutionCtor::construct(),
            Flag::NoMetric => NoMetricCtor::construct(),
        })
    }
}
/// reference merge: what `existing.try_merge(forced)` must give, as the Debug rendering
fn merged_flag(existing: &Option<String>, forced: Flag) -> Option<String> {
    let all = [Flag::T1, Flag::T2, Flag::High, Flag::NoMetric];
    if forced == Flag::Off {
        return existing.clone();
    }
    match existing {
        None => Some(forced.debug()),
        Some(e) => {
            let ex = all.iter().copied().find(|f| f.debug() == *e).expect("known flag");
            let winner = match (ex, forced) {
                (Flag::T1, Flag::T1) => Flag::T1,
                (Flag::T1 | Flag::T2, Flag::T1 | Flag::T2) => Flag::T2,
                (Flag::High, Flag::High) => Flag::High,
                (Flag::High | Flag::NoMetric, Flag::High | Flag::NoMetric) => Flag::NoMetric,
                _ => unreachable!("families are never mixed"),
            };
            Some(winner.debug())
        }
    }
}

// ------------------------------------------------------------------------------------------
// layers

#[derive(Clone, Debug)]
enum Layer {
    Boxed,
    BoxT,
    OptionSome,
    GlobalsFirst(ProgramEntry),
    EntryFirst(ProgramEntry),
    GlobalDims { dims: Vec<(String, String)>, deny: Vec<String> },
    EntryDims { dims: Vec<(String, String)> },
    Force(Flag),
}

fn cow_dims(d: &[(String, String)]) -> Vec<(Cow<'static, str>, Cow<'static, str>)> {
    d.iter().map(|(a, b)| (Cow::Owned(a.clone()), Cow::Owned(b.clone()))).collect()
}

fn apply(layer: &Layer, e: BoxEntry) -> BoxEntry {
    match layer {
        Layer::Boxed => e.boxed(),
        Layer::BoxT => Box::new(e).boxed(),
        Layer::OptionSome => Some(e).boxed(),
        Layer::GlobalsFirst(g) => g.clone().merge(e).boxed(),
        Layer::EntryFirst(g) => e.merge(g.clone()).boxed(),
        Layer::GlobalDims { dims, deny } => {
            WithGlobalDimensions::<_, 2>::new_with_global_dimensions(e, cow_dims(dims), deny.iter().map(|d| Cow::Owned(d.clone())).collect::<HashSet<_>>()).boxed()
        }
        Layer::EntryDims { dims } => WithDimensions::<_, 1>::new_with_dimensions(e, cow_dims(dims)).boxed(),
        Layer::Force(Flag::Off) => ForceFlag::<_, TestFlagOff>::from(e).boxed(),
        Layer::Force(Flag::T1) => ForceFlag::<_, TestFlag1>::from(e).boxed(),
        Layer::Force(Flag::T2) => ForceFlag::<_, TestFlag2>::from(e).boxed(),
        Layer::Force(Flag::High) => ForceFlag::<_, HighStorageResolutionCtor>::from(e).boxed(),
        Layer::Force(Flag::NoMetric) => ForceFlag::<_, NoMetricCtor>::from(e).boxed(),
    }
}

/// the documented effect of a layer on (call log, sample group)
fn expect(layer: &Layer, log: Vec<Op>, sg: Vec<(String, String)>) -> (Vec<Op>, Vec<(String, String)>) {
    let map_metrics = |log: Vec<Op>, f: &dyn Fn(&str, &mut Vec<(String, String)>, &mut Option<String>)| -> Vec<Op> {
        log.into_iter()
            .map(|op| match op {
                Op::Value { name, val: Val::Metric { obs, unit, mut dims, mut flags } } => {
                    f(&name, &mut dims, &mut flags);
                    Op::Value { name, val: Val::Metric { obs, unit, dims, flags } }
                }
                o => o,
            })
            .collect()
    };
    match layer {
        Layer::Boxed | Layer::BoxT | Layer::OptionSome => (log, sg),
        Layer::GlobalsFirst(g) => {
            let mut l = record(g);
            l.extend(log);
            let mut s = record_sample_group(g);
            s.extend(sg);
            (l, s)
        }
        Layer::EntryFirst(g) => {
            let mut l = log;
            l.extend(record(g));
            let mut s = sg;
            s.extend(record_sample_group(g));
            (l, s)
        }
        Layer::GlobalDims { dims, deny } => (
            map_metrics(log, &|name, d, _| {
                if !deny.iter().any(|x| x == name) {
                    d.extend(dims.iter().cloned());
                }
            }),
            sg,
        ),
        Layer::EntryDims { dims } => (map_metrics(log, &|_, d, _| d.extend(dims.iter().cloned())), sg),
        Layer::Force(fl) => (map_metrics(log, &|_, _, f| *f = merged_flag(f, *fl)), sg),
    }
}

// ------------------------------------------------------------------------------------------
// value-level wrappers: a Value that applies the REAL wrapper types around an inner value

/// what a (possibly wrapped) value must be reported as, and how to generate one
trait Wrappable: Value + Clone + std::fmt::Debug + Send + Sync + 'static {
    fn expect(&self) -> Val;
    fn generate(rng: &mut Rng, emf_flags: bool) -> Self;
}

impl Wrappable for PVal {
    fn expect(&self) -> Val {
        vcommon::recording::record_value(self)
    }
    fn generate(rng: &mut Rng, emf_flags: bool) -> Self {
        gen_pval(rng, emf_flags)
    }
}

// one enum type per nesting level (a single recursive type would need infinitely many
// monomorphizations of `write`)
macro_rules! wrapper_level {
    ($name:ident, $inner:ty) => {
        #[derive(Clone, Debug)]
        enum $name {
            Plain($inner),
            Dims(Box<$inner>, Vec<(String, String)>),
            Flag(Box<$inner>, Flag),
            Opt(Option<Box<$inner>>),
            Boxed(Box<$inner>),
            Arced(Arc<$inner>),
            Cowed(Box<$inner>),
            Ref(Box<$inner>),
        }

        impl Value for $name {
            fn write(&self, writer: impl ValueWriter) {
                match self {
                    $name::Plain(p) => p.write(writer),
                    $name::Dims(inner, dims) => WithDimensions::<&$inner, 2>::new_with_dimensions(&**inner, cow_dims(dims)).write(writer),
                    $name::Flag(inner, Flag::Off) => ForceFlag::<&$inner, TestFlagOff>::from(&**inner).write(writer),
                    $name::Flag(inner, Flag::T1) => ForceFlag::<&$inner, TestFlag1>::from(&**inner).write(writer),
                    $name::Flag(inner, Flag::T2) => ForceFlag::<&$inner, TestFlag2>::from(&**inner).write(writer),
                    $name::Flag(inner, Flag::High) => ForceFlag::<&$inner, HighStorageResolutionCtor>::from(&**inner).write(writer),
                    $name::Flag(inner, Flag::NoMetric) => ForceFlag::<&$inner, NoMetricCtor>::from(&**inner).write(writer),
                    $name::Opt(o) => o.as_ref().map(|b| &**b).write(writer),
                    $name::Boxed(b) => Value::write(b, writer),
                    $name::Arced(a) => Value::write(a, writer),
                    $name::Cowed(b) => Cow::<$inner>::Borrowed(&**b).write(writer),
                    $name::Ref(b) => Value::write(&&**b, writer),
                }
            }
        }

        impl Wrappable for $name {
            fn expect(&self) -> Val {
                match self {
                    $name::Plain(p) => p.expect(),
                    $name::Dims(inner, dims) => match inner.expect() {
                        Val::Metric { obs, unit, dims: mut d, flags } => {
                            d.extend(dims.iter().cloned());
                            Val::Metric { obs, unit, dims: d, flags }
                        }
                        v => v,
                    },
                    $name::Flag(inner, f) => match inner.expect() {
                        Val::Metric { obs, unit, dims, flags } => Val::Metric { obs, unit, dims, flags: merged_flag(&flags, *f) },
                        v => v,
                    },
                    $name::Opt(None) => Val::Nothing,
                    $name::Opt(Some(b)) | $name::Boxed(b) | $name::Cowed(b) | $name::Ref(b) => b.expect(),
                    $name::Arced(a) => a.expect(),
                }
            }
            fn generate(rng: &mut Rng, emf_flags: bool) -> Self {
                let inner = <$inner as Wrappable>::generate(rng, emf_flags);
                match rng.below(9) {
                    0 => $name::Dims(Box::new(inner), (0..1 + rng.below(2)).map(|i| (format!("w{i}"), gen_text(rng, false))).collect()),
                    1 => $name::Flag(Box::new(inner), if emf_flags { *rng.pick(&[Flag::High, Flag::NoMetric, Flag::Off]) } else { *rng.pick(&[Flag::T1, Flag::T2, Flag::Off]) }),
                    2 => $name::Opt(if rng.below(4) == 0 { None } else { Some(Box::new(inner)) }),
                    3 => $name::Boxed(Box::new(inner)),
                    4 => $name::Arced(Arc::new(inner)),
                    5 => $name::Cowed(Box::new(inner)),
                    6 => $name::Ref(Box::new(inner)),
                    _ => $name::Plain(inner),
                }
            }
        }
    };
}
wrapper_level!(W1, PVal);
wrapper_level!(W2, W1);
wrapper_level!(W3, W2);
type WVal = W3;

fn expect_wval(w: &WVal) -> Val {
    w.expect()
}

fn gen_pval(rng: &mut Rng, emf_flags: bool) -> PVal {
    match rng.below(8) {
        0 => PVal::Str(gen_text(rng, true)),
        1 => PVal::Error("scripted value error".into()),
        2 => PVal::Nothing,
        _ => PVal::Metric {
            obs: gen_obs_list(rng),
            unit: *rng.pick(UNITS),
            dims: (0..rng.below(3)).map(|i| (format!("d{i}"), gen_text(rng, false))).collect(),
            flags: if emf_flags { flag_ctor(rng.below(4) as u8) } else { None },
        },
    }
}

fn gen_wval(rng: &mut Rng, emf_flags: bool, _depth: u32) -> WVal {
    WVal::generate(rng, emf_flags)
}

/// an entry whose values are wrapped values
#[derive(Clone, Debug)]
struct WEntry {
    values: Vec<(String, WVal)>,
}
impl Entry for WEntry {
    fn write<'a>(&'a self, writer: &mut impl metrique_writer::EntryWriter<'a>) {
        for (n, v) in &self.values {
            writer.value(n.as_str(), v);
        }
    }
}

/// names that entries use repeatedly and deny-lists pick from (ASCII and multi-byte, short and long)
const SHARED_NAMES: &[&str] = &["dup", "x", "Gr\u{f6}\u{df}e", "\u{6240}\u{8981}\u{6642}\u{9593}", "na\u{ef}ve-latency-\u{b5}s", "Lat\u{ea}ncia"];

fn gen_deny(rng: &mut Rng) -> Vec<String> {
    if rng.below(3) == 0 {
        return vec![];
    }
    SHARED_NAMES.iter().filter(|_| rng.bool()).map(|s| s.to_string()).collect()
}

fn gen_program(rng: &mut Rng, emf_flags: bool) -> ProgramEntry {
    let mut ops = vec![];
    if rng.bool() {
        ops.push(POp::Timestamp(std::time::UNIX_EPOCH + Duration::from_millis(rng.below(1 << 40))));
    }
    if rng.below(3) == 0 {
        ops.push(POp::Config(Arc::new(metrique_writer_core::config::AllowSplitEntries::new())));
    }
    for i in 0..rng.below(6) {
        // names repeat on purpose: a wrapper must not de-duplicate or reorder
        let name = if rng.below(3) == 0 { rng.pick(SHARED_NAMES).to_string() } else { format!("{}{}", gen_text(rng, true), i) };
        ops.push(POp::Value(name, gen_pval(rng, emf_flags)));
    }
    if rng.below(4) == 0 {
        ops.push(POp::Config(Arc::new(checks::emf_util::entry_dimensions(&[vec!["Dim".into()]]))));
    }
    let mut e = ProgramEntry::new(ops);
    for i in 0..rng.below(3) {
        e.sample_group.push((format!("g{i}"), gen_text(rng, false)));
    }
    e
}

fn diff(a: &[Op], b: &[Op]) -> J {
    let i = a.iter().zip(b).position(|(x, y)| x != y).unwrap_or(a.len().min(b.len()));
    json!({"first_difference_at": i, "observed": a.get(i).map(|o| o.json()), "expected": b.get(i).map(|o| o.json()), "observed_len": a.len(), "expected_len": b.len()})
}

fn composition_case(rng: &mut Rng, rep: &Report) -> bool {
    let emf_flags = rng.bool();
    let base = gen_program(rng, emf_flags);
    let depth = 1 + rng.below(4);
    let layers: Vec<Layer> = (0..depth)
        .map(|_| match rng.below(8) {
            0 => Layer::Boxed,
            1 => Layer::BoxT,
            2 => Layer::OptionSome,
            3 => Layer::GlobalsFirst(gen_program(rng, emf_flags)),
            4 => Layer::EntryFirst(gen_program(rng, emf_flags)),
            5 => Layer::GlobalDims {
                dims: (0..1 + rng.below(2)).map(|i| (format!("G{i}"), gen_text(rng, false))).collect(),
                deny: gen_deny(rng),
            },
            6 => Layer::EntryDims { dims: vec![("E".into(), gen_text(rng, false))] },
            _ => Layer::Force(if emf_flags { *rng.pick(&[Flag::High, Flag::NoMetric, Flag::Off]) } else { *rng.pick(&[Flag::T1, Flag::T2, Flag::Off]) }),
        })
        .collect();
    let mut wrapped: BoxEntry = match rng.below(4) {
        0 => base.clone().boxed(),
        1 => Arc::new(base.clone()).boxed(),
        2 => Cow::<'static, ProgramEntry>::Owned(base.clone()).boxed(),
        _ => Box::new(base.clone()).boxed(),
    };
    let (mut elog, mut esg) = (record(&base), record_sample_group(&base));
    for l in &layers {
        wrapped = apply(l, wrapped);
        (elog, esg) = expect(l, elog, esg);
    }
    let got = record(&wrapped);
    let got_sg = record_sample_group(&wrapped);
    // also through a reference and the reference-merge
    let got_ref = record(&&wrapped);
    rep.eval();
    rep.count("layers_applied", layers.len() as u64);
    let describe = || json!({"base": base.json(), "layers": layers.iter().map(|l| format!("{l:?}").chars().take(200).collect::<String>()).collect::<Vec<_>>()});
    if got != elog || got_ref != elog {
        rep.violation("wrapped-entry-log-differs", json!({"what": "the call log seen through the wrappers is not the documented function of the plain entry's log", "case": describe(), "diff": diff(&got, &elog)}));
        return false;
    }
    if got_sg != esg {
        let dropping: Vec<&Layer> = layers.iter().filter(|l| matches!(l, Layer::GlobalDims { .. } | Layer::EntryDims { .. } | Layer::Force(_))).collect();
        rep.violation(
            "sample-group-not-preserved",
            json!({"what": "the sample group seen through the wrappers differs from the plain entry's (plus merged entries')", "case": describe(), "observed": got_sg, "expected": esg,
                   "layers_that_do_not_forward_sample_group": dropping.iter().map(|l| format!("{l:?}").chars().take(60).collect::<String>()).collect::<Vec<_>>()}),
        );
        return false;
    }
    let mut h = Fnv::new();
    for l in &layers {
        h.u64(std::mem::discriminant(l).hash_u64());
    }
    h.u64(base.ops.len() as u64).u64(emf_flags as u64);
    rep.distinct(h.finish());
    if rep.want_sample() && rng.below(200) == 0 {
        rep.sample(|| json!({"composition": describe(), "observed_log": log_json(&got)}));
    }
    true
}

trait HashU64 {
    fn hash_u64(&self) -> u64;
}
impl<T: std::hash::Hash> HashU64 for T {
    fn hash_u64(&self) -> u64 {
        use std::hash::Hasher;
        let mut s = std::collections::hash_map::DefaultHasher::new();
        self.hash(&mut s);
        s.finish()
    }
}

fn value_case(rng: &mut Rng, rep: &Report) -> bool {
    let emf_flags = rng.bool();
    let e = WEntry { values: (0..1 + rng.below(5)).map(|i| (format!("v{i}"), gen_wval(rng, emf_flags, 4))).collect() };
    let expect: Vec<Op> = e.values.iter().map(|(n, v)| Op::Value { name: n.clone(), val: expect_wval(v) }).collect();
    rep.eval();
    for (what, got) in [("plain", record(&e)), ("boxed", record(&e.clone().boxed())), ("arc", record(&Arc::new(e.clone())))] {
        if got != expect {
            rep.violation("wrapped-value-differs", json!({"what": "a value behind Option/Box/Arc/Cow/&/WithDimensions/ForceFlag is not reported as the plain value plus the documented additions", "through": what, "entry": format!("{e:?}").chars().take(1500).collect::<String>(), "diff": diff(&got, &expect)}));
            return false;
        }
    }
    rep.distinct(Fnv::new().str(&format!("{:?}", e.values.iter().map(|v| std::mem::discriminant(&v.1)).collect::<Vec<_>>())).u64(rng.below(64)).finish());
    true
}

// ------------------------------------------------------------------------------------------
// stream / format level

/// records what it is given; `1`: fails the next call with a validation error (2: an I/O error)
#[derive(Clone, Default)]
struct RecStream(Arc<Mutex<Vec<(Vec<Op>, Vec<(String, String)>)>>>, Arc<std::sync::atomic::AtomicU8>);
impl RecStream {
    fn fail_next(&self, how: u8) {
        self.1.store(how, std::sync::atomic::Ordering::SeqCst);
    }
    fn scripted_failure(&self) -> Result<(), IoStreamError> {
        match self.1.swap(0, std::sync::atomic::Ordering::SeqCst) {
            0 => Ok(()),
            1 => Err(IoStreamError::Validation(metrique_writer::ValidationError::invalid("scripted downstream rejection"))),
            _ => Err(IoStreamError::Io(io::Error::other("scripted downstream i/o error"))),
        }
    }
}
impl EntryIoStream for RecStream {
    fn next(&mut self, entry: &impl Entry) -> Result<(), IoStreamError> {
        self.scripted_failure()?;
        self.0.lock().unwrap().push((record(entry), record_sample_group(entry)));
        Ok(())
    }
    fn flush(&mut self) -> io::Result<()> {
        Ok(())
    }
}
impl Format for RecStream {
    fn format(&mut self, entry: &impl Entry, _output: &mut impl io::Write) -> Result<(), IoStreamError> {
        self.scripted_failure()?;
        self.0.lock().unwrap().push((record(entry), record_sample_group(entry)));
        Ok(())
    }
}

/// globals of a zero-sized type that nevertheless write fields and carry a sample group (constants)
#[derive(Clone)]
struct ZGlobals;
impl Entry for ZGlobals {
    fn write<'a>(&'a self, writer: &mut impl metrique_writer::EntryWriter<'a>) {
        writer.value("Region", &"us-east-1");
        writer.value("BuildNumber", &7u64);
    }
    fn sample_group(&self) -> impl Iterator<Item = (Cow<'static, str>, Cow<'static, str>)> {
        [(Cow::Borrowed("Region"), Cow::Borrowed("us-east-1"))].into_iter()
    }
}

/// the mutators of a long-lived WithGlobalDimensions: dimensions rotated (cleared, added again)
/// any number of times, the deny-list untouched unless it is cleared explicitly
fn rotated_global_dimensions_case(rng: &mut Rng, rep: &Report) -> bool {
    rep.eval();
    let e = gen_program(rng, false);
    let plain = (record(&e), record_sample_group(&e));
    let mut dims: Vec<(String, String)> = (0..1 + rng.below(2)).map(|i| (format!("SG{i}"), gen_text(rng, false))).collect();
    let mut deny: Vec<String> = gen_deny(rng);
    // deny-list some of the entry's own metric names, so that the list matters
    for op in &plain.0 {
        if let Op::Value { name, val: Val::Metric { .. } } = op {
            if rng.bool() {
                deny.push(name.clone());
            }
        }
    }
    let mut w = WithGlobalDimensions::<_, 2>::new_with_global_dimensions(e.clone(), cow_dims(&dims), deny.iter().map(|d| Cow::Owned(d.clone())).collect::<HashSet<_>>());
    let mut steps: Vec<String> = vec![];
    for _ in 0..1 + rng.below(5) {
        match rng.below(4) {
            0 => {
                w.clear_global_dimensions();
                dims.clear();
                steps.push("clear_global_dimensions".into());
            }
            1 | 2 => {
                let d = (format!("Rot{}", rng.below(3)), gen_text(rng, false));
                w.add_global_dimension(d.0.clone(), d.1.clone());
                dims.push(d);
                steps.push("add_global_dimension".into());
            }
            _ => {
                if rng.below(4) == 0 {
                    w.clear_global_dimensions_denylist();
                    deny.clear();
                    steps.push("clear_global_dimensions_denylist".into());
                }
            }
        }
        let got = (record(&w), record_sample_group(&w));
        let exp = if dims.is_empty() { plain.clone() } else { expect(&Layer::GlobalDims { dims: dims.clone(), deny: deny.clone() }, plain.0.clone(), plain.1.clone()) };
        if got != exp {
            rep.violation("wrapped-entry-log-differs", json!({"what": "WithGlobalDimensions after its mutators: every metric not on the deny-list gets exactly the current global dimensions appended, deny-listed metrics and everything else stay as they are",
                "mutators_called": steps, "current_dimensions": dims, "deny_list": deny, "entry": e.json(), "diff": diff(&got.0, &exp.0)}));
            return false;
        }
    }
    rep.count("rotated_global_dimension_cases", 1);
    true
}

fn stream_case(rng: &mut Rng, rep: &Report) -> bool {
    let emf_flags = false;
    let e = gen_program(rng, emf_flags);
    let g = gen_program(rng, emf_flags);
    let dims: Vec<(String, String)> = (0..rng.below(3)).map(|i| (format!("SG{i}"), gen_text(rng, false))).collect();
    let deny: Vec<String> = gen_deny(rng);
    let (plain, sg) = (record(&e), record_sample_group(&e));
    let sv: SmallVec<[(Cow<'static, str>, Cow<'static, str>); 2]> = cow_dims(&dims).into_iter().collect();
    let denyset: HashSet<Cow<'static, str>> = deny.iter().map(|d| Cow::Owned(d.clone())).collect();
    rep.eval();
    // every adapter is a long-lived object: the same entry goes through it three times, the second
    // time the downstream stream / format fails (validation or I/O error); the first and the third
    // pass must both be transparent
    let fail_how = 1 + rng.below(2) as u8;
    let mut results: Vec<(&str, (Vec<Op>, Vec<(String, String)>), (Vec<Op>, Vec<(String, String)>))> = vec![];
    {
        let r = RecStream::default();
        let mut s = EntryIoStreamExt::merge_globals(r.clone(), g.clone());
        let _ = s.next(&e);
        r.fail_next(fail_how);
        let _ = s.next(&e);
        let _ = s.next(&e);
        results.push(("stream.merge_globals", r.0.lock().unwrap()[0].clone(), expect(&Layer::GlobalsFirst(g.clone()), plain.clone(), sg.clone())));
        results.push(("stream.merge_globals, third pass (the second one failed downstream)", r.0.lock().unwrap().get(1).cloned().unwrap_or_default(), expect(&Layer::GlobalsFirst(g.clone()), plain.clone(), sg.clone())));
    }
    {
        let r = RecStream::default();
        let mut s = EntryIoStreamExt::merge_global_dimensions(r.clone(), sv.clone(), Some(denyset.clone()));
        let _ = s.next(&e);
        r.fail_next(fail_how);
        let _ = s.next(&e);
        let _ = s.next(&e);
        let exp = if dims.is_empty() { (plain.clone(), sg.clone()) } else { expect(&Layer::GlobalDims { dims: dims.clone(), deny: deny.clone() }, plain.clone(), sg.clone()) };
        results.push(("stream.merge_global_dimensions", r.0.lock().unwrap()[0].clone(), exp.clone()));
        results.push(("stream.merge_global_dimensions, third pass (the second one failed downstream)", r.0.lock().unwrap().get(1).cloned().unwrap_or_default(), exp));
    }
    {
        let r = RecStream::default();
        let mut s = FormatExt::merge_globals(r.clone(), g.clone());
        let _ = s.format(&e, &mut io::sink());
        r.fail_next(fail_how);
        let _ = s.format(&e, &mut io::sink());
        let _ = s.format(&e, &mut io::sink());
        results.push(("format.merge_globals", r.0.lock().unwrap()[0].clone(), expect(&Layer::GlobalsFirst(g.clone()), plain.clone(), sg.clone())));
        results.push(("format.merge_globals, third pass (the second one failed downstream)", r.0.lock().unwrap().get(1).cloned().unwrap_or_default(), expect(&Layer::GlobalsFirst(g.clone()), plain.clone(), sg.clone())));
    }
    {
        let r = RecStream::default();
        let mut s = FormatExt::merge_global_dimensions(r.clone(), sv.clone(), Some(denyset.clone()));
        let _ = s.format(&e, &mut io::sink());
        r.fail_next(fail_how);
        let _ = s.format(&e, &mut io::sink());
        let _ = s.format(&e, &mut io::sink());
        let exp = if dims.is_empty() { (plain.clone(), sg.clone()) } else { expect(&Layer::GlobalDims { dims: dims.clone(), deny: deny.clone() }, plain.clone(), sg.clone()) };
        results.push(("format.merge_global_dimensions", r.0.lock().unwrap()[0].clone(), exp.clone()));
        results.push(("format.merge_global_dimensions, third pass (the second one failed downstream)", r.0.lock().unwrap().get(1).cloned().unwrap_or_default(), exp));
    }
    {
        // globals of a zero-sized type (they still write two fields and a sample-group element)
        let zexp = || {
            let mut l = record(&ZGlobals);
            l.extend(plain.clone());
            let mut g2 = record_sample_group(&ZGlobals);
            g2.extend(sg.clone());
            (l, g2)
        };
        let r = RecStream::default();
        let mut s = EntryIoStreamExt::merge_globals(r.clone(), ZGlobals);
        let _ = s.next(&e);
        results.push(("stream.merge_globals(zero-sized globals)", r.0.lock().unwrap()[0].clone(), zexp()));
        let r = RecStream::default();
        let mut s = FormatExt::merge_globals(r.clone(), ZGlobals);
        let _ = s.format(&e, &mut io::sink());
        results.push(("format.merge_globals(zero-sized globals)", r.0.lock().unwrap()[0].clone(), zexp()));
        let merged = ZGlobals.merge(e.clone()).boxed();
        results.push(("zero-sized globals .merge(entry).boxed()", (record(&merged), record_sample_group(&merged)), zexp()));
    }
    {
        let r = RecStream::default();
        let mut s = ForceFlag::<_, TestFlag1>::from(r.clone());
        let _ = s.next(&e);
        r.fail_next(fail_how);
        let _ = s.next(&e);
        let _ = s.next(&e);
        results.push(("ForceFlag<stream>", r.0.lock().unwrap()[0].clone(), expect(&Layer::Force(Flag::T1), plain.clone(), sg.clone())));
        results.push(("ForceFlag<stream>, third pass (the second one failed downstream)", r.0.lock().unwrap().get(1).cloned().unwrap_or_default(), expect(&Layer::Force(Flag::T1), plain.clone(), sg.clone())));
    }
    {
        let (r1, r2) = (RecStream::default(), RecStream::default());
        let mut s = tee(r1.clone(), r2.clone());
        let _ = s.next(&e);
        results.push(("tee branch 1", r1.0.lock().unwrap()[0].clone(), (plain.clone(), sg.clone())));
        results.push(("tee branch 2", r2.0.lock().unwrap()[0].clone(), (plain.clone(), sg.clone())));
    }
    for (what, got, exp) in results {
        if got.0 != exp.0 {
            rep.violation("stream-adapter-log-differs", json!({"adapter": what, "entry": e.json(), "diff": diff(&got.0, &exp.0)}));
            return false;
        }
        if got.1 != exp.1 {
            rep.violation("sample-group-not-preserved", json!({"adapter": what, "entry": e.json(), "observed": got.1, "expected": exp.1}));
            return false;
        }
    }
    rep.distinct(Fnv::new().str("stream").u64(e.ops.len() as u64).u64(dims.len() as u64).u64(deny.len() as u64).finish());
    true
}

// ------------------------------------------------------------------------------------------
// RootEntry over a closed #[metrics] struct

#[metrics(rename_all = "PascalCase")]
struct Rooted {
    #[metrics(sample_group)]
    operation: &'static str,
    count: u64,
    #[metrics(unit = metrique::unit::Megabyte)]
    size: u64,
    maybe: Option<u64>,
}

/// payload of the panics this harness raises on purpose (silenced in the panic hook)
struct IntentionalPanic;

/// a metric value whose distribution iterator panics after yielding `good` observations
struct PanicsMidway {
    good: u64,
}
impl Value for PanicsMidway {
    fn write(&self, writer: impl ValueWriter) {
        let good = self.good;
        writer.metric(
            (0..=good).map(move |i| if i == good { std::panic::panic_any(IntentionalPanic) } else { metrique_writer::Observation::Unsigned(1000 * (i + 1)) }),
            metrique_writer::Unit::Count,
            [],
            MetricFlags::empty(),
        )
    }
}
struct FaultyEntry {
    good: u64,
}
impl Entry for FaultyEntry {
    fn write<'a>(&'a self, writer: &mut impl metrique_writer::EntryWriter<'a>) {
        writer.value("Before", &7u64);
        writer.value("Sizes", &PanicsMidway { good: self.good });
    }
}

/// A wrapped entry whose write unwinds half-way (user code inside a value panics, the panic is
/// caught): whatever the wrapper was in the middle of must not leak into the NEXT entry that goes
/// through the same kind of wrapper on this thread.
fn after_unwound_write_case(rng: &mut Rng, rep: &Report) -> bool {
    rep.eval();
    let good = 1 + rng.below(6);
    let faulty: Vec<Box<dyn Fn() + std::panic::UnwindSafe>> = vec![
        Box::new(move || drop(record(&FaultyEntry { good }.boxed()))),
        Box::new(move || drop(record(&BoxEntry::new(FaultyEntry { good }.boxed())))),
        Box::new(move || drop(record(&Some(FaultyEntry { good }.boxed())))),
    ];
    let which = rng.usize_below(faulty.len());
    let r = std::panic::catch_unwind(std::panic::AssertUnwindSafe(|| faulty[which]()));
    if r.is_ok() {
        rep.inconclusive("the scripted panic inside a value did not happen (harness error)");
        return false;
    }
    let e = gen_program(rng, false);
    let plain = record(&e);
    for (name, got) in [("boxed()", record(&e.clone().boxed())), ("BoxEntry::new(boxed())", record(&BoxEntry::new(e.clone().boxed())))] {
        if got != plain {
            rep.violation(
                "wrapped-entry-log-differs",
                json!({"what": "an earlier boxed entry's write unwound half-way on this thread (a value panicked, caught); the next entry through the same wrapper is no longer transparent",
                       "observations_yielded_before_the_panic": good, "wrapper": name, "entry": e.json(), "diff": diff(&got, &plain)}),
            );
            return false;
        }
    }
    rep.count("after_unwound_write_cases", 1);
    true
}

/// configuration objects that are zero-sized fields of one entry struct (so several of them share
/// one address), one of them handed over twice: every config call must reach the writer, in order,
/// through every wrapper
#[derive(Debug)]
struct MarkerA;
impl metrique_writer_core::entry::EntryConfig for MarkerA {}
#[derive(Debug)]
struct MarkerB;
impl metrique_writer_core::entry::EntryConfig for MarkerB {}
struct ZstConfigs {
    split: metrique_writer_core::config::AllowSplitEntries,
    a: MarkerA,
    b: MarkerB,
    order: u64,
}
impl Entry for ZstConfigs {
    fn write<'a>(&'a self, writer: &mut impl metrique_writer::EntryWriter<'a>) {
        let cfgs: [&'a dyn metrique_writer_core::entry::EntryConfig; 3] = [&self.split, &self.a, &self.b];
        // a permutation with one repeat, chosen by `order`
        let mut o = self.order;
        for _ in 0..4 {
            writer.config(cfgs[(o % 3) as usize]);
            o /= 3;
        }
        writer.value("After", &1u64);
        writer.config(cfgs[(o % 3) as usize]);
    }
}

fn zst_config_case(rng: &mut Rng, rep: &Report) -> bool {
    rep.eval();
    let order = rng.below(243);
    let mk = || ZstConfigs { split: metrique_writer_core::config::AllowSplitEntries::new(), a: MarkerA, b: MarkerB, order };
    let plain = record(&mk());
    let n_cfg = plain.iter().filter(|o| matches!(o, Op::Config { .. })).count();
    if n_cfg != 5 {
        rep.inconclusive(&format!("the recording writer saw {n_cfg} of 5 config calls of the plain entry (harness error)"));
        return false;
    }
    for (name, got) in [("boxed()", record(&mk().boxed())), ("BoxEntry::new(boxed())", record(&BoxEntry::new(mk().boxed()))), ("Some(boxed())", record(&Some(mk().boxed()))), ("Box<_>.boxed()", record(&Box::new(mk()).boxed()))] {
        if got != plain {
            rep.violation(
                "wrapped-entry-log-differs",
                json!({"what": "an entry whose configuration objects are zero-sized fields of one struct (same address), one handed over twice: the config calls reaching the writer through the wrapper differ from those of the plain entry",
                       "wrapper": name, "config_order_code": order, "diff": diff(&got, &plain)}),
            );
            return false;
        }
    }
    rep.count("zero_sized_config_cases", 1);
    true
}

fn root_case(rep: &Report) -> bool {
    use metrique::{CloseValue, InflectableEntry, RootEntry};
    rep.eval();
    let closed = Rooted { operation: "Get", count: 3, size: 9, maybe: None }.close();
    let mut direct = vcommon::recording::RecordingWriter::default();
    fn write_direct<M: InflectableEntry>(m: &M, w: &mut vcommon::recording::RecordingWriter) -> Vec<(String, String)> {
        m.write(w);
        m.sample_group().map(|(a, b)| (a.into_owned(), b.into_owned())).collect()
    }
    let direct_sg: Vec<(String, String)> = write_direct(&closed, &mut direct);
    let rooted = RootEntry::new(closed);
    if record(&rooted) != direct.log || record_sample_group(&rooted) != direct_sg {
        rep.violation("root-entry-not-transparent", json!({"direct": log_json(&direct.log), "rooted": log_json(&record(&rooted))}));
        return false;
    }
    rep.distinct(Fnv::new().str("root").finish());
    true
}

fn main() {
    let args = Args::parse();
    let rep = Report::new("C15", &args);
    rep.rule(
        "generated entries (timestamps, configs, strings, metrics with distributions/units/dimensions/flags, value errors, empty values, repeated names, sample groups) wrapped by random compositions of depth <= 4 of: \
         boxed(), Box, Option, Arc, Cow, merge (globals first / entry first), WithGlobalDimensions with deny-list, WithDimensions on the entry, ForceFlag (a harness flag family and the EMF flags); values behind \
         WithDimensions / ForceFlag / Option / Box / Arc / Cow / & nested to depth 4; the stream/format adapters merge_globals, merge_global_dimensions, ForceFlag<stream>, tee; RootEntry. Oracle: the ordered call log and \
         the sample group seen by a recording writer equal the documented function of the plain entry's. distinct = distinct (layer kinds, entry size) combinations",
    );
    let default_hook = std::panic::take_hook();
    std::panic::set_hook(Box::new(move |info| {
        if !info.payload().is::<IntentionalPanic>() {
            default_hook(info);
        }
    }));
    root_case(&rep);
    let budget = Duration::from_secs(args.get_u64("secs", args.by_tier(8, 100)));
    let start = Instant::now();
    std::thread::scope(|s| {
        for lane in 0..args.get_u64("lanes", 10) {
            let (rep, args) = (&rep, &args);
            s.spawn(move || {
                let mut rng = Rng::derive(args.seed, lane);
                while start.elapsed() < budget && rep.violation_count() == 0 {
                    let kinds = if rng.below(16) == 0 { 5 } else { 4 };
                    let ok = match rng.below(kinds) {
                        4 if rng.below(3) == 0 => rotated_global_dimensions_case(&mut rng, rep),
                        4 if rng.bool() => zst_config_case(&mut rng, rep),
                        4 => after_unwound_write_case(&mut rng, rep),
                        0 => value_case(&mut rng, rep),
                        1 => stream_case(&mut rng, rep),
                        _ => composition_case(&mut rng, rep),
                    };
                    if !ok {
                        return;
                    }
                }
            });
        }
    });
    rep.finish_and_exit();
}
