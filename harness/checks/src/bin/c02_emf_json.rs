//! C02 — EMF output is always complete, newline-framed, valid JSON records; a validation
//! error writes nothing. Shape R (differential against a strict parser) + S (Miri/ASan on the
//! unsafe `as_mut_vec` string path). See DESIGN.md §7 C02.

use checks::emf_util::*;
use metrique_writer::sample::SampledFormat;
use std::time::{Duration, Instant};
use vcommon::recording::{Obs, POp, PVal, ProgramEntry};
use vcommon::serde_json::json;
use vcommon::sync::is_miri;
use vcommon::{Args, Fnv, Report, Rng};

pub struct ScriptRng(pub u64);
impl rand::RngCore for ScriptRng {
    fn next_u32(&mut self) -> u32 {
        (self.0 >> 32) as u32
    }
    fn next_u64(&mut self) -> u64 {
        self.0
    }
    fn fill_bytes(&mut self, dst: &mut [u8]) {
        for (i, b) in dst.iter_mut().enumerate() {
            *b = (self.0 >> (8 * (i % 8))) as u8;
        }
    }
}

/// io::Write that accepts `accept` bytes per call and hard-fails at call number `fail_at`
struct FailAt {
    calls: u64,
    fail_at: u64,
    accept: usize,
}
impl std::io::Write for FailAt {
    fn write(&mut self, buf: &[u8]) -> std::io::Result<usize> {
        self.calls += 1;
        if self.calls > self.fail_at {
            return Err(std::io::Error::other("scripted failure"));
        }
        Ok(buf.len().min(self.accept))
    }
    fn flush(&mut self) -> std::io::Result<()> {
        Ok(())
    }
}

fn shape(e: &ProgramEntry, cfg: &Cfg, sampled: bool) -> u64 {
    let mut h = Fnv::new();
    for op in &e.ops {
        match op {
            POp::Timestamp(_) => h.u64(1),
            POp::Config(c) => h.str(&format!("{c:?}")[..4.min(format!("{c:?}").len())]),
            POp::Value(n, v) => {
                h.u64(if n.is_empty() { 20 } else if n == "_aws" { 21 } else { 22 });
                match v {
                    PVal::Str(s) => h.u64(30 + (s.len() > 100) as u64 + 2 * s.bytes().any(|b| b < 0x20 || b == b'"' || b == b'\\') as u64),
                    PVal::Metric { obs, unit, dims, flags } => {
                        h.u64(40).u64(dims.len() as u64).u64(flags.is_some() as u64).str(unit.name());
                        for o in obs {
                            h.u64(match o {
                                Obs::U(_) => 1,
                                Obs::F(_) => 2 + is_skipped(*o) as u64,
                                Obs::R { .. } => 4 + is_skipped(*o) as u64,
                                Obs::Other => 9,
                            });
                        }
                        &mut h
                    }
                    PVal::Error(_) => h.u64(50),
                    PVal::Nothing => h.u64(60),
                }
            }
        };
    }
    h.u64(cfg.namespaces.len() as u64).u64(cfg.default_dims.len() as u64).u64(cfg.directives.len() as u64);
    h.u64(cfg.log_group.is_some() as u64).u64(cfg.ignored_dims as u64).u64(cfg.validate as u64).u64(sampled as u64);
    h.finish()
}

/// An output that takes at most `chunk` bytes per call, spread over as many of the offered buffers
/// as that covers (what a BufWriter in front of a plain writer does): success must still mean
/// complete lines, however the writes were cut.
struct Chunked {
    chunk: usize,
    got: Vec<u8>,
}
impl std::io::Write for Chunked {
    fn write(&mut self, buf: &[u8]) -> std::io::Result<usize> {
        let n = buf.len().min(self.chunk);
        self.got.extend_from_slice(&buf[..n]);
        Ok(n)
    }
    fn write_vectored(&mut self, bufs: &[std::io::IoSlice<'_>]) -> std::io::Result<usize> {
        let mut left = self.chunk;
        let mut n = 0;
        for b in bufs {
            let take = b.len().min(left);
            self.got.extend_from_slice(&b[..take]);
            left -= take;
            n += take;
            if left == 0 {
                break;
            }
        }
        Ok(n)
    }
    fn flush(&mut self) -> std::io::Result<()> {
        Ok(())
    }
}
static PLAIN_FORMATS: std::sync::atomic::AtomicU64 = std::sync::atomic::AtomicU64::new(0);

/// returns false on violation
fn check_one(emf: &mut metrique_writer_format_emf::Emf, cfg: &Cfg, e: &ProgramEntry, sampling: Option<(f32, u64)>, rep: &Report) -> bool {
    let (res, bytes) = match sampling {
        None => {
            let k = PLAIN_FORMATS.fetch_add(1, std::sync::atomic::Ordering::Relaxed);
            if k % 3 == 0 {
                let mut w = Chunked { chunk: 1 + (k.wrapping_mul(7919) % 400) as usize, got: vec![] };
                let r = metrique_writer::format::Format::format(emf, e, &mut w);
                (
                    match r {
                        Ok(()) => FmtResult::Ok,
                        Err(metrique_writer::IoStreamError::Validation(v)) => FmtResult::Validation(v.to_string()),
                        Err(metrique_writer::IoStreamError::Io(i)) => FmtResult::Io(i.to_string()),
                    },
                    w.got,
                )
            } else {
                format_to_vec(emf, e)
            }
        }
        Some((rate, draw)) => {
            let mut s = emf.clone().with_sampling_and_rng(ScriptRng(draw));
            let mut out = vec![];
            let r = s.format_with_sample_rate(e, &mut out, rate);
            (
                match r {
                    Ok(()) => FmtResult::Ok,
                    Err(metrique_writer::IoStreamError::Validation(v)) => FmtResult::Validation(v.to_string()),
                    Err(metrique_writer::IoStreamError::Io(i)) => FmtResult::Io(i.to_string()),
                },
                out,
            )
        }
    };
    let witness = |what: &str| json!({"what": what, "cfg": cfg.json(), "entry": e.json(), "sampling": format!("{sampling:?}"), "result": format!("{res:?}"), "output": short(&bytes)});
    match &res {
        FmtResult::Ok => match parse_output(&bytes) {
            ParseOutcome::Ok(lines) => {
                for (i, l) in lines.iter().enumerate() {
                    if let Err(m) = check_wellformed(l) {
                        rep.violation("record-structure", witness(&format!("line {i}: {m}")));
                        return false;
                    }
                }
                rep.count("records_parsed", lines.len() as u64);
                rep.count("entries_ok", 1);
                if lines.len() > 1 {
                    rep.count("entries_split_into_several_records", 1);
                }
            }
            ParseOutcome::Malformed(m) => {
                rep.violation("invalid-json-on-success", witness(&m));
                return false;
            }
            ParseOutcome::HarnessDisagreement(m) => {
                rep.inconclusive(&format!("JSON parsers disagree (harness error): {m}"));
                return false;
            }
        },
        FmtResult::Validation(_) => {
            rep.count("entries_rejected", 1);
            if !bytes.is_empty() {
                rep.violation("bytes-written-on-validation-error", witness("format returned a validation error but wrote bytes"));
                return false;
            }
        }
        FmtResult::Io(m) => {
            rep.violation("io-error-from-vec-writer", witness(&format!("I/O error although the writer cannot fail: {m}")));
            return false;
        }
    }
    true
}

/// ONE formatter over a long life (past 2^16 format calls): split entries with per-metric
/// dimension sets used rarely, then left dormant for more than 65 536 calls, then used again;
/// every single output is checked like all the others
fn long_life_formatter(args: &Args, rep: &Report) {
    let mut rng = Rng::derive(args.seed, 0x10_0001);
    let cfg = Cfg { validate: if args.seed % 2 == 0 { Validate::All } else { Validate::Off }, namespaces: vec!["NS".into()], default_dims: vec![vec![]], directives: vec![], log_group: None, ignored_dims: false };
    let mut emf = cfg.build();
    let metric = |name: &str, v: u64, dims: Vec<(String, String)>| POp::Value(name.into(), PVal::Metric { obs: vec![Obs::U(v)], unit: metrique_writer_core::Unit::Count, dims, flags: None });
    let plain = |i: u64| ProgramEntry::new(vec![metric("Plain", i, vec![])]);
    let split = |i: u64, k: u64| {
        ProgramEntry::new(vec![
            POp::Config(std::sync::Arc::new(metrique_writer_core::config::AllowSplitEntries::new())),
            metric("Global", i, vec![]),
            metric("PerKind", i, vec![("Kind".into(), format!("K{k}"))]),
        ])
    };
    let (busy, dormant) = (20_000u64, 66_000u64);
    for i in 0..busy + dormant + 6 {
        let e = if i < busy {
            if i < 3 || rng.below(300) == 0 { split(i, rng.below(3)) } else { plain(i) }
        } else if i < busy + dormant {
            plain(i)
        } else {
            split(i, i % 3)
        };
        if i < busy && rng.below(500) == 0 {
            let mut w = FailAt { calls: 0, fail_at: rng.below(3), accept: 1 + rng.usize_below(64) };
            let _ = metrique_writer::format::Format::format(&mut emf, &split(i, rng.below(3)), &mut w);
        }
        rep.eval();
        if rep.violation_count() != 0 || !check_one(&mut emf, &cfg, &e, None, rep) {
            return;
        }
        rep.count("formats_on_the_long_lived_formatter", 1);
    }
}

fn skip_mask_entries(rep: &Report) {
    // every skip mask for every list length 1..=6, each observation kind in the kept positions,
    // with and without sampling: the exhaustive part of the input space
    let cfg = Cfg { validate: Validate::All, namespaces: vec!["NS".into()], default_dims: vec![vec![]], directives: vec![], log_group: None, ignored_dims: false };
    let mut emf = cfg.build();
    let kept = [Obs::U(7), Obs::F(1.5f64.to_bits()), Obs::R { total: 9.0f64.to_bits(), occ: 3 }, Obs::R { total: 9.0f64.to_bits(), occ: 0 }];
    let skipped = [Obs::F(f64::NAN.to_bits()), Obs::R { total: f64::NAN.to_bits(), occ: 2 }];
    let mut n = 0u64;
    for len in 1..=6usize {
        for mask in 0..(1u32 << len) {
            for k in 0..kept.len() {
                for s in 0..skipped.len() {
                    let obs: Vec<Obs> = (0..len).map(|i| if mask >> i & 1 == 1 { skipped[s] } else { kept[(k + i) % kept.len()] }).collect();
                    let e = ProgramEntry::new(vec![
                        POp::Value("a".into(), PVal::Metric { obs: obs.clone(), unit: metrique_writer_core::Unit::None, dims: vec![], flags: None }),
                        POp::Value("b".into(), PVal::Metric { obs, unit: metrique_writer_core::Unit::Count, dims: vec![], flags: None }),
                    ]);
                    for sampling in [None, Some((0.3f32, 0u64)), Some((0.3f32, u64::MAX))] {
                        n += 1;
                        rep.eval();
                        if !check_one(&mut emf, &cfg, &e, sampling, rep) {
                            return;
                        }
                    }
                    rep.distinct(Fnv::new().u64(len as u64).u64(mask as u64).u64(k as u64).u64(s as u64).finish());
                }
            }
        }
    }
    rep.set("skip_mask_cases_enumerated", n);
}

fn random_main(args: &Args, rep: &Report, budget: Duration, threads: u64) {
    let start = Instant::now();
    std::thread::scope(|s| {
        for lane in 0..threads {
            let rep = &rep;
            s.spawn(move || {
                let mut rng = Rng::derive(args.seed, lane);
                let limit = args.get_u64("entries", if is_miri() { 60 } else { u64::MAX });
                let mut done = 0u64;
                while start.elapsed() < budget && rep.violation_count() == 0 && done < limit {
                    let validate = *rng.pick(&[Validate::All, Validate::Off, Validate::BuilderDefault, Validate::BuilderSkipFalse]);
                    let cfg = gen_cfg(&mut rng, true, validate);
                    let mut emf = cfg.build();
                    for _ in 0..1 + rng.below(if is_miri() { 3 } else { 12 }) {
                        let e = if rng.below(3) == 0 { gen_valid_entry(&mut rng, &cfg, true, !is_miri()) } else { gen_hostile_entry(&mut rng, &cfg) };
                        let sampling = match rng.below(4) {
                            0 => Some((*rng.pick(&[1.0f32, 0.5, 0.3, 1e-3, 1e-10, f32::MIN_POSITIVE, 1e-40, 0.0, -1.0, f32::NAN, 2.5, f32::INFINITY]), *rng.pick(&[0u64, u64::MAX, 1 << 63, 12345]))),
                            _ => None,
                        };
                        if rng.below(8) == 0 {
                            // an entry whose writer fails at call j: whatever happens here, the *next*
                            // successful format on the same formatter must still be complete, valid JSON
                            let mut w = FailAt { calls: 0, fail_at: rng.below(4), accept: 1 + rng.usize_below(64) };
                            let _ = metrique_writer::format::Format::format(&mut emf, &e, &mut w);
                            rep.count("formats_into_failing_writer", 1);
                        }
                        rep.eval();
                        done += 1;
                        rep.distinct(shape(&e, &cfg, sampling.is_some()));
                        if rep.want_sample() && rng.below(50) == 0 {
                            rep.sample(|| json!({"cfg": cfg.json(), "entry": e.json(), "sampling": format!("{sampling:?}")}));
                        }
                        if !check_one(&mut emf, &cfg, &e, sampling, rep) {
                            return;
                        }
                    }
                }
            });
        }
    });
}

fn main() {
    let args = Args::parse();
    let rep = Report::new("C02", &args);
    rep.rule(
        "generated entries (0-14 writer calls: timestamp / config / value with hostile names and strings - quotes, backslashes, control chars, \
         U+2028, non-BMP, empty, _aws, up to 1 MB - observation lists with NaN/inf/zero-occurrence in every position, all units incl. custom, \
         per-metric dimensions, flags, in-band errors, each listed defect) x formatter configurations (4 ways of building, 1-3 namespaces, dimension \
         sets, extra directives, log group, ignored-dimension mode, sampling with scripted RNG incl. invalid rates); oracle: Ok => bytes are newline-terminated \
         lines each parsing under a strict RFC 8259 parser (cross-checked with serde_json) to an object with the _aws structure; validation error => zero bytes. \
         All 2^k skip masks for k<=6 are enumerated. One formatter is kept for 86 000 format calls (dimension sets used rarely, dormant for more than 2^16 calls, used again). distinct = distinct (operation-shape, configuration) hashes",
    );
    if is_miri() {
        random_main(&args, &rep, Duration::from_secs(3600), 1);
        println!("OUTCOME entries={} distinct={}", rep.evaluations(), rep.distinct_count());
    } else {
        skip_mask_entries(&rep);
        if rep.violation_count() == 0 {
            let secs = args.get_u64("secs", args.by_tier(15, 200));
            std::thread::scope(|s| {
                s.spawn(|| long_life_formatter(&args, &rep));
                random_main(&args, &rep, Duration::from_secs(secs), args.get_u64("lanes", 12));
            });
        }
    }
    rep.finish_and_exit();
}
