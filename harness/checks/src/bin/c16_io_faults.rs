//! C16 — partial writes and I/O errors never tear, duplicate or stall metric output.
//! (1) bytes: the real EMF formatter writing into scripted `io::Write`rs (every k-byte first
//!     write, Interrupted, zero-length, hard error at call j, plain-write-only writers);
//! (2) sinks: BackgroundQueue / FlushImmediately (typed, boxed, any) / tee over scripted streams
//!     returning Ok | Validation | Io per entry and errors on flush.
//! See DESIGN.md §7 C16.

use checks::emf_util::*;
use metrique_writer::format::{Format, FormatExt};
use metrique_writer::sink::{AnyFlushImmediately, BackgroundQueueBuilder, FlushImmediately};
use metrique_writer::stream::tee;
use metrique_writer::{AnyEntrySink, EntryIoStream, EntryIoStreamExt, EntrySink};
use std::io::{self, IoSlice};
use std::panic::{AssertUnwindSafe, catch_unwind};
use std::sync::atomic::{AtomicU64, Ordering};
use std::sync::{Arc, Mutex};
use std::time::{Duration, Instant};
use vcommon::recording::{POp, PVal, ProgramEntry};
use vcommon::serde_json::{Value, json};
use vcommon::stream::{EntryKind, Ev, IdEntry, Outcome, StreamShared, make_id};
use vcommon::sync::{is_miri, progress_wait};
use vcommon::{Args, Fnv, Report, Rng};

// ------------------------------------------------------------------------------------------
// scripted io::Write

#[derive(Clone, Copy, Debug, PartialEq)]
enum Step {
    Accept(usize),
    Interrupted,
    Zero,
    Hard,
}

#[derive(Clone, Debug)]
struct Script {
    steps: Vec<Step>,
    /// after the script is exhausted: accept at most this many bytes per call
    then_chunk: usize,
    vectored: bool,
    /// after the script is exhausted every other call is Interrupted (a signal-happy process
    /// writing to a slow device): any number of those is no hard error
    then_interrupting: bool,
}

struct ScriptedWrite {
    script: Script,
    call: usize,
    got: Arc<Mutex<Vec<u8>>>,
    hard_errors: usize,
    zeros: usize,
    /// write calls made after a hard error had been returned (the entry must have been given up)
    calls_after_hard_error: usize,
    interruptions: usize,
    /// the writer serves ONE entry: after a hard error it keeps failing and counts further calls
    single_entry: bool,
}

/// hard errors come in every kind, also kinds that look transient on other kinds of output
const HARD_KINDS: [io::ErrorKind; 12] = [
    io::ErrorKind::Other, io::ErrorKind::WouldBlock, io::ErrorKind::BrokenPipe, io::ErrorKind::TimedOut,
    io::ErrorKind::ConnectionReset, io::ErrorKind::StorageFull, io::ErrorKind::PermissionDenied, io::ErrorKind::UnexpectedEof,
    io::ErrorKind::InvalidInput, io::ErrorKind::InvalidData, io::ErrorKind::Unsupported, io::ErrorKind::OutOfMemory,
];
static HARD_COUNTER: std::sync::atomic::AtomicUsize = std::sync::atomic::AtomicUsize::new(0);
fn hard_error() -> io::Error {
    let k = HARD_COUNTER.fetch_add(1, std::sync::atomic::Ordering::Relaxed);
    io::Error::new(HARD_KINDS[k % HARD_KINDS.len()], "scripted hard error")
}

impl ScriptedWrite {
    fn new(script: Script) -> Self {
        ScriptedWrite { script, call: 0, got: Default::default(), hard_errors: 0, zeros: 0, calls_after_hard_error: 0, interruptions: 0, single_entry: false }
    }
    fn step(&mut self) -> Step {
        if self.single_entry && self.hard_errors > 0 {
            self.calls_after_hard_error += 1;
            // keep failing: an implementation that retries must not be rescued by the script
            if self.calls_after_hard_error < 1000 {
                return Step::Hard;
            }
        }
        let mut s = self.script.steps.get(self.call).copied().unwrap_or(Step::Accept(self.script.then_chunk));
        if self.script.then_interrupting && self.call >= self.script.steps.len() && (self.call - self.script.steps.len()) % 2 == 0 {
            s = Step::Interrupted;
            self.interruptions += 1;
        }
        self.call += 1;
        s
    }
}

/// the writer handed out by a MakeWriter: a handle on shared scripted state
struct SharedW(Arc<Mutex<ScriptedWrite>>);
impl io::Write for SharedW {
    fn write(&mut self, buf: &[u8]) -> io::Result<usize> {
        self.0.lock().unwrap().write(buf)
    }
    fn write_vectored(&mut self, bufs: &[IoSlice<'_>]) -> io::Result<usize> {
        self.0.lock().unwrap().write_vectored(bufs)
    }
    fn flush(&mut self) -> io::Result<()> {
        Ok(())
    }
}

impl io::Write for ScriptedWrite {
    fn write(&mut self, buf: &[u8]) -> io::Result<usize> {
        match self.step() {
            Step::Accept(k) => {
                let n = buf.len().min(k.max(1));
                self.got.lock().unwrap().extend_from_slice(&buf[..n]);
                Ok(n)
            }
            Step::Interrupted => Err(io::ErrorKind::Interrupted.into()),
            Step::Zero => {
                self.zeros += 1;
                Ok(0)
            }
            Step::Hard => {
                self.hard_errors += 1;
                Err(hard_error())
            }
        }
    }

    fn write_vectored(&mut self, bufs: &[IoSlice<'_>]) -> io::Result<usize> {
        if !self.script.vectored {
            // what std's default implementation does: write the first non-empty buffer
            let buf = bufs.iter().find(|b| !b.is_empty()).map_or(&[][..], |b| &**b);
            return self.write(buf);
        }
        match self.step() {
            Step::Accept(k) => {
                let mut left = k.max(1);
                let mut n = 0;
                let mut got = self.got.lock().unwrap();
                for b in bufs {
                    if left == 0 {
                        break;
                    }
                    let take = b.len().min(left);
                    got.extend_from_slice(&b[..take]);
                    left -= take;
                    n += take;
                }
                Ok(n)
            }
            Step::Interrupted => Err(io::ErrorKind::Interrupted.into()),
            Step::Zero => {
                self.zeros += 1;
                Ok(0)
            }
            Step::Hard => {
                self.hard_errors += 1;
                Err(hard_error())
            }
        }
    }

    fn flush(&mut self) -> io::Result<()> {
        Ok(())
    }
}

/// Is `got` the concatenation of a permutation of `lines` (complete=true), or a prefix of one?
fn matches_permutation(got: &[u8], lines: &[Vec<u8>], complete: bool) -> Result<(), String> {
    let mut used = vec![false; lines.len()];
    let mut rest = got;
    loop {
        if rest.is_empty() {
            if complete && used.iter().any(|u| !u) {
                return Err(format!("{} of {} records missing from the received bytes", used.iter().filter(|u| !**u).count(), lines.len()));
            }
            return Ok(());
        }
        // lines end in '\n' and contain no other '\n', so no line is a proper prefix of another
        if let Some(i) = (0..lines.len()).find(|&i| !used[i] && rest.starts_with(&lines[i])) {
            used[i] = true;
            rest = &rest[lines[i].len()..];
            continue;
        }
        if !complete && (0..lines.len()).any(|i| !used[i] && lines[i].starts_with(rest)) {
            return Ok(());
        }
        let off = got.len() - rest.len();
        return Err(format!(
            "received bytes diverge from every remaining record at offset {off}: {:?}…",
            String::from_utf8_lossy(&rest[..rest.len().min(120)])
        ));
    }
}

fn shape_entry(rng: &mut Rng, shape: u8) -> (Cfg, ProgramEntry) {
    let mut cfg = gen_cfg(rng, false, Validate::Off);
    cfg.ignored_dims = false;
    match shape {
        0 => {
            cfg.namespaces.truncate(1);
        }
        1 => {
            cfg.namespaces = vec!["NSa".into(), "NSb".into(), "NSc".into()];
        }
        _ => {}
    }
    let mut e = gen_valid_entry(rng, &cfg, false, false);
    if shape >= 2 {
        // split into 2-4 lines
        let sets = shape as usize; // 2, 3 or 4 records
        e.ops.retain(|o| !matches!(o, POp::Value(_, PVal::Metric { dims, .. }) if !dims.is_empty()));
        e.ops.insert(0, POp::Config(Arc::new(metrique_writer_core::config::AllowSplitEntries::new())));
        e.ops.push(POp::Value("GlobalMetric".into(), PVal::Metric { obs: vec![vcommon::recording::Obs::U(5)], unit: metrique_writer_core::Unit::Count, dims: vec![], flags: None }));
        for s in 0..sets - 1 {
            e.ops.push(POp::Value(
                format!("SplitMetric{s}"),
                PVal::Metric { obs: vec![vcommon::recording::Obs::U(s as u64)], unit: metrique_writer_core::Unit::None, dims: vec![("SplitKey".into(), format!("v{s}"))], flags: None },
            ));
        }
    }
    if !e.ops.iter().any(|o| matches!(o, POp::Timestamp(_))) {
        e.ops.push(POp::Timestamp(std::time::UNIX_EPOCH + Duration::from_secs(1_700_000_000)));
    }
    (cfg, e)
}

/// one (entry, script) case on a given long-lived formatter; followed by a "next entry" check
fn bytes_case(emf: &mut metrique_writer_format_emf::Emf, cfg: &Cfg, e: &ProgramEntry, script: &Script, via_makewriter: bool, rep: &Report) -> bool {
    let (r0, reference) = format_to_vec(&mut cfg.build(), e);
    if r0 != FmtResult::Ok {
        rep.inconclusive("reference formatting failed (harness error)");
        return false;
    }
    let lines: Vec<Vec<u8>> = reference.split_inclusive(|b| *b == b'\n').map(|l| l.to_vec()).collect();
    let mut w = ScriptedWrite::new(script.clone());
    w.single_entry = true;
    let got_handle = w.got.clone();
    let r = if via_makewriter {
        // the stream built by output_to_makewriter(): one writer per entry from the MakeWriter
        use metrique_writer::EntryIoStream;
        use metrique_writer::format::FormatExt;
        let shared = Arc::new(Mutex::new(w));
        let s2 = shared.clone();
        let mut stream = emf.clone().output_to_makewriter(move || SharedW(s2.clone()));
        let r = catch_unwind(AssertUnwindSafe(|| stream.next(e)));
        drop(stream);
        w = Arc::try_unwrap(shared).ok().expect("writer handles dropped").into_inner().unwrap();
        r
    } else {
        catch_unwind(AssertUnwindSafe(|| emf.format(e, &mut w)))
    };
    let got = got_handle.lock().unwrap().clone();
    let witness = |what: &str, extra: Value| {
        json!({"what": what, "through": if via_makewriter { "output_to_makewriter(..).next(entry)" } else { "format(entry, &mut writer)" }, "cfg": cfg.json(), "entry": e.json(), "script": format!("{script:?}"), "extra": extra,
               "reference_len": reference.len(), "received_len": got.len(), "received_tail": short(&got[got.len().saturating_sub(300)..])})
    };
    let r = match r {
        Ok(r) => r,
        Err(_) => {
            rep.violation("format-panicked", witness("format() panicked while writing to a scripted writer", json!({})));
            return false;
        }
    };
    let faulted = w.hard_errors > 0 || w.zeros > 0;
    if w.calls_after_hard_error > 0 {
        rep.violation(
            "write-retried-after-hard-error",
            witness("the writer returned a hard error, yet write was called again for the same entry (a writer that keeps failing would stall the sink)", json!({"calls_after_the_error": w.calls_after_hard_error, "result": format!("{r:?}")})),
        );
        return false;
    }
    match (&r, faulted) {
        (Ok(()), false) => {
            if let Err(m) = matches_permutation(&got, &lines, true) {
                rep.violation("bytes-torn-or-duplicated", witness(&m, json!({})));
                return false;
            }
            if got.len() != reference.len() {
                rep.violation("bytes-torn-or-duplicated", witness("received length differs from the record length", json!({})));
                return false;
            }
            rep.count("bytes_cases_ok", 1);
        }
        (Ok(()), true) => {
            rep.violation("hard-error-swallowed", witness("the writer reported a hard error / zero-length write but format returned Ok", json!({})));
            return false;
        }
        (Err(metrique_writer::IoStreamError::Io(_)), true) => {
            if let Err(m) = matches_permutation(&got, &lines, false) {
                rep.violation("bytes-before-error-not-a-prefix", witness(&m, json!({})));
                return false;
            }
            rep.count("bytes_cases_io_error", 1);
        }
        (Err(err), _) => {
            rep.violation("unexpected-error", witness(&format!("unexpected result {err:?} (faulted={faulted})"), json!({})));
            return false;
        }
    }
    // the next entry formats completely and correctly on the same formatter
    let (r2, b2) = format_to_vec(emf, e);
    if r2 != FmtResult::Ok || matches_permutation(&b2, &lines, true).is_err() || b2.len() != reference.len() {
        rep.violation("next-entry-corrupted-after-fault", witness("the entry formatted after the scripted one is not complete and correct", json!({"next_result": format!("{r2:?}"), "next_output": short(&b2)})));
        return false;
    }
    true
}

fn bytes_part(args: &Args, rep: &Report, budget: Duration) {
    let start = Instant::now();
    std::thread::scope(|s| {
        for lane in 0..args.get_u64("lanes", 8) {
            let rep = &rep;
            s.spawn(move || {
                let mut rng = Rng::derive(args.seed, lane);
                let mut first = true;
                while (start.elapsed() < budget || first) && rep.violation_count() == 0 {
                    first = false;
                    let shape = (lane % 5) as u8;
                    let (cfg, e) = shape_entry(&mut rng, shape);
                    let mut emf = cfg.build();
                    let (_, reference) = format_to_vec(&mut cfg.build(), &e);
                    let total = reference.len();
                    // every k in 1..L as the size accepted by the first write (vectored and plain)
                    // (records of tens of KiB - wide entries - would make this quadratic pass take tens of
                    // minutes under ASan: above 1500 bytes, 1500 evenly spaced sizes)
                    let step = if is_miri() { (total / 4).max(1) } else { (total / 1500).max(1) };
                    for vectored in [true, false] {
                        let mut k = 1;
                        while k <= total {
                            rep.eval();
                            let script = Script { steps: vec![Step::Accept(k)], then_chunk: usize::MAX, vectored, then_interrupting: false };
                            if !bytes_case(&mut emf, &cfg, &e, &script, false, rep) {
                                return;
                            }
                            k += step;
                        }
                    }
                    rep.count("records_with_every_first_write_size", 1);
                    rep.distinct(Fnv::new().u64(shape as u64).u64(total as u64).finish());
                    // random fault scripts
                    for _ in 0..if is_miri() { 3 } else { 300 } {
                        let n = rng.below(8) as usize;
                        let steps: Vec<Step> = (0..n)
                            .map(|_| match rng.below(10) {
                                0 => Step::Interrupted,
                                1 => Step::Interrupted,
                                2 => Step::Zero,
                                3 => Step::Hard,
                                _ => Step::Accept(1 + rng.usize_below(total.max(2))),
                            })
                            .collect();
                        let script = Script { steps, then_chunk: *rng.pick(&[1usize, 7, 64, 4096, usize::MAX]), vectored: rng.bool(), then_interrupting: rng.below(4) == 0 };
                        rep.eval();
                        let mut h = Fnv::new();
                        h.str(&format!("{:?}", script.steps.iter().map(std::mem::discriminant).collect::<Vec<_>>())).u64(script.vectored as u64).u64(shape as u64);
                        rep.distinct(h.finish());
                        if rep.want_sample() && rng.below(500) == 0 {
                            rep.sample(|| json!({"shape": shape, "record_len": total, "script": format!("{script:?}")}));
                        }
                        if !bytes_case(&mut emf, &cfg, &e, &script, rng.below(3) == 0, rep) {
                            return;
                        }
                    }
                    // a long record (several KiB) through a writer that takes one to three bytes at a
                    // time and is interrupted before every successful call: thousands of Interrupted
                    // results for one line, never two in a row, and no hard error
                    if !is_miri() {
                        let mut long = e.clone();
                        long.ops.push(POp::Value("Padding".into(), PVal::Str("0123456789abcdef".repeat(100 + rng.usize_below(300)))));
                        let script = Script { steps: vec![], then_chunk: 1 + rng.usize_below(3), vectored: rng.bool(), then_interrupting: true };
                        rep.eval();
                        if !bytes_case(&mut emf, &cfg, &long, &script, rng.below(3) == 0, rep) {
                            return;
                        }
                        rep.count("long_records_through_an_always_interrupted_slow_writer", 1);
                    }
                }
            });
        }
    });
}

// ------------------------------------------------------------------------------------------
// sinks

fn outcome_for(id: u64, seed: u64, err_pm: u64) -> Outcome {
    let h = Fnv::new().u64(id).u64(seed).finish() % 1000;
    if h < err_pm / 2 {
        Outcome::Validation
    } else if h < err_pm {
        Outcome::Io
    } else {
        Outcome::Ok
    }
}

fn scripted(seed: u64, err_pm: u64, flush_fail: bool) -> Arc<StreamShared> {
    let sh = StreamShared::new(seed);
    sh.set_script(move |k| match k {
        EntryKind::Id(id) => outcome_for(*id, seed, err_pm),
        // the in-band error report is an entry like any other to the stream: it may be refused or
        // fail, which must change nothing for the entries after it
        EntryKind::ErrorReport(_) => match seed % 3 {
            0 => Outcome::Ok,
            1 => Outcome::Io,
            _ => Outcome::Validation,
        },
        _ => Outcome::Ok,
    });
    sh.flush_fail.store(flush_fail, Ordering::Relaxed);
    sh
}

fn check_exactly_once(log: &[Ev], n: u32, what: &str, ctx: &str, rep: &Report) -> bool {
    let ids: Vec<u64> = log.iter().filter_map(|e| e.id()).collect();
    let expected: Vec<u64> = (0..n).map(|s| make_id(0, s)).collect();
    if ids != expected {
        rep.violation(
            "sink-entry-lost-duplicated-or-reordered",
            json!({"what": what, "ctx": ctx, "expected_count": n, "received_count": ids.len(),
                   "first_difference": ids.iter().zip(&expected).position(|(a, b)| a != b),
                   "received_tail": ids.iter().rev().take(8).rev().map(|i| *i as u32).collect::<Vec<_>>()}),
        );
        return false;
    }
    true
}

/// An immediate-flush sink flushes its stream after every entry, whatever the entry's fate (on a
/// tee, a branch that accepted the entry must not be left unflushed because the other branch
/// failed): when `append` has returned, the last thing every stream saw is a flush.
fn flushed_after_append(streams: &[&Arc<StreamShared>], unflushed: &mut Option<String>, what: &str, seq: u32) {
    for (i, sh) in streams.iter().enumerate() {
        if unflushed.is_none() && matches!(sh.log().last(), Some(Ev::Next { .. })) {
            *unflushed = Some(format!("{what}: after append #{seq} returned, stream {i} had been handed the entry but not flushed since"));
        }
    }
}

/// Several queues whose streams fail at the same time, for longer than the one-second window in
/// which error reports are rate limited process-wide: every queue keeps handing its entries to its
/// stream and shuts down. (An outage hits all sinks of a process together; the writers run flat
/// out, so they reach the shared rate limiter at the same instants.)
fn simultaneous_outage(rep: &Report) {
    struct Failing {
        handed: Arc<AtomicU64>,
        dropped: Arc<std::sync::atomic::AtomicBool>,
    }
    impl EntryIoStream for Failing {
        fn next(&mut self, _entry: &impl metrique_writer::Entry) -> Result<(), metrique_writer::IoStreamError> {
            let n = self.handed.fetch_add(1, Ordering::Relaxed);
            vcommon::sync::progress_tick();
            if n % 2 == 0 {
                Err(metrique_writer::IoStreamError::Io(io::Error::other("outage")))
            } else {
                Err(metrique_writer::IoStreamError::Validation(metrique_writer::ValidationError::invalid("outage")))
            }
        }
        fn flush(&mut self) -> io::Result<()> {
            Err(io::Error::other("outage"))
        }
    }
    impl Drop for Failing {
        fn drop(&mut self) {
            self.dropped.store(true, Ordering::SeqCst);
        }
    }
    if is_miri() {
        return;
    }
    rep.eval();
    let n_queues = 8usize;
    let handed: Vec<Arc<AtomicU64>> = (0..n_queues).map(|_| Default::default()).collect();
    let dropped: Vec<Arc<std::sync::atomic::AtomicBool>> = (0..n_queues).map(|_| Default::default()).collect();
    let gate = Arc::new(vcommon::sync::SpinGate::new(n_queues));
    let appenders: Vec<_> = (0..n_queues)
        .map(|i| {
            let (gate, handed, dropped) = (gate.clone(), handed[i].clone(), dropped[i].clone());
            std::thread::spawn(move || {
                let (q, h) = BackgroundQueueBuilder::new().capacity(1 << 16).flush_interval(Duration::from_millis(50)).build::<IdEntry>(Failing { handed: handed.clone(), dropped });
                gate.wait();
                let start = Instant::now();
                let mut s = 0u64;
                while start.elapsed() < Duration::from_millis(2300) {
                    // stay ahead of the writer without overflowing the ring
                    if s < handed.load(Ordering::Relaxed) + 60_000 {
                        q.append(IdEntry::new(0, s as u32));
                        s += 1;
                    } else {
                        std::hint::spin_loop();
                    }
                }
                (q, h, s)
            })
        })
        .collect();
    let mut queues = vec![];
    for t in appenders {
        queues.push(t.join().expect("appender"));
    }
    let appended: Vec<u64> = queues.iter().map(|q| q.2).collect();
    let done = Arc::new(std::sync::atomic::AtomicBool::new(false));
    let d2 = done.clone();
    let closer = std::thread::spawn(move || {
        for (q, h, _) in queues {
            drop(q);
            h.shut_down();
        }
        d2.store(true, Ordering::SeqCst);
    });
    let finished = vcommon::sync::progress_wait(|| done.load(Ordering::SeqCst), vcommon::sync::default_stall());
    let handed_now: Vec<u64> = handed.iter().map(|h| h.load(Ordering::SeqCst)).collect();
    if !finished {
        rep.violation(
            "sink-stalled-during-simultaneous-outage",
            json!({"what": "8 queues whose streams all fail (I/O and validation errors alternating) for 2.3 s with writers running flat out: shutting them down made no progress for the stall period - a writer thread is stuck",
                   "appended_per_queue": appended, "handed_to_each_stream_so_far": handed_now, "streams_dropped": dropped.iter().map(|d| d.load(Ordering::SeqCst)).collect::<Vec<_>>()}),
        );
        return;
    }
    let _ = closer.join();
    // the stream may also have been handed the queue's own (rate-limited) report entries
    for i in 0..n_queues {
        if handed_now[i] < appended[i] || handed_now[i] > appended[i] + 8 || !dropped[i].load(Ordering::SeqCst) {
            rep.violation(
                "sink-entry-lost-duplicated-or-reordered",
                json!({"what": "simultaneous outage: a queue did not hand every appended entry to its stream exactly once (count) or did not close it", "queue": i, "appended": appended[i], "handed": handed_now[i], "closed": dropped[i].load(Ordering::SeqCst)}),
            );
            return;
        }
    }
    rep.count("simultaneous_outage_entries", appended.iter().sum());
    rep.distinct(Fnv::new().str("simultaneous-outage").finish());
}

/// The in-band error report refused (validation error) or failing (I/O error) at the stream, with the
/// process-wide one-per-second slot known to be free (this runs alone, after a pause): the entries
/// after it are all delivered, once, in order, and at most one report is handed over within the second.
fn refused_report_scenarios(rep: &Report) {
    for (mode, name) in [(Outcome::Validation, "refused with a validation error"), (Outcome::Io, "failing with an I/O error")] {
        std::thread::sleep(Duration::from_millis(1100));
        rep.eval();
        let sh = StreamShared::new(7);
        sh.set_script(move |k| match k {
            EntryKind::Id(id) if id % 2 == 1 => Outcome::Validation,
            EntryKind::ErrorReport(_) => mode,
            _ => Outcome::Ok,
        });
        let sh2 = sh.clone();
        let done = std::thread::spawn(move || {
            let (q, handle) = BackgroundQueueBuilder::new().capacity(64).flush_interval(Duration::from_millis(1)).build::<IdEntry>(sh2.stream());
            for s in 0..10 {
                q.append(IdEntry::new(0, s));
            }
            let flushed = progress_wait(|| sh2.log().iter().filter(|e| e.id().is_some()).count() == 10, Duration::from_secs(5));
            drop(q);
            if flushed {
                handle.shut_down();
            } else {
                handle.forget();
            }
            flushed
        })
        .join();
        let log = sh.log();
        let ids: Vec<u64> = log.iter().filter_map(|e| e.id()).collect();
        let reports = log.iter().filter(|e| matches!(e, Ev::Next { kind: EntryKind::ErrorReport(_), .. })).count();
        let want: Vec<u64> = (0..10).map(|s| make_id(0, s)).collect();
        if done.is_err() || ids != want {
            rep.violation(
                "sink-entry-lost-duplicated-or-reordered",
                json!({"what": format!("no tracing subscriber; every other entry fails validation; the in-band error report is itself {name} by the stream: every appended entry must still be handed to the stream once, in order"),
                       "entries_delivered": ids.len(), "appended": 10, "report_entries": reports, "shutdown_or_writer_panicked": done.is_err()}),
            );
            return;
        }
        if reports > 1 {
            rep.violation(
                "sink-extra-entries-at-the-stream",
                json!({"what": format!("five validation failures within a few milliseconds, the in-band report {name}: at most one report entry per second may be handed to the stream"), "report_entries": reports}),
            );
            return;
        }
        rep.count("refused_report_scenarios", 1);
    }
}

fn sinks_part(args: &Args, rep: &Report, rounds: u64) {
    let mut rng = Rng::derive(args.seed, 0xabc);
    for round in 0..rounds {
        if rep.violation_count() > 0 {
            return;
        }
        let n = 1 + rng.below(if is_miri() { 6 } else { 200 }) as u32;
        let seed = rng.next_u64();
        let err_pm = *rng.pick(&[0u64, 100, 500, 1000]);
        let flush_fail = rng.bool();
        let kind = round % 6;
        let ctx = format!("kind={kind} n={n} err_pm={err_pm} flush_fail={flush_fail} seed={seed}");
        rep.eval();
        rep.distinct(Fnv::new().u64(kind).u64(err_pm).u64(flush_fail as u64).u64((n as u64).min(8)).finish());
        let mut unflushed: Option<String> = None;
        let appended = catch_unwind(AssertUnwindSafe(|| -> Vec<(String, Arc<StreamShared>)> {
            match kind {
                0 => {
                    let sh = scripted(seed, err_pm, flush_fail);
                    let sink = FlushImmediately::<IdEntry, _>::new(sh.stream());
                    for s in 0..n {
                        sink.append(IdEntry::new(0, s));
                        flushed_after_append(&[&sh], &mut unflushed, "FlushImmediately typed", s);
                    }
                    vec![("FlushImmediately typed".into(), sh)]
                }
                1 => {
                    let sh = scripted(seed, err_pm, flush_fail);
                    let sink = FlushImmediately::new_boxed(sh.stream());
                    for s in 0..n {
                        sink.append_any(IdEntry::new(0, s));
                        flushed_after_append(&[&sh], &mut unflushed, "FlushImmediately boxed", s);
                    }
                    vec![("FlushImmediately boxed".into(), sh)]
                }
                2 => {
                    let sh = scripted(seed, err_pm, flush_fail);
                    let sink = AnyFlushImmediately::new(sh.stream());
                    for s in 0..n {
                        sink.append_any(IdEntry::new(0, s));
                        flushed_after_append(&[&sh], &mut unflushed, "AnyFlushImmediately", s);
                    }
                    vec![("AnyFlushImmediately".into(), sh)]
                }
                3 => {
                    // tee: each branch has its own error script
                    let a = scripted(seed, err_pm, flush_fail);
                    let b = scripted(seed ^ 0x5555, 1000 - err_pm.min(1000), !flush_fail);
                    let sink = FlushImmediately::<IdEntry, _>::new(tee(a.stream(), b.stream()));
                    for s in 0..n {
                        sink.append(IdEntry::new(0, s));
                        flushed_after_append(&[&a, &b], &mut unflushed, "FlushImmediately over tee", s);
                    }
                    vec![("tee branch 1".into(), a), ("tee branch 2".into(), b)]
                }
                4 => {
                    let a = scripted(seed, err_pm, flush_fail);
                    let b = scripted(seed ^ 0x77, err_pm, false);
                    let (q, h) = BackgroundQueueBuilder::new().capacity(n as usize + 4).flush_interval(Duration::from_micros(50)).build::<IdEntry>(a.stream().tee(b.stream()));
                    for s in 0..n {
                        q.append(IdEntry::new(0, s));
                    }
                    drop(q);
                    h.shut_down();
                    vec![("queue+tee branch 1".into(), a), ("queue+tee branch 2".into(), b)]
                }
                _ => {
                    let sh = scripted(seed, err_pm, flush_fail);
                    let (q, h) = BackgroundQueueBuilder::new().capacity(n as usize + 4).flush_interval(Duration::from_micros(50)).build_boxed(sh.stream());
                    for s in 0..n {
                        q.append_any(IdEntry::new(0, s));
                    }
                    drop(q);
                    h.shut_down();
                    if !sh.is_dropped() {
                        rep.violation("queue-did-not-shut-down-cleanly", json!({"ctx": ctx.clone()}));
                    }
                    vec![("BackgroundQueue boxed".into(), sh)]
                }
            }
        }));
        match appended {
            Err(_) => {
                rep.violation("append-panicked", json!({"ctx": ctx, "what": "appending to a sink whose stream returns errors panicked"}));
                return;
            }
            Ok(streams) => {
                if let Some(u) = unflushed {
                    rep.violation("accepted-entry-left-unflushed", json!({"ctx": ctx, "what": u}));
                    return;
                }
                for (what, sh) in streams {
                    let log = sh.log();
                    rep.count("sink_entries_checked", n as u64);
                    rep.count("sink_stream_errors_scripted", log.iter().filter(|e| matches!(e, Ev::Next { outcome: Outcome::Io | Outcome::Validation, .. })).count() as u64);
                    if !check_exactly_once(&log, n, &what, &ctx, rep) {
                        return;
                    }
                }
            }
        }
    }
    if rep.violation_count() == 0 {
        simultaneous_outage(rep);
    }
    // the formatter-backed stream: a failing writer for one entry, later entries still complete
    for round in 0..rounds / 4 + 1 {
        if rep.violation_count() > 0 {
            return;
        }
        rep.eval();
        let (cfg, e) = shape_entry(&mut rng, (round % 5) as u8);
        let (_, reference) = format_to_vec(&mut cfg.build(), &e);
        let lines: Vec<Vec<u8>> = reference.split_inclusive(|b| *b == b'\n').map(|l| l.to_vec()).collect();
        let fail_entry = rng.below(4) as usize;
        let steps: Vec<Step> = (0..fail_entry * 50).map(|_| Step::Accept(usize::MAX)).chain([Step::Hard]).collect();
        // the writer fails exactly once, at its (fail_entry*50)-th call or never if the entries need fewer calls
        let w = ScriptedWrite::new(Script { steps, then_chunk: usize::MAX, vectored: true, then_interrupting: false });
        let got = w.got.clone();
        let mut stream = cfg.build().output_to(w);
        let mut oks = 0;
        for _ in 0..5 {
            if stream.next(&e).is_ok() {
                oks += 1;
            }
        }
        let bytes = got.lock().unwrap().clone();
        // at most one entry is incomplete: whole-record count >= oks
        let whole = bytes.split_inclusive(|b| *b == b'\n').filter(|l| lines.iter().any(|x| x == l)).count();
        if oks < 4 || whole < oks * lines.len() {
            rep.violation(
                "stream-stalled-after-io-error",
                json!({"what": "after one hard write error the formatter-backed stream did not keep writing complete records", "oks": oks, "whole_records": whole, "records_per_entry": lines.len()}),
            );
            return;
        }
        rep.count("formatter_stream_rounds", 1);
    }
}

fn main() {
    let args = Args::parse();
    let rep = Report::new("C16", &args);
    rep.rule(
        "bytes: record shapes single / 3 namespaces / split into 2-4 lines; for each record every k in 1..L (above 1500 bytes: 1500 evenly spaced k) as the size accepted by the first write_vectored \
         (and by a plain-write-only writer), then random scripts mixing short writes, Interrupted, Ok(0), hard error at call j; oracle: no hard error => Ok and \
         received bytes = concatenation of a permutation of the reference lines; Ok(0)/hard error => Io error, received bytes are a prefix of such a concatenation, \
         and the next entry on the same formatter is complete. sinks: BackgroundQueue / FlushImmediately (typed, boxed, any) / tee over scripted streams returning \
         Ok|Validation|Io per entry and errors on flush: every entry is handed to every stream exactly once, in order, append never panics. distinct = distinct (shape, script kind) hashes",
    );
    if is_miri() {
        bytes_part(&args, &rep, Duration::from_secs(0));
        sinks_part(&args, &rep, 6);
        println!("OUTCOME evaluations={}", rep.evaluations());
    } else {
        let secs = args.get_u64("secs", args.by_tier(10, 120));
        bytes_part(&args, &rep, Duration::from_secs(secs));
        if rep.violation_count() == 0 {
            sinks_part(&args, &rep, args.get_u64("sink_rounds", args.by_tier(600, 6000)));
        }
        // (ASan legs run with a subscriber-less process too; the scenario is cheap)
        if rep.violation_count() == 0 && tracing::dispatcher::has_been_set() == false {
            refused_report_scenarios(&rep);
        }
    }
    rep.finish_and_exit();
}
