fn main() {}
