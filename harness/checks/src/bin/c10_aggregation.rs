//! C10 — aggregation conserves inputs: each merged entry is in exactly one aggregate.
//! Shape H: every input carries a unique id (its distribution value), so the aggregate an input
//! landed in is identified unambiguously. See DESIGN.md §7 C10.

use checks::uow_util::{Appended, CountingSink};
use metrique::CloseValue;
use metrique::unit_of_work::metrics;
use metrique_aggregation::aggregate;
use metrique_aggregation::aggregator::{Aggregate, KeyedAggregator};
use metrique_aggregation::histogram::{Histogram, SortAndMerge};
use metrique_aggregation::sink::{MutexSink, TeeSink, WorkerSink, non_aggregate};
use metrique_aggregation::traits::{AggregateSink, FlushableSink, RootSink};
use metrique_aggregation::value::{KeepLast, Sum};
use std::collections::{BTreeMap, HashMap, HashSet};
use std::sync::atomic::{AtomicBool, AtomicU64, Ordering};
use std::sync::Arc;
use vcommon::sync::SpinGate as Barrier;
use std::time::{Duration, Instant};
use vcommon::recording::{Obs, Op, Val};
use vcommon::serde_json::{Value, json};
use vcommon::sync::{block_on, default_stall, is_miri, progress_tick, progress_wait, ticket};
use vcommon::{Args, Fnv, Report, Rng};

#[aggregate(ref)]
#[metrics]
#[derive(Clone, Debug)]
pub struct Call {
    #[aggregate(key)]
    endpoint: String,
    #[aggregate(key)]
    shard: u8,
    #[aggregate(strategy = Sum)]
    bytes: u64,
    #[aggregate(strategy = Histogram<u64, SortAndMerge>)]
    lat: u64,
    #[aggregate(strategy = KeepLast)]
    last: u64,
    /// a float distribution whose inputs include NaNs of both signs, infinities and negative zero
    /// (a function of `lat`, so that the two distributions of an aggregate can be compared)
    #[aggregate(strategy = Histogram<f64, SortAndMerge>)]
    ratio: f64,
    /// plain keep-last on an optional field: the last input wins, also when it is None
    #[aggregate(strategy = KeepLast)]
    opt_last: Option<u64>,
}

/// the optional value recorded next to the input with this id
fn opt_of(id: u64) -> Option<u64> {
    if id % 3 == 0 { None } else { Some(id) }
}

/// the float recorded next to the input with this id; NaNs (of either sign) are to be dropped,
/// everything else is kept
fn ratio_of(id: u64) -> f64 {
    match id % 41 {
        3 => f64::NAN,
        4 => -f64::NAN,
        5 => f64::from_bits(0xfff8_0000_0000_0001), // another NaN with the sign bit set
        6 => -0.0,
        7 => f64::INFINITY,
        _ => id as f64 * 0.5,
    }
}

/// no-key variant for the embedded `Aggregate<T>` / `MutexSink<Aggregate<T>>`
#[aggregate]
#[metrics]
#[derive(Clone, Debug)]
pub struct Part {
    #[aggregate(strategy = Sum)]
    pbytes: u64,
    #[aggregate(strategy = Histogram<u64, SortAndMerge>)]
    plat: u64,
    #[aggregate(strategy = KeepLast)]
    plast: u64,
}

#[metrics]
struct Request {
    #[metrics(flatten)]
    parts: Aggregate<Part>,
    req_id: u64,
}

#[metrics]
struct RequestShared {
    #[metrics(flatten)]
    parts: MutexSink<Aggregate<Part>>,
    req_id: u64,
}

type ClosedCall = <Call as CloseValue>::Closed;

#[derive(Clone, Debug)]
struct Input {
    id: u64,
    endpoint: String,
    shard: u8,
    bytes: u64,
}

impl Input {
    fn call(&self) -> Call {
        Call { endpoint: self.endpoint.clone(), shard: self.shard, bytes: self.bytes, lat: self.id, last: self.id, ratio: ratio_of(self.id), opt_last: opt_of(self.id) }
    }
    fn key(&self) -> (String, u64) {
        (self.endpoint.clone(), self.shard as u64)
    }
}

fn gen_inputs(rng: &mut Rng, n: usize, next_id: &mut u64) -> Vec<Input> {
    // mostly few, colliding keys; sometimes thousands of distinct keys in one flush epoch
    let nkeys = if n > 100 && rng.below(6) == 0 { 700 + rng.below(3000) } else { 1 + rng.below(12) };
    let n = if nkeys > 100 { n * 12 } else { n };
    (0..n)
        .map(|_| {
            *next_id += 1;
            Input { id: *next_id, endpoint: format!("ep{}", rng.below(nkeys)), shard: rng.below(3) as u8, bytes: rng.below(1000) }
        })
        .collect()
}

#[derive(Debug, Clone)]
struct AggOut {
    key: Option<(String, u64)>,
    bytes: Option<u64>,
    lats: Vec<(u64, u64)>, // (value, occurrences)
    last: Option<u64>,
    #[allow(dead_code)]
    ticket: u64,
}

fn parse(a: &Appended, prefix: &str) -> Result<AggOut, String> {
    let mut out = AggOut { key: None, bytes: None, lats: vec![], last: None, ticket: a.ticket };
    let mut ratios: Option<Vec<f64>> = None;
    let mut opt_last: Option<u64> = None;
    let mut endpoint = None;
    let mut shard = None;
    for op in &a.log {
        if let Op::Value { name, val } = op {
            match (name.as_str(), val) {
                ("endpoint", Val::String(s)) => endpoint = Some(s.clone()),
                ("shard", Val::Metric { obs, .. }) => {
                    shard = match obs.first() {
                        Some(Obs::U(u)) => Some(*u),
                        _ => None,
                    }
                }
                (n, Val::Metric { obs, .. }) if n == format!("{prefix}bytes") => {
                    out.bytes = match obs.first() {
                        Some(Obs::U(u)) => Some(*u),
                        _ => return Err(format!("bytes not unsigned: {obs:?}")),
                    }
                }
                (n, Val::Metric { obs, .. }) if n == format!("{prefix}last") => {
                    out.last = match obs.first() {
                        Some(Obs::U(u)) => Some(*u),
                        _ => return Err(format!("last not unsigned: {obs:?}")),
                    }
                }
                (n, Val::Metric { obs, .. }) if n == format!("{prefix}opt_last") => {
                    opt_last = match obs.first() {
                        Some(Obs::U(u)) => Some(*u),
                        _ => return Err(format!("opt_last not unsigned: {obs:?}")),
                    }
                }
                (n, Val::Metric { obs, .. }) if n == format!("{prefix}ratio") => {
                    let r = ratios.get_or_insert_with(Vec::new);
                    for o in obs {
                        match o {
                            Obs::R { total, occ } => r.extend(std::iter::repeat_n(f64::from_bits(*total) / *occ as f64, *occ as usize)),
                            Obs::U(u) => r.push(*u as f64),
                            Obs::F(b) => r.push(f64::from_bits(*b)),
                            Obs::Other => return Err("unknown observation".into()),
                        }
                    }
                }
                (n, Val::Metric { obs, .. }) if n == format!("{prefix}lat") => {
                    for o in obs {
                        match o {
                            Obs::R { total, occ } => {
                                let t = f64::from_bits(*total);
                                if *occ == 0 {
                                    return Err("zero-occurrence observation".into());
                                }
                                let v = t / *occ as f64;
                                if v.fract() != 0.0 {
                                    return Err(format!("non-integral mean {v}"));
                                }
                                out.lats.push((v as u64, *occ));
                            }
                            Obs::U(u) => out.lats.push((*u, 1)),
                            Obs::F(b) => out.lats.push((f64::from_bits(*b) as u64, 1)),
                            Obs::Other => return Err("unknown observation".into()),
                        }
                    }
                }
                _ => {}
            }
        }
    }
    if let (Some(e), Some(s)) = (endpoint, shard) {
        out.key = Some((e, s));
    }
    // the float distribution must hold exactly the non-NaN floats of the inputs the integer
    // distribution says were merged into this aggregate
    // both keep-last fields come from the same (last) input: the optional one must be what that
    // input carried, None included
    if ratios.is_some() {
        if let Some(l) = out.last {
            if opt_last != opt_of(l) {
                return Err(format!("keep-last-option: the keep-last field says the last input merged was {l}, whose optional value was {:?}; the aggregate reports {:?}", opt_of(l), opt_last));
            }
        }
    }
    if let Some(got) = ratios {
        let mut expect: Vec<f64> = out.lats.iter().flat_map(|(id, n)| std::iter::repeat_n(ratio_of(*id), *n as usize)).filter(|v| !v.is_nan()).collect();
        expect.sort_by(|a, b| a.partial_cmp(b).unwrap());
        if got.iter().any(|v| v.is_nan()) || got.len() != expect.len() || got.iter().zip(&expect).any(|(a, b)| a != b) {
            return Err(format!("ratio: the float distribution does not hold exactly the non-NaN inputs of this aggregate, ascending: {} values reported, {} expected; reported head {:?}, expected head {:?}", got.len(), expect.len(), &got[..got.len().min(6)], &expect[..expect.len().min(6)]));
        }
    }
    Ok(out)
}

/// Check one flush epoch of a keyed aggregator against the inputs merged in it (in merge order).
/// `order_known`: the merge order equals the order of `inputs` (single-threaded use).
fn check_epoch(aggs: &[AggOut], inputs: &[Input], order_known: bool, ctx: &str, rep: &Report) -> bool {
    let witness = |what: &str, extra: Value| json!({"what": what, "ctx": ctx, "extra": extra, "inputs": inputs.len(), "aggregates": aggs.len()});
    let mut by_key: BTreeMap<(String, u64), Vec<&Input>> = BTreeMap::new();
    for i in inputs {
        by_key.entry(i.key()).or_default().push(i);
    }
    let mut seen_keys = HashSet::new();
    for a in aggs {
        let Some(k) = a.key.clone() else {
            rep.violation("aggregate-without-key", witness("emitted aggregate has no key fields", json!({"agg": format!("{a:?}")})));
            return false;
        };
        if !seen_keys.insert(k.clone()) {
            rep.violation("two-aggregates-for-one-key-in-one-flush", witness("more than one aggregate per key and flush", json!({"key": format!("{k:?}")})));
            return false;
        }
        let Some(ins) = by_key.get(&k) else {
            rep.violation("aggregate-for-unknown-key", witness("aggregate emitted for a key no input had", json!({"key": format!("{k:?}")})));
            return false;
        };
        let expect_ids: Vec<u64> = {
            let mut v: Vec<u64> = ins.iter().map(|i| i.id).collect();
            v.sort_unstable();
            v
        };
        let got_ids: Vec<u64> = a.lats.iter().flat_map(|(v, n)| std::iter::repeat_n(*v, *n as usize)).collect();
        if got_ids != expect_ids {
            let missing: Vec<u64> = expect_ids.iter().filter(|i| !got_ids.contains(i)).copied().take(5).collect();
            let extra: Vec<u64> = got_ids.iter().filter(|i| !expect_ids.contains(i)).copied().take(5).collect();
            rep.violation(
                "distribution-does-not-contain-exactly-the-inputs",
                witness("distribution field differs from the inputs of that key (by count, ascending)", json!({"key": format!("{k:?}"), "missing": missing, "unexpected": extra, "got_len": got_ids.len(), "expected_len": expect_ids.len()})),
            );
            return false;
        }
        let sum: u64 = ins.iter().map(|i| i.bytes).sum();
        if a.bytes != Some(sum) {
            rep.violation("sum-field-wrong", witness("summed field != sum of the inputs of that key", json!({"key": format!("{k:?}"), "got": a.bytes, "expected": sum})));
            return false;
        }
        let last_ok = if order_known { a.last == ins.last().map(|i| i.id) } else { a.last.is_some_and(|l| ins.iter().any(|i| i.id == l)) };
        if !last_ok {
            rep.violation("keep-last-field-wrong", witness("keep-last field is not the last input of that key", json!({"key": format!("{k:?}"), "got": a.last, "expected_last": ins.last().map(|i| i.id)})));
            return false;
        }
    }
    if seen_keys.len() != by_key.len() {
        let missing: Vec<_> = by_key.keys().filter(|k| !seen_keys.contains(*k)).take(3).collect();
        rep.violation("key-without-aggregate", witness("a key with inputs got no aggregate in this flush", json!({"missing_keys": format!("{missing:?}")})));
        return false;
    }
    true
}

/// like `parsed`, without draining the sink
fn parsed_snapshot(sink: &CountingSink, rep: &Report) -> Option<Vec<AggOut>> {
    let mut v = vec![];
    for a in sink.snapshot() {
        match parse(&a, "") {
            Ok(o) => v.push(o),
            Err(e) => {
                rep.violation(if e.starts_with("ratio:") { "float-distribution-does-not-contain-exactly-the-non-nan-inputs" } else if e.starts_with("keep-last-option:") { "keep-last-option-field-wrong" } else { "malformed-aggregate" }, json!({"error": e, "log": format!("{:?}", a.log).chars().take(3000).collect::<String>()}));
                return None;
            }
        }
    }
    Some(v)
}

fn parsed(sink: &CountingSink, prefix: &str, rep: &Report) -> Option<Vec<AggOut>> {
    let mut v = vec![];
    for a in sink.take() {
        match parse(&a, prefix) {
            Ok(o) => v.push(o),
            Err(e) => {
                rep.violation(if e.starts_with("ratio:") { "float-distribution-does-not-contain-exactly-the-non-nan-inputs" } else if e.starts_with("keep-last-option:") { "keep-last-option-field-wrong" } else { "malformed-aggregate" }, json!({"error": e, "log": format!("{:?}", a.log).chars().take(3000).collect::<String>()}));
                return None;
            }
        }
    }
    Some(v)
}

// ------------------------------------------------------------------------------------------
// inputs whose distribution field is itself a distribution with repeated observations

mod nested {
    use super::*;
    use metrique_aggregation::histogram::ExponentialAggregationStrategy;

    #[aggregate]
    #[metrics]
    pub struct Shard {
        #[aggregate(key)]
        table: u8,
        #[aggregate(strategy = Sum)]
        rows: u64,
        #[aggregate(strategy = Histogram<u64, SortAndMerge>)]
        exact: Histogram<u64, SortAndMerge>,
        #[aggregate(strategy = Histogram<u64, ExponentialAggregationStrategy>)]
        bucketed: Histogram<u64, ExponentialAggregationStrategy>,
    }

    fn observations(a: &Appended, name: &str) -> Option<Vec<(u64, u64)>> {
        a.log.iter().find_map(|o| match o {
            Op::Value { name: n, val: Val::Metric { obs, .. } } if n == name => Some(
                obs.iter()
                    .map(|o| match *o {
                        Obs::R { total, occ } => ((f64::from_bits(total) / occ.max(1) as f64).round() as u64, occ),
                        Obs::U(u) => (u, 1),
                        Obs::F(b) => (f64::from_bits(b).round() as u64, 1),
                        Obs::Other => (u64::MAX, 0),
                    })
                    .collect(),
            ),
            _ => None,
        })
    }

    pub fn history(rng: &mut Rng, rep: &Report) -> bool {
        let out = CountingSink::new();
        let mut agg: KeyedAggregator<Shard, CountingSink> = KeyedAggregator::new(out.clone());
        for epoch in 0..1 + rng.below(3) {
            // table -> value -> occurrences; values below 32 sit in width-1 buckets of the exponential layout
            let mut want: BTreeMap<u8, BTreeMap<u64, u64>> = BTreeMap::new();
            let mut rows: BTreeMap<u8, u64> = BTreeMap::new();
            for _ in 0..rng.below(if is_miri() { 5 } else { 40 }) {
                let table = rng.below(3) as u8;
                let (mut exact, mut bucketed) = (Histogram::<u64, SortAndMerge>::default(), Histogram::<u64, ExponentialAggregationStrategy>::default());
                let n = rng.below(12);
                for _ in 0..n {
                    // few distinct values: repeats within one input and across inputs
                    let v = rng.below(6) * 5 + rng.below(2);
                    exact.add_value(v);
                    bucketed.add_value(v);
                    *want.entry(table).or_default().entry(v).or_default() += 1;
                }
                *rows.entry(table).or_default() += n;
                want.entry(table).or_default();
                agg.merge(Shard { table, rows: n, exact, bucketed }.close());
            }
            agg.flush();
            let apps = out.take();
            if apps.len() != want.len() {
                rep.violation("key-without-aggregate", json!({"ctx": "nested distributions", "aggregates": apps.len(), "keys": want.len(), "epoch": epoch}));
                return false;
            }
            for a in &apps {
                let table = a.u64_field("table").unwrap_or(99) as u8;
                let expect: Vec<(u64, u64)> = want.get(&table).map(|m| m.iter().map(|(v, n)| (*v, *n)).collect()).unwrap_or_default();
                for field in ["exact", "bucketed"] {
                    let mut got = observations(a, field).unwrap_or_default();
                    got.sort_unstable();
                    // equal values may be reported as several runs: add them up
                    let mut merged: Vec<(u64, u64)> = vec![];
                    for (v, n) in got {
                        match merged.last_mut() {
                            Some(l) if l.0 == v => l.1 += n,
                            _ => merged.push((v, n)),
                        }
                    }
                    if merged != expect {
                        rep.violation(
                            "distribution-does-not-contain-exactly-the-inputs",
                            json!({"ctx": "inputs whose distribution field is a Histogram with repeated observations", "field": field, "table": table, "epoch": epoch,
                                   "expected(value,occurrences)": expect, "got(value,occurrences)": merged}),
                        );
                        return false;
                    }
                }
                if a.u64_field("rows") != Some(rows.get(&table).copied().unwrap_or(0)) {
                    rep.violation("sum-field-wrong", json!({"ctx": "nested distributions", "table": table, "got": a.u64_field("rows"), "expected": rows.get(&table)}));
                    return false;
                }
            }
            rep.count("nested_distribution_aggregates_checked", apps.len() as u64);
            rep.count("aggregates_checked", apps.len() as u64);
        }
        true
    }
}

// ------------------------------------------------------------------------------------------
// a hand-written key whose Hash is (legitimately) coarser than its Eq: hash-equal distinct keys

mod coarse {
    use super::*;
    use metrique_aggregation::traits::{AggregateStrategy, Key, Merge};
    use std::borrow::Cow;
    use std::hash::{Hash, Hasher};

    pub struct HcCall {
        pub a: String,
        pub b: String,
        pub id: u64,
        pub bytes: u64,
    }

    #[derive(Clone, PartialEq, Eq)]
    #[metrics]
    pub struct HcKey<'a> {
        ka: Cow<'a, str>,
        kb: Cow<'a, str>,
    }
    /// only the LENGTH of `a` is hashed: k1 == k2 still implies hash(k1) == hash(k2)
    impl Hash for HcKey<'_> {
        fn hash<H: Hasher>(&self, state: &mut H) {
            self.ka.len().hash(state);
        }
    }

    #[metrics]
    #[derive(Default)]
    pub struct HcMerged {
        n: u64,
        bytes: u64,
        id_sum: u64,
        id_sq: u64,
        last_id: u64,
    }

    impl Merge for HcCall {
        type Merged = HcMerged;
        type MergeConfig = ();
        fn new_merged(_: &()) -> HcMerged {
            HcMerged::default()
        }
        fn merge(acc: &mut HcMerged, input: Self) {
            acc.n += 1;
            acc.bytes += input.bytes;
            acc.id_sum = acc.id_sum.wrapping_add(input.id);
            acc.id_sq = acc.id_sq.wrapping_add(input.id.wrapping_mul(input.id));
            acc.last_id = input.id;
        }
    }

    pub struct ByAB;
    impl Key<HcCall> for ByAB {
        type Key<'a> = HcKey<'a>;
        fn from_source(s: &HcCall) -> HcKey<'_> {
            HcKey { ka: Cow::Borrowed(&s.a), kb: Cow::Borrowed(&s.b) }
        }
        fn static_key<'a>(k: &HcKey<'a>) -> HcKey<'static> {
            HcKey { ka: Cow::Owned(k.ka.clone().into_owned()), kb: Cow::Owned(k.kb.clone().into_owned()) }
        }
        fn static_key_matches<'a>(owned: &HcKey<'static>, borrowed: &HcKey<'a>) -> bool {
            owned == borrowed
        }
    }
    impl AggregateStrategy for HcCall {
        type Source = HcCall;
        type Key = ByAB;
    }

    pub fn history(rng: &mut Rng, next_id: &mut u64, rep: &Report) -> bool {
        let out = CountingSink::new();
        let mut agg: KeyedAggregator<HcCall, CountingSink> = KeyedAggregator::new(out.clone());
        for epoch in 0..1 + rng.below(3) {
            let n = rng.below(if is_miri() { 10 } else { 200 }) as usize;
            // (a, b) -> (n, bytes, id_sum, id_sq, last)
            let mut want: BTreeMap<(String, String), (u64, u64, u64, u64, u64)> = BTreeMap::new();
            let na = 1 + rng.below(6);
            let nb = 1 + rng.below(4);
            for _ in 0..n {
                *next_id += 1;
                let id = *next_id;
                // names of 1-2 distinct lengths, so most keys share a hash
                let a = format!("{}{}", ["e", "ep"][rng.below(2) as usize], rng.below(na));
                let b = format!("m{}", rng.below(nb));
                let bytes = rng.below(1000);
                let w = want.entry((a.clone(), b.clone())).or_default();
                *w = (w.0 + 1, w.1 + bytes, w.2.wrapping_add(id), w.3.wrapping_add(id.wrapping_mul(id)), id);
                agg.merge(HcCall { a, b, id, bytes });
            }
            agg.flush();
            let mut got: BTreeMap<(String, String), (u64, u64, u64, u64, u64)> = BTreeMap::new();
            let apps = out.take();
            for ap in &apps {
                let text = |name: &str| {
                    ap.log.iter().find_map(|o| match o {
                        Op::Value { name: n, val: Val::String(s) } if n == name => Some(s.clone()),
                        _ => None,
                    })
                };
                let key = (text("ka").unwrap_or_default(), text("kb").unwrap_or_default());
                let f = |n: &str| ap.u64_field(n).unwrap_or(u64::MAX);
                if got.insert(key.clone(), (f("n"), f("bytes"), f("id_sum"), f("id_sq"), f("last_id"))).is_some() {
                    rep.violation("two-aggregates-for-one-key-in-one-flush", json!({"ctx": "hash-colliding hand-written key", "key": format!("{key:?}")}));
                    return false;
                }
            }
            if got != want {
                let diff: Vec<String> = want.iter().filter(|(k, v)| got.get(*k) != Some(*v)).take(4).map(|(k, v)| format!("{k:?}: expected (n,bytes,id_sum,id_sq,last)={v:?} got {:?}", got.get(k))).collect();
                let unexpected: Vec<String> = got.keys().filter(|k| !want.contains_key(*k)).take(4).map(|k| format!("{k:?}")).collect();
                rep.violation(
                    "hash-equal-distinct-keys-not-kept-apart",
                    json!({"ctx": "KeyedAggregator with a hand-written Key whose Hash covers only the length of one key field (Eq covers both fields)", "epoch": epoch,
                           "distinct_keys_merged": want.len(), "aggregates_emitted": apps.len(), "wrong_or_missing": diff, "unexpected_keys": unexpected}),
                );
                return false;
            }
            rep.count("inputs_merged", n as u64);
            rep.count("aggregates_checked", apps.len() as u64);
            rep.count("hash_colliding_keys_checked", want.len() as u64);
        }
        true
    }
}

// ------------------------------------------------------------------------------------------
// single-threaded sinks

fn direct_history(rng: &mut Rng, next_id: &mut u64, rep: &Report) -> bool {
    let out = CountingSink::new();
    let mut agg: KeyedAggregator<Call, CountingSink> = KeyedAggregator::new(out.clone());
    let epochs = 1 + rng.below(4);
    for e in 0..epochs {
        let n = rng.below(if is_miri() { 8 } else { 300 }) as usize;
        let inputs = gen_inputs(rng, n, next_id);
        for i in &inputs {
            if rng.bool() {
                agg.merge(i.call().close());
            } else {
                use metrique_aggregation::traits::AggregateSinkRef;
                agg.merge_ref(&i.call().close());
            }
        }
        agg.flush();
        let Some(aggs) = parsed(&out, "", rep) else { return false };
        if !check_epoch(&aggs, &inputs, true, &format!("KeyedAggregator direct, epoch {e}"), rep) {
            return false;
        }
        rep.count("inputs_merged", inputs.len() as u64);
        rep.count("aggregates_checked", aggs.len() as u64);
    }
    // a flush with nothing merged emits nothing
    agg.flush();
    if out.count() != 0 {
        rep.violation("aggregate-emitted-twice", json!({"what": "a second flush re-emitted aggregates"}));
        return false;
    }
    true
}

fn tee_history(rng: &mut Rng, next_id: &mut u64, rep: &Report) -> bool {
    let (oa, ob, oraw) = (CountingSink::new(), CountingSink::new(), CountingSink::new());
    let a: KeyedAggregator<Call, CountingSink> = KeyedAggregator::new(oa.clone());
    let b: KeyedAggregator<Call, CountingSink> = KeyedAggregator::new(ob.clone());
    let with_raw = rng.bool();
    let n = rng.below(if is_miri() { 8 } else { 200 }) as usize;
    let inputs = gen_inputs(rng, n, next_id);
    if with_raw {
        let mut tee = TeeSink::new(a, TeeSink::new(b, non_aggregate(oraw.clone())));
        for i in &inputs {
            tee.merge(i.call().close());
        }
        tee.flush();
    } else {
        let mut tee = TeeSink::new(a, b);
        for i in &inputs {
            tee.merge(i.call().close());
        }
        tee.flush();
    }
    for (name, o) in [("tee by-ref branch", &oa), ("tee owned branch", &ob)] {
        let Some(aggs) = parsed(o, "", rep) else { return false };
        if !check_epoch(&aggs, &inputs, true, name, rep) {
            return false;
        }
        rep.count("aggregates_checked", aggs.len() as u64);
    }
    if with_raw {
        let raw = oraw.take();
        let ids: Vec<Option<u64>> = raw.iter().map(|r| r.u64_field("lat")).collect();
        if ids != inputs.iter().map(|i| Some(i.id)).collect::<Vec<_>>() {
            rep.violation("non-aggregate-branch-lost-or-reordered", json!({"got": ids.len(), "expected": inputs.len()}));
            return false;
        }
    }
    rep.count("inputs_merged", inputs.len() as u64);
    true
}

fn embedded_history(rng: &mut Rng, next_id: &mut u64, rep: &Report) -> bool {
    let out = CountingSink::new();
    let n = rng.below(if is_miri() { 6 } else { 100 }) as usize;
    let parts: Vec<(u64, u64)> = (0..n)
        .map(|_| {
            *next_id += 1;
            (*next_id, rng.below(1000))
        })
        .collect();
    let shared = rng.bool();
    if shared {
        // MutexSink<Aggregate<Part>> with merge-on-drop guards dropped in random order
        let req = RequestShared { parts: MutexSink::new(Aggregate::default()), req_id: 7 };
        let mut guards = vec![];
        for (id, bytes) in &parts {
            let p = Part { pbytes: *bytes, plat: *id, plast: *id };
            if rng.bool() {
                guards.push(p.close_and_merge(req.parts.clone()));
            } else {
                req.parts.merge(p.close());
            }
        }
        rng.shuffle(&mut guards);
        drop(guards);
        drop(req.append_on_drop(out.clone()));
    } else {
        let mut req = Request { parts: Aggregate::default(), req_id: 7 };
        for (id, bytes) in &parts {
            req.parts.insert(Part { pbytes: *bytes, plat: *id, plast: *id });
        }
        drop(req.append_on_drop(out.clone()));
    }
    let apps = out.take();
    if apps.len() != 1 {
        rep.violation("embedded-aggregate-entry-count", json!({"entries": apps.len()}));
        return false;
    }
    let a = match parse(&apps[0], "p") {
        Ok(a) => a,
        Err(e) => {
            rep.violation("malformed-aggregate", json!({"error": e}));
            return false;
        }
    };
    let mut expect: Vec<u64> = parts.iter().map(|p| p.0).collect();
    expect.sort_unstable();
    let got: Vec<u64> = a.lats.iter().flat_map(|(v, n)| std::iter::repeat_n(*v, *n as usize)).collect();
    let sum: u64 = parts.iter().map(|p| p.1).sum();
    let ok_last = if parts.is_empty() { a.last.is_none() } else if shared { a.last.is_some_and(|l| expect.contains(&l)) } else { a.last == parts.last().map(|p| p.0) };
    if got != expect || a.bytes.unwrap_or(0) != sum || !ok_last {
        rep.violation(
            "embedded-aggregate-wrong",
            json!({"shared_mutex_sink": shared, "expected_ids": expect.len(), "got_ids": got.len(), "expected_sum": sum, "got_sum": a.bytes, "got_last": a.last, "entry_fields": apps[0].field_names()}),
        );
        return false;
    }
    rep.count("inputs_merged", parts.len() as u64);
    rep.count("aggregates_checked", 1);
    true
}

// ------------------------------------------------------------------------------------------
// a mutex-shared embedded aggregate closed while merges are in progress on other threads

mod contended {
    use super::*;
    use metrique_aggregation::traits::AggregateValue;

    /// a sum whose every merge keeps the sink's lock for ~150 microseconds
    pub struct SlowSum;
    impl AggregateValue<u64> for SlowSum {
        type Aggregated = u64;
        fn insert(acc: &mut u64, v: u64) {
            if !is_miri() {
                let t = Instant::now();
                while t.elapsed() < Duration::from_micros(150) {
                    std::hint::spin_loop();
                }
            }
            *acc += v;
        }
    }

    #[aggregate]
    #[metrics]
    pub struct SlowPart {
        #[aggregate(strategy = SlowSum)]
        qbytes: u64,
        #[aggregate(strategy = Histogram<u64, SortAndMerge>)]
        qlat: u64,
    }

    #[metrics]
    struct SlowReq {
        #[metrics(flatten)]
        parts: MutexSink<Aggregate<SlowPart>>,
        req_id: u64,
    }

    pub fn history(rng: &mut Rng, next_id: &mut u64, rep: &Report) -> bool {
        let out = CountingSink::new();
        let req = SlowReq { parts: MutexSink::new(Aggregate::default()), req_id: 9 };
        let mut mk = |rng: &mut Rng| {
            *next_id += 1;
            (*next_id, rng.below(1000))
        };
        // phase 1: merges that have completed before the close begins
        let before: Vec<(u64, u64)> = (0..1 + rng.below(3)).map(|_| mk(rng)).collect();
        for (id, b) in &before {
            req.parts.merge(SlowPart { qbytes: *b, qlat: *id }.close());
        }
        // phase 2: merges racing with the close (each may or may not make it)
        let nthreads = 1 + rng.usize_below(3);
        let racing: Vec<Vec<(u64, u64)>> = (0..nthreads).map(|_| (0..1 + rng.below(3)).map(|_| mk(rng)).collect()).collect();
        let gate = Arc::new(Barrier::new(nthreads + 1));
        let threads: Vec<_> = racing
            .iter()
            .cloned()
            .map(|mine| {
                let (sink, gate) = (req.parts.clone(), gate.clone());
                std::thread::spawn(move || {
                    gate.wait();
                    for (id, b) in mine {
                        sink.merge(SlowPart { qbytes: b, qlat: id }.close());
                    }
                })
            })
            .collect();
        gate.wait();
        // let a merge get hold of the lock first, most of the time
        for _ in 0..rng.below(2000) {
            std::hint::spin_loop();
        }
        drop(req.append_on_drop(out.clone()));
        for t in threads {
            let _ = t.join();
        }
        let apps = out.take();
        let a = match apps.as_slice() {
            [a] => match parse(a, "q") {
                Ok(a) => a,
                Err(e) => {
                    rep.violation("malformed-aggregate", json!({"error": e}));
                    return false;
                }
            },
            _ => {
                rep.violation("embedded-aggregate-entry-count", json!({"entries": apps.len()}));
                return false;
            }
        };
        let got: Vec<u64> = a.lats.iter().flat_map(|(v, n)| std::iter::repeat_n(*v, *n as usize)).collect();
        let all: HashMap<u64, u64> = before.iter().chain(racing.iter().flatten()).copied().collect();
        let missing: Vec<u64> = before.iter().map(|p| p.0).filter(|id| !got.contains(id)).collect();
        let unknown: Vec<u64> = got.iter().copied().filter(|id| !all.contains_key(id)).collect();
        let sum: u64 = got.iter().map(|id| all.get(id).copied().unwrap_or(0)).sum();
        let dup = got.len() != got.iter().collect::<HashSet<_>>().len();
        if !missing.is_empty() || !unknown.is_empty() || dup || a.bytes.unwrap_or(0) != sum {
            rep.violation(
                "embedded-aggregate-wrong",
                json!({"what": "a MutexSink<Aggregate<_>> closed (entry emitted) while other threads were merging into it: everything merged BEFORE the close began must be in the emitted aggregate, later merges may or may not be, sums must match the ids present",
                       "merged_before_the_close": before.len(), "racing_merges": racing.iter().map(|r| r.len()).sum::<usize>(), "ids_in_aggregate": got.len(),
                       "missing_ids_merged_before": missing, "unknown_ids": unknown, "sum_field": a.bytes, "sum_of_the_ids_present": sum}),
            );
            return false;
        }
        rep.count("contended_close_histories", 1);
        rep.count("contended_close_racing_merges_included", (got.len() - before.len()) as u64);
        rep.count("inputs_merged", got.len() as u64);
        true
    }
}

// ------------------------------------------------------------------------------------------
// worker sink

/// wraps the inner aggregator moved into the worker thread: counts flush calls, flags Drop
struct Observed<I> {
    inner: I,
    flushes: Arc<AtomicU64>,
    dropped: Arc<AtomicBool>,
    /// per mille of merges that take a few microseconds longer (the worker falls behind its queue)
    slow_pm: u64,
    n: u64,
}
impl<I: AggregateSink<ClosedCall>> AggregateSink<ClosedCall> for Observed<I> {
    fn merge(&mut self, entry: ClosedCall) {
        self.inner.merge(entry);
        self.n = self.n.wrapping_mul(6364136223846793005).wrapping_add(1442695040888963407);
        if (self.n >> 33) % 1000 < self.slow_pm && !is_miri() {
            for _ in 0..4000 {
                std::hint::spin_loop();
            }
        }
        progress_tick();
    }
}
impl<I: FlushableSink> FlushableSink for Observed<I> {
    fn flush(&mut self) {
        self.inner.flush();
        self.flushes.fetch_add(1, Ordering::SeqCst);
    }
}
impl<I> Drop for Observed<I> {
    fn drop(&mut self) {
        self.dropped.store(true, Ordering::SeqCst);
    }
}

fn worker_history(rng: &mut Rng, next_id: &mut u64, rep: &Report) -> bool {
    let out = CountingSink::new();
    let flushes = Arc::new(AtomicU64::new(0));
    let dropped = Arc::new(AtomicBool::new(false));
    let slow_pm = *rng.pick(&[0u64, 0, 50, 500]);
    let inner = Observed { inner: KeyedAggregator::<Call, CountingSink>::new(out.clone()), flushes: flushes.clone(), dropped: dropped.clone(), slow_pm, n: rng.next_u64() };
    // (Duration::MAX and friends: "never flush periodically")
    let interval = *rng.pick(&[Duration::from_micros(1), Duration::from_micros(200), Duration::from_millis(2), Duration::from_millis(20), Duration::from_secs(3600), Duration::MAX, Duration::from_secs(u64::MAX / 2), Duration::from_secs(1 << 40)]);
    let sink = WorkerSink::new(inner, interval);
    let producers = 1 + rng.usize_below(if is_miri() { 2 } else { 8 });
    let per = 1 + rng.usize_below(if is_miri() { 4 } else { 300 });
    let all: Vec<Vec<Input>> = (0..producers).map(|_| gen_inputs(rng, per, next_id)).collect();
    // producers also request flushes themselves (per mille of their sends), concurrently with each other
    let own_flush_pm = *rng.pick(&[0u64, 20, 150]);
    let ctx = format!("WorkerSink producers={producers} per={per} interval={interval:?} slow_merges_pm={slow_pm} producer_flush_pm={own_flush_pm}");
    // (producer, number of its own sends that had returned before its flush request, aggregates appended when its flush had completed)
    let own_barriers: Arc<std::sync::Mutex<Vec<(usize, usize, usize)>>> = Default::default();
    let returned: Arc<Vec<AtomicU64>> = Arc::new((0..producers).map(|_| AtomicU64::new(0)).collect());
    let barrier = Arc::new(Barrier::new(producers + 1));
    let use_guards = rng.bool();
    let threads: Vec<_> = all
        .iter()
        .cloned()
        .enumerate()
        .map(|(p, inputs)| {
            let (sink, returned, barrier, own_barriers, out) = (sink.clone(), returned.clone(), barrier.clone(), own_barriers.clone(), out.clone());
            let mut prng = Rng::derive(rng.next_u64(), p as u64);
            std::thread::spawn(move || {
                barrier.wait();
                for (k, i) in inputs.iter().enumerate() {
                    if prng.below(1000) < own_flush_pm {
                        block_on(sink.flush());
                        own_barriers.lock().unwrap().push((p, k, out.count()));
                    }
                    if prng.below(1000) < own_flush_pm / 2 {
                        // a flush that is given up on (timeout, lost select! arm): requested, polled once, dropped
                        let mut f = Box::pin(sink.flush());
                        let _ = vcommon::sync::poll_once(f.as_mut());
                        drop(f);
                    }
                    if use_guards && k % 3 == 0 {
                        drop(i.call().close_and_merge(sink.clone()));
                    } else {
                        sink.send(i.call().close());
                    }
                    returned[p].fetch_add(1, Ordering::SeqCst);
                    progress_tick();
                }
            })
        })
        .collect();
    barrier.wait();
    // flush requests while the producers run: everything sent before must be emitted after
    let mut emitted: Vec<AggOut> = vec![];
    let nflush = rng.below(4);
    for _ in 0..nflush {
        let snap: Vec<u64> = returned.iter().map(|r| r.load(Ordering::SeqCst)).collect();
        let s2 = sink.clone();
        let done = Arc::new(AtomicBool::new(false));
        let d2 = done.clone();
        let t = std::thread::spawn(move || {
            block_on(s2.flush());
            d2.store(true, Ordering::SeqCst);
        });
        if !progress_wait(|| done.load(Ordering::SeqCst), default_stall()) {
            rep.violation("worker-flush-never-completed", json!({"ctx": ctx}));
            return false;
        }
        let _ = t.join();
        let Some(aggs) = parsed_snapshot(&out, rep) else { return false };
        emitted = aggs;
        let have: HashSet<u64> = emitted.iter().flat_map(|a| a.lats.iter().map(|l| l.0)).collect();
        for (p, n) in snap.iter().enumerate() {
            for i in &all[p][..*n as usize] {
                if !have.contains(&i.id) {
                    rep.violation(
                        "flush-completed-before-earlier-input-emitted",
                        json!({"ctx": ctx, "what": "flush().await returned but an input whose send() had returned before the flush request is in no emitted aggregate", "producer": p, "input_id": i.id}),
                    );
                    return false;
                }
            }
        }
        rep.count("worker_flush_barriers_checked", 1);
    }
    for t in threads {
        let _ = t.join();
    }
    let flush_calls_before_drop = flushes.load(Ordering::SeqCst);
    let t_drop = ticket();
    if rng.bool() {
        // the last two handles go at the same moment, on two threads
        let other = sink.clone();
        let gate = Arc::new(Barrier::new(2));
        let g2 = gate.clone();
        let t = std::thread::spawn(move || {
            g2.wait();
            drop(other);
        });
        gate.wait();
        drop(sink);
        let _ = t.join();
    } else {
        drop(sink); // last handle
    }
    let closed = progress_wait(|| dropped.load(Ordering::SeqCst), default_stall());
    if !closed {
        rep.violation(
            "worker-thread-never-terminated",
            json!({"ctx": ctx, "what": "after the last WorkerSink handle was dropped the inner sink was never dropped",
                   "flush_calls_before_last_drop": flush_calls_before_drop, "flush_calls_now": flushes.load(Ordering::SeqCst), "drop_ticket": t_drop}),
        );
        return false;
    }
    let Some(aggs) = parsed_snapshot(&out, rep) else { return false };
    emitted = aggs;
    // flushes requested by the producers themselves, concurrently: same barrier
    {
        let mut pos: HashMap<u64, usize> = HashMap::new();
        for (ai, a) in emitted.iter().enumerate() {
            for (v, _) in &a.lats {
                pos.entry(*v).or_insert(ai);
            }
        }
        for (p, k, count_after) in own_barriers.lock().unwrap().iter() {
            for i in &all[*p][..*k] {
                if !pos.get(&i.id).is_some_and(|ai| ai < count_after) {
                    rep.violation(
                        "flush-completed-before-earlier-input-emitted",
                        json!({"ctx": ctx, "what": "a producer's own flush().await returned, but an input it had sent before requesting the flush was in no aggregate emitted by then (other producers were flushing concurrently)",
                               "producer": p, "input_id": i.id, "sends_before_request": k, "aggregates_emitted_at_completion": count_after, "input_emitted_in_aggregate_number": pos.get(&i.id)}),
                    );
                    return false;
                }
            }
            rep.count("worker_concurrent_flush_barriers_checked", 1);
        }
    }
    let _ = out.take();
    // conservation over the whole history: every input in exactly one aggregate, the one with its key
    let mut where_is: HashMap<u64, usize> = HashMap::new();
    for (ai, a) in emitted.iter().enumerate() {
        for (v, n) in &a.lats {
            if *n != 1 || where_is.insert(*v, ai).is_some() {
                rep.violation("input-in-more-than-one-aggregate", json!({"ctx": ctx, "input_id": v, "occurrences": n}));
                return false;
            }
        }
    }
    let flat: Vec<&Input> = all.iter().flatten().collect();
    for i in &flat {
        match where_is.get(&i.id) {
            None => {
                rep.violation("input-in-no-aggregate", json!({"ctx": ctx, "input_id": i.id, "what": "an input sent to the worker sink was never emitted (also not when the last handle was dropped)"}));
                return false;
            }
            Some(ai) => {
                if emitted[*ai].key != Some(i.key()) {
                    rep.violation("input-in-aggregate-of-other-key", json!({"ctx": ctx, "input_id": i.id, "input_key": format!("{:?}", i.key()), "aggregate_key": format!("{:?}", emitted[*ai].key)}));
                    return false;
                }
            }
        }
    }
    if where_is.len() != flat.len() {
        rep.violation("aggregate-contains-unknown-input", json!({"ctx": ctx}));
        return false;
    }
    // per aggregate: sum and keep-last
    let by_id: HashMap<u64, &Input> = flat.iter().map(|i| (i.id, *i)).collect();
    for a in &emitted {
        let sum: u64 = a.lats.iter().map(|l| by_id[&l.0].bytes).sum();
        if a.bytes != Some(sum) {
            rep.violation("sum-field-wrong", json!({"ctx": ctx, "key": format!("{:?}", a.key), "got": a.bytes, "expected": sum}));
            return false;
        }
        if !a.last.is_some_and(|l| a.lats.iter().any(|x| x.0 == l)) {
            rep.violation("keep-last-field-wrong", json!({"ctx": ctx, "key": format!("{:?}", a.key), "got": a.last}));
            return false;
        }
    }
    rep.count("inputs_merged", flat.len() as u64);
    rep.count("aggregates_checked", emitted.len() as u64);
    rep.count("worker_histories", 1);
    true
}

fn main() {
    let args = Args::parse();
    let rep = Report::new("C10", &args);
    rep.rule(
        "each evaluation is one history: inputs with unique ids (the id is the distribution value) and colliding keys (1-12 endpoints x 3 shards) merged into \
         KeyedAggregator (by value and by ref, several flush epochs), TeeSink (by-ref + owned branch, with non_aggregate), embedded Aggregate<T> and MutexSink<Aggregate<T>> \
         with merge-on-drop guards dropped in random order, WorkerSink with 1-8 producer threads, flush() barriers in between and drop of the last handle; oracle: one aggregate \
         per key and flush, every input id in exactly one aggregate (its key's), sum = sum of exactly those inputs, keep-last among them (= the last one when the order is known), \
         flush barrier (requests from a controller thread and, concurrently, from the producers themselves, with a worker that sometimes lags), worker inner dropped after the last handle; \
         plus a hand-written Key whose Hash is coarser than its Eq (hash-equal distinct keys must stay apart); inputs whose distribution fields are themselves histograms with repeated observations (occurrences must add up exactly). distinct = distinct (sink kind, sizes, key multiplicities)",
    );
    let tiny = is_miri() || args.get_u64("tiny", 0) == 1;
    let budget = Duration::from_secs(args.get_u64("secs", args.by_tier(10, 120)));
    let start = Instant::now();
    let lanes = if tiny { 1 } else { args.get_u64("lanes", 8) };
    std::thread::scope(|s| {
        for lane in 0..lanes {
            let rep = &rep;
            let args = &args;
            s.spawn(move || {
                let mut rng = Rng::derive(args.seed, lane + args.get_u64("variant", 0) * 100);
                let mut next_id = lane << 40;
                let mut rounds = 0;
                while (start.elapsed() < budget || rounds < 4) && rep.violation_count() == 0 {
                    rounds += 1;
                    rep.eval();
                    let before = next_id;
                    let kind = rounds % 7;
                    let ok = match kind {
                        0 => direct_history(&mut rng, &mut next_id, rep),
                        4 => coarse::history(&mut rng, &mut next_id, rep),
                        5 => nested::history(&mut rng, rep),
                        6 => contended::history(&mut rng, &mut next_id, rep),
                        1 => tee_history(&mut rng, &mut next_id, rep),
                        2 => embedded_history(&mut rng, &mut next_id, rep),
                        _ => worker_history(&mut rng, &mut next_id, rep),
                    };
                    if !ok {
                        return;
                    }
                    rep.distinct(Fnv::new().u64(kind).u64(next_id - before).u64(rng.next_u64() % 64).finish());
                    if rep.want_sample() && rounds % 50 == 3 {
                        let kind_name = ["KeyedAggregator", "TeeSink", "embedded/MutexSink", "WorkerSink", "KeyedAggregator with hash-colliding keys", "KeyedAggregator over nested distributions", "MutexSink closed during merges"][kind as usize];
                        rep.sample(|| json!({"kind": kind_name, "inputs": next_id - before}));
                    }
                    if tiny && rounds >= 7 {
                        break;
                    }
                }
            });
        }
    });
    if tiny {
        println!("OUTCOME inputs={}", rep.counter("inputs_merged"));
    }
    rep.finish_and_exit();
}
