//! Shared by C06 / C13: a sink that records, for every append, a ticket and the closed entry's
//! content as written to a recording EntryWriter.

use metrique_writer::sink::FlushWait;
use metrique_writer::{Entry, EntrySink};
use std::sync::{Arc, Mutex};
use vcommon::recording::{Op, Val, Obs, record};
use vcommon::sync::{progress_tick, ticket};

#[derive(Clone, Debug)]
pub struct Appended {
    pub ticket: u64,
    pub log: Vec<Op>,
}

impl Appended {
    /// value of an unsigned metric field, if present
    pub fn u64_field(&self, name: &str) -> Option<u64> {
        self.log.iter().find_map(|o| match o {
            Op::Value { name: n, val: Val::Metric { obs, .. } } if n == name => match obs.first() {
                Some(Obs::U(u)) => Some(*u),
                _ => None,
            },
            _ => None,
        })
    }
    pub fn has_field(&self, name: &str) -> bool {
        self.log.iter().any(|o| matches!(o, Op::Value { name: n, val } if n == name && *val != Val::Nothing))
    }
    pub fn field_names(&self) -> Vec<String> {
        self.log
            .iter()
            .filter_map(|o| match o {
                Op::Value { name, val } if *val != Val::Nothing => Some(name.clone()),
                _ => None,
            })
            .collect()
    }
}

#[derive(Clone, Default, Debug)]
pub struct CountingSink(pub Arc<Mutex<Vec<Appended>>>);

impl CountingSink {
    pub fn new() -> Self {
        Self::default()
    }
    pub fn count(&self) -> usize {
        self.0.lock().unwrap().len()
    }
    pub fn take(&self) -> Vec<Appended> {
        std::mem::take(&mut *self.0.lock().unwrap())
    }
    pub fn snapshot(&self) -> Vec<Appended> {
        self.0.lock().unwrap().clone()
    }
}

impl<E: Entry> EntrySink<E> for CountingSink {
    fn append(&self, entry: E) {
        let log = record(&entry);
        // the ticket is taken under the sink's own lock
        let mut g = self.0.lock().unwrap();
        g.push(Appended { ticket: ticket(), log });
        progress_tick();
    }

    fn flush_async(&self) -> FlushWait {
        FlushWait::ready()
    }
}
