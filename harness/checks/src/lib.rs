//! Helpers shared by several check binaries.
pub mod recorder;
pub mod emf_util;
pub mod uow_util;
