//! Helpers shared by several check binaries.
pub mod recorder;
