//! Helpers shared by several check binaries.
pub mod recorder;
pub mod emf_util;
