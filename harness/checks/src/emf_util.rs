//! Shared by the EMF checks (C02 C03 C08 C14 C16): formatter configurations, entry generators
//! (valid domain / hostile), an independent reference interpretation of what records an entry
//! must produce, the reference validity predicate, and structural checks on parsed output.
//!
//! Nothing here shares code with `emf.rs`; it is written from the crate documentation.

use metrique_writer::format::Format;
use metrique_writer_core::Unit;
use metrique_writer_core::config::{AllowSplitEntries, EntryDimensions};
use metrique_writer_core::unit::{NegativeScale, PositiveScale};
use metrique_writer_format_emf::{
    Emf, HighStorageResolutionCtor, MetricDefinition, MetricDirective, NoMetricCtor, StorageResolution,
};
use metrique_writer_core::value::FlagConstructor;
use std::borrow::Cow;
use std::collections::{BTreeMap, HashSet};
use std::sync::Arc;
use std::time::{Duration, SystemTime, UNIX_EPOCH};
use vcommon::Rng;
use vcommon::recording::{Obs, Op, POp, PVal, ProgramEntry, Val};
use vcommon::serde_json::{Value as J, json};
use vcommon::strict_json::{Js, is_integer_token};

// ------------------------------------------------------------------------------------------
// configuration

#[derive(Clone, Copy, Debug, PartialEq, Eq)]
pub enum Validate {
    /// `Emf::all_validations`
    All,
    /// `Emf::no_validations`
    Off,
    /// `Emf::builder(..).build()`: validates iff the build has debug assertions
    BuilderDefault,
    /// `Emf::builder(..).skip_all_validations(false).build()` (documented as: only `true` turns skipping on)
    BuilderSkipFalse,
}

impl Validate {
    /// does this way of building validate, per the documentation, in the current build profile?
    pub fn validates(self) -> bool {
        match self {
            Validate::All => true,
            Validate::Off => false,
            Validate::BuilderDefault | Validate::BuilderSkipFalse => cfg!(debug_assertions),
        }
    }
}

#[derive(Clone, Debug)]
pub struct DirectiveSpec {
    pub namespace: String,
    pub dimensions: Vec<Vec<String>>,
    /// (name, unit, storage resolution)
    pub metrics: Vec<(String, Unit, Option<u32>)>,
}

#[derive(Clone, Debug)]
pub struct Cfg {
    pub validate: Validate,
    pub namespaces: Vec<String>,
    pub default_dims: Vec<Vec<String>>,
    pub directives: Vec<DirectiveSpec>,
    pub log_group: Option<String>,
    pub ignored_dims: bool,
}

impl Cfg {
    pub fn build(&self) -> Emf {
        let ns = self.namespaces[0].clone();
        let dd = self.default_dims.clone();
        let simple = self.namespaces.len() == 1 && self.directives.is_empty() && self.log_group.is_none() && !self.ignored_dims;
        match self.validate {
            Validate::All if simple => return Emf::all_validations(ns, dd),
            Validate::Off if simple => return Emf::no_validations(ns, dd),
            _ => {}
        }
        let mut b = Emf::builder(ns, dd);
        for n in &self.namespaces[1..] {
            b = b.add_namespace(n.clone());
        }
        for d in &self.directives {
            b = b.directive(MetricDirective {
                dimensions: d.dimensions.iter().map(|s| s.iter().map(|x| x.as_str()).collect()).collect(),
                metrics: d
                    .metrics
                    .iter()
                    .map(|(n, u, r)| MetricDefinition {
                        name: n,
                        unit: *u,
                        storage_resolution: r.map(|r| if r == 1 { StorageResolution::Second } else { StorageResolution::Minute }),
                    })
                    .collect(),
                namespace: &d.namespace,
            });
        }
        if let Some(lg) = &self.log_group {
            b = b.log_group_name(lg.clone());
        }
        b = b.allow_ignored_dimensions(self.ignored_dims);
        match self.validate {
            Validate::Off => b.skip_all_validations(true).build(),
            Validate::BuilderSkipFalse => b.skip_all_validations(false).build(),
            Validate::BuilderDefault => b.build(),
            Validate::All => {
                // the only documented constructor that promises validation in every profile is
                // all_validations(namespace, dims); richer configurations go through the builder,
                // which validates by default only with debug assertions
                b.build()
            }
        }
    }

    /// whether validation is actually promised for this configuration in this build profile
    pub fn validates(&self) -> bool {
        let simple = self.namespaces.len() == 1 && self.directives.is_empty() && self.log_group.is_none() && !self.ignored_dims;
        match self.validate {
            Validate::All if simple => true,
            Validate::All => cfg!(debug_assertions),
            v => v.validates(),
        }
    }

    pub fn json(&self) -> J {
        json!({
            "validate": format!("{:?}", self.validate),
            "namespaces": self.namespaces,
            "default_dims": self.default_dims,
            "directives": self.directives.iter().map(|d| format!("{d:?}")).collect::<Vec<_>>(),
            "log_group": self.log_group,
            "ignored_dims": self.ignored_dims,
        })
    }
}

// ------------------------------------------------------------------------------------------
// generators

const HOSTILE_PIECES: &[&str] = &[
    "\"", "\\", "\u{0}", "\u{1}", "\u{8}", "\t", "\n", "\r", "\u{c}", "\u{1f}", "\u{7f}", "\u{2028}", "\u{2029}",
    "\u{1F600}", "é", "ß", "\u{301}", "/", "'", "{", "}", "[", "]", ",", ":", " ", "\\u0041", "\\\"", "%s", "\u{FFFD}", "\u{FEFF}",
];
const WORDS: &[&str] = &[
    "Latency", "Count", "request_count", "bytes-in", "Operation", "Status", "Region", "host", "a", "B", "time", "Values",
    "Counts", "Timestamp", "CloudWatchMetrics", "Name", "Unit", "x.y", "p99", "Σ",
];

pub fn gen_text(rng: &mut Rng, hostile: bool) -> String {
    let mut s = String::new();
    let pieces = 1 + rng.below(3);
    for _ in 0..pieces {
        if hostile && rng.below(3) == 0 {
            s.push_str(*rng.pick(HOSTILE_PIECES));
        } else {
            s.push_str(*rng.pick(WORDS));
        }
    }
    s
}

pub fn gen_string_value(rng: &mut Rng, hostile: bool, allow_big: bool) -> String {
    match rng.below(40) {
        0 => String::new(),
        1 if allow_big => {
            // a large string (up to ~1 MB) with escapes sprinkled in
            let big = rng.below(4) == 0;
            let n = 1000 + rng.below(if big { 1_000_000 } else { 20_000 }) as usize;
            let mut s = String::with_capacity(n + 16);
            while s.len() < n {
                s.push_str("xxxxxxxxxxxxxxxxxxxxxxxxxxxxxxxx");
                if rng.below(8) == 0 {
                    s.push_str(*rng.pick(HOSTILE_PIECES));
                }
            }
            s
        }
        _ => gen_text(rng, hostile),
    }
}

pub const UNITS: &[Unit] = &[
    Unit::None,
    Unit::Count,
    Unit::Percent,
    Unit::Second(NegativeScale::Micro),
    Unit::Second(NegativeScale::Milli),
    Unit::Second(NegativeScale::One),
    Unit::Byte(PositiveScale::One),
    Unit::Byte(PositiveScale::Kilo),
    Unit::Byte(PositiveScale::Tera),
    Unit::BytePerSecond(PositiveScale::Mega),
    Unit::Bit(PositiveScale::Giga),
    Unit::BitPerSecond(PositiveScale::One),
    Unit::Custom("we\"ird\\unit"),
    Unit::Custom(""),
    Unit::Custom("Furlongs/Fortnight"),
    Unit::Custom("tab\there"),
    Unit::Custom("line\nbreak"),
    Unit::Custom("nul\u{0}byte"),
    Unit::Custom("\u{1f}unit-separator\u{7f}"),
    Unit::Custom("\u{8}\u{c}\r"),
    Unit::Custom("\u{e9}t\u{e9} \u{1F600} \u{2028}"),
    Unit::Custom("/*comment*/ </script>"),
];

pub fn gen_obs(rng: &mut Rng) -> Obs {
    match rng.below(16) {
        // any bit pattern at all (NaNs included: they are skipped observations)
        12 => Obs::F(rng.next_u64()),
        // whole numbers of every magnitude, either sign, up to and beyond the 64-bit integer range
        13 => {
            let sh = rng.below(64);
            let m = (rng.next_u64() >> sh) as f64 * 2f64.powi(rng.below(5) as i32 * 8);
            Obs::F((if rng.bool() { m } else { -m }).to_bits())
        }
        // powers of two and their neighbours across the whole exponent range
        14 => {
            let p = 2f64.powi(rng.below(2098) as i32 - 1074);
            let bits = p.to_bits().wrapping_add(*rng.pick(&[0u64, 1, u64::MAX]));
            Obs::F(if rng.bool() { bits } else { bits | (1 << 63) })
        }
        // a repeated observation whose mean is a large whole number
        15 => {
            let sh = rng.below(40);
            let occ = 1 + rng.below(1 << sh);
            let sh = rng.below(64);
            let mean = (rng.next_u64() >> sh) as f64;
            Obs::R { total: (mean * occ as f64).to_bits(), occ }
        }
        0 => Obs::U(0),
        1 => Obs::U(rng.below(1000)),
        2 => Obs::U(*rng.pick(&[(1u64 << 53) - 1, 1 << 53, (1 << 53) + 1, u64::MAX, u64::MAX - 1, 1 << 63])),
        3 => Obs::F(rng.pick(&[0.0f64, -0.0, f64::MIN_POSITIVE, 5e-324, -5e-324, 1e-300, 1e300, f64::MAX, -f64::MAX]).to_bits()),
        4 => Obs::F(rng.pick(&[f64::INFINITY, f64::NEG_INFINITY, f64::NAN, -f64::NAN]).to_bits()),
        5 => Obs::F(((rng.f64() - 0.5) * 2000.0).to_bits()),
        6 => Obs::F((rng.below(100000) as f64 / 8.0).to_bits()),
        7 => Obs::R { total: (rng.f64() * 1e6).to_bits(), occ: 1 + rng.below(1000) },
        8 => Obs::R { total: (rng.below(100) as f64).to_bits(), occ: 0 },
        9 => Obs::R {
            total: rng.pick(&[f64::NAN, f64::INFINITY, f64::NEG_INFINITY, 0.0, -1.5, 1e308]).to_bits(),
            occ: *rng.pick(&[0u64, 1, 2, u64::MAX, 1 << 40]),
        },
        10 => Obs::R { total: (rng.below(1 << 30) as f64).to_bits(), occ: *rng.pick(&[1u64, 3, 7, 1 << 20, u64::MAX / 3]) },
        _ => Obs::U(rng.next_u64() >> rng.below(64)),
    }
}

fn is_skipped_obs(o: Obs) -> bool {
    match o {
        Obs::U(_) => false,
        Obs::F(b) => f64::from_bits(b).is_nan(),
        Obs::R { total, occ } => occ != 0 && (f64::from_bits(total) / occ as f64).is_nan(),
        Obs::Other => true,
    }
}

pub fn gen_obs_list(rng: &mut Rng) -> Vec<Obs> {
    let n = match rng.below(10) {
        0 => 0,
        1..=4 => 1,
        _ => 2 + rng.below(5) as usize,
    };
    let mut v: Vec<Obs> = (0..n).map(|_| gen_obs(rng)).collect();
    // force NaN / skipped observations into chosen positions (every skip mask occurs)
    if n > 0 && rng.below(3) == 0 {
        let mask = rng.below(1 << n);
        for (i, o) in v.iter_mut().enumerate() {
            if mask >> i & 1 == 1 {
                *o = if rng.bool() { Obs::F(f64::NAN.to_bits()) } else { Obs::R { total: f64::NAN.to_bits(), occ: 1 + rng.below(3) } };
            }
        }
    }
    v
}

pub fn flag_ctor(kind: u8) -> Option<vcommon::recording::FlagCtor> {
    match kind {
        1 => Some(HighStorageResolutionCtor::construct),
        2 => Some(NoMetricCtor::construct),
        _ => None,
    }
}

pub fn gen_cfg(rng: &mut Rng, hostile: bool, validate: Validate) -> Cfg {
    let dim_pool: Vec<String> = (0..4).map(|i| if hostile && rng.below(3) == 0 { format!("{}{}", gen_text(rng, true), i) } else { format!("Dim{i}") }).collect();
    let nsets = 1 + rng.below(3) as usize;
    let mut default_dims: Vec<Vec<String>> = (0..nsets)
        .map(|_| {
            let k = rng.below(4) as usize;
            let mut s: Vec<String> = vec![];
            for _ in 0..k {
                let d = rng.pick(&dim_pool).clone();
                if !s.contains(&d) {
                    s.push(d);
                }
            }
            s
        })
        .collect();
    if rng.below(4) == 0 {
        default_dims = vec![vec![]];
    }
    let nns = match rng.below(5) {
        0 => 2,
        1 => 3,
        _ => 1,
    };
    let namespaces = (0..nns).map(|i| if hostile { format!("{}{}", gen_text(rng, true), i) } else { format!("NS{i}") }).collect();
    let directives = (0..if rng.below(4) == 0 { 1 + rng.below(2) } else { 0 })
        .map(|i| DirectiveSpec {
            namespace: format!("ExtraNS{i}"),
            dimensions: vec![vec![gen_text(rng, hostile)]],
            metrics: vec![(gen_text(rng, hostile), *rng.pick(UNITS), *rng.pick(&[None, Some(1), Some(60)]))],
        })
        .collect();
    Cfg {
        validate,
        namespaces,
        default_dims,
        directives,
        log_group: if rng.below(4) == 0 { Some(gen_text(rng, hostile)) } else { None },
        ignored_dims: rng.below(5) == 0,
    }
}

pub fn entry_dimensions(sets: &[Vec<String>]) -> EntryDimensions {
    EntryDimensions::new(Cow::Owned(
        sets.iter().map(|s| Cow::Owned(s.iter().map(|d| Cow::Owned(d.clone())).collect::<Vec<_>>())).collect::<Vec<_>>(),
    ))
}

pub fn gen_timestamp(rng: &mut Rng) -> SystemTime {
    match rng.below(8) {
        0 => UNIX_EPOCH,
        1 => UNIX_EPOCH - Duration::from_millis(1 + rng.below(100_000)),
        2 => UNIX_EPOCH + Duration::from_nanos(rng.below(3_000_000)),
        3 => UNIX_EPOCH + Duration::new(253_402_300_799, 999_999_999),
        _ => UNIX_EPOCH + Duration::new(1_600_000_000 + rng.below(400_000_000), rng.below(1_000_000_000) as u32),
    }
}

/// An entry in the documented domain for `cfg`: unique names, declared dimensions written as
/// strings, per-metric dimensions only with split or ignored mode, configs in legal positions.
pub fn gen_valid_entry(rng: &mut Rng, cfg: &Cfg, hostile_text: bool, allow_big: bool) -> ProgramEntry {
    let mut used: HashSet<String> = HashSet::new();
    used.insert("_aws".into());
    used.insert(String::new());
    let fresh = |rng: &mut Rng, used: &mut HashSet<String>| -> String {
        for _ in 0..20 {
            let n = gen_text(rng, hostile_text);
            if used.insert(n.clone()) {
                return n;
            }
        }
        let n = format!("n{}", used.len());
        used.insert(n.clone());
        n
    };
    // entry-level dimension sets
    let entry_sets: Option<Vec<Vec<String>>> = if rng.below(4) == 0 {
        let pool: Vec<String> = (0..3).map(|i| format!("EDim{i}")).collect();
        Some(
            (0..1 + rng.below(2))
                .map(|_| {
                    let mut s: Vec<String> = vec![];
                    for _ in 0..rng.below(3) {
                        let d = rng.pick(&pool).clone();
                        if !s.contains(&d) {
                            s.push(d);
                        }
                    }
                    s
                })
                .collect(),
        )
    } else {
        None
    };
    let mut declared: Vec<String> = vec![];
    for s in cfg.default_dims.iter().chain(entry_sets.iter().flatten()) {
        for d in s {
            if !declared.contains(d) {
                declared.push(d.clone());
            }
        }
    }
    for d in &declared {
        used.insert(d.clone());
    }
    let use_dims = rng.below(3) == 0;
    // pool of per-metric dimension keys, disjoint from every other name
    // (half of the time from a fixed pool, so that the entries of one sequence share per-metric dimension sets)
    let shared_pool = rng.bool() && ["PDim0", "PDim1", "PDim2"].iter().all(|k| !used.contains(*k));
    let dim_keys: Vec<String> = if shared_pool {
        (0..3)
            .map(|i| {
                let k = format!("PDim{i}");
                used.insert(k.clone());
                k
            })
            .collect()
    } else {
        (0..3).map(|_| fresh(rng, &mut used)).collect()
    };
    let mut values: Vec<POp> = vec![];
    for d in &declared {
        values.push(POp::Value(d.clone(), PVal::Str(gen_string_value(rng, hostile_text, false))));
    }
    for _ in 0..rng.below(4) {
        let n = fresh(rng, &mut used);
        values.push(POp::Value(n, PVal::Str(gen_string_value(rng, hostile_text, allow_big))));
    }
    // 1-4 dimension sets of 1-3 keys; each key has a pool of 1-2 values, so that sets overlap, contain
    // each other and share (key, value) pairs
    let dim_values: Vec<Vec<String>> =
        dim_keys.iter().map(|_| (0..1 + rng.below(2)).map(|_| if shared_pool { format!("pv{}", rng.below(2)) } else { gen_text(rng, hostile_text) }).collect()).collect();
    let dim_sets_for_metrics: Vec<Vec<(String, String)>> = (0..1 + rng.below(4))
        .map(|_| {
            let mut ks: Vec<usize> = vec![];
            for _ in 0..1 + rng.below(3) {
                let k = rng.usize_below(dim_keys.len());
                if !ks.contains(&k) {
                    ks.push(k);
                }
            }
            ks.into_iter().map(|k| (dim_keys[k].clone(), rng.pick(&dim_values[k]).clone())).collect()
        })
        .collect();
    // a set whose single value SPELLS OUT another set ("v0,K1=v1", also with JSON-ish separators):
    // two different assignments that any unescaped joining of names and values would confuse
    let mut dim_sets_for_metrics = dim_sets_for_metrics;
    if rng.below(4) == 0 {
        let (a, b) = if rng.bool() { (0usize, 1usize) } else { (1, 0) };
        let (ka, kb) = (dim_keys[a].clone(), dim_keys[b].clone());
        let (va, vb) = (dim_values[a][0].clone(), dim_values[b][0].clone());
        let sep = *rng.pick(&[("=", ","), (":", ","), ("\":\"", "\",\""), ("=", ";"), ("\u{0}", "\u{1}")]);
        dim_sets_for_metrics.push(vec![(ka.clone(), va.clone()), (kb.clone(), vb.clone())]);
        dim_sets_for_metrics.push(vec![(ka.clone(), format!("{va}{}{kb}{}{vb}", sep.1, sep.0))]);
        dim_sets_for_metrics.push(vec![(kb.clone(), format!("{vb}{}{ka}{}{va}", sep.1, sep.0))]);
    }
    let mut any_dimmed = false;
    for _ in 0..rng.below(7) {
        let n = fresh(rng, &mut used);
        let dims = if use_dims && rng.bool() {
            any_dimmed = true;
            let mut d = rng.pick(&dim_sets_for_metrics).clone();
            if rng.bool() {
                d.reverse(); // same set, different order: must land in the same record
            }
            d
        } else {
            vec![]
        };
        values.push(POp::Value(
            n,
            PVal::Metric { obs: gen_obs_list(rng), unit: *rng.pick(UNITS), dims, flags: flag_ctor(rng.below(4) as u8) },
        ));
    }
    // now and then a WIDE entry: dozens to hundreds of distinct per-metric dimension sets (one split record each)
    if use_dims && !allow_big && rng.below(30) == 0 {
        let n_sets = 40 + rng.below(130);
        for j in 0..n_sets {
            let n = fresh(rng, &mut used);
            any_dimmed = true;
            let k = rng.pick(&dim_keys).clone();
            values.push(POp::Value(n, PVal::Metric { obs: gen_obs_list(rng), unit: *rng.pick(UNITS), dims: vec![(k, format!("w{j}"))], flags: flag_ctor(rng.below(4) as u8) }));
        }
    }
    if rng.below(8) == 0 {
        let n = fresh(rng, &mut used);
        values.push(POp::Value(n, PVal::Nothing));
    }
    rng.shuffle(&mut values);
    let first_dimmed = values
        .iter()
        .position(|v| matches!(v, POp::Value(_, PVal::Metric { dims, .. }) if !dims.is_empty()))
        .unwrap_or(values.len());
    let mut ops = values;
    let mut limit = first_dimmed;
    if any_dimmed && !cfg.ignored_dims || rng.below(6) == 0 {
        let at = rng.usize_below(limit + 1);
        ops.insert(at, POp::Config(Arc::new(AllowSplitEntries::new())));
        limit += 1;
    }
    if let Some(sets) = &entry_sets {
        let at = rng.usize_below(limit + 1);
        ops.insert(at, POp::Config(Arc::new(entry_dimensions(sets))));
    }
    if rng.below(4) != 0 {
        let at = rng.usize_below(ops.len() + 1);
        ops.insert(at, POp::Timestamp(gen_timestamp(rng)));
    }
    ProgramEntry::new(ops)
}

/// Anything goes: duplicate / reserved / empty names, errors, misplaced configs ...
pub fn gen_hostile_entry(rng: &mut Rng, cfg: &Cfg) -> ProgramEntry {
    let mut e = gen_valid_entry(rng, cfg, true, !cfg!(miri));
    for _ in 0..rng.below(4) {
        let which = rng.below(DEFECTS.len() as u64) as usize;
        inject_defect(rng, cfg, &mut e, which);
    }
    e
}

pub const DEFECTS: &[&str] = &[
    "dup-string-string",
    "dup-metric-metric",
    "dup-string-metric",
    "dup-metric-string",
    "second-timestamp",
    "empty-name",
    "reserved-name",
    "metric-under-dimension-name",
    "missing-dimension",
    "dims-without-split",
    "entry-dims-empty",
    "entry-dims-twice",
    "entry-dims-late",
    "value-error",
];

fn some_metric(rng: &mut Rng, dims: Vec<(String, String)>) -> PVal {
    let mut obs = gen_obs_list(rng);
    if obs.is_empty() {
        obs.push(Obs::U(1));
    }
    PVal::Metric { obs, unit: *rng.pick(UNITS), dims, flags: flag_ctor(rng.below(4) as u8) }
}

/// Inject one of the listed defects at a random position. Returns false if not applicable.
pub fn inject_defect(rng: &mut Rng, cfg: &Cfg, e: &mut ProgramEntry, which: usize) -> bool {
    let names_of = |e: &ProgramEntry, want_metric: Option<bool>| -> Vec<(usize, String, Vec<(String, String)>)> {
        e.ops
            .iter()
            .enumerate()
            .filter_map(|(i, o)| match o {
                POp::Value(n, PVal::Str(_)) if want_metric != Some(true) => Some((i, n.clone(), vec![])),
                POp::Value(n, PVal::Metric { dims, .. }) if want_metric != Some(false) => Some((i, n.clone(), dims.clone())),
                _ => None,
            })
            .collect()
    };
    let declared: Vec<String> = {
        let mut d: Vec<String> = vec![];
        for s in &cfg.default_dims {
            for x in s {
                if !d.contains(x) {
                    d.push(x.clone());
                }
            }
        }
        d
    };
    let pos = |rng: &mut Rng, e: &ProgramEntry| rng.usize_below(e.ops.len() + 1);
    match DEFECTS[which] {
        "dup-string-string" => {
            let c = names_of(e, Some(false));
            if c.is_empty() {
                return false;
            }
            let (_, n, _) = rng.pick(&c).clone();
            let at = pos(rng, e);
            e.ops.insert(at, POp::Value(n, PVal::Str(gen_text(rng, true))));
        }
        "dup-metric-metric" => {
            let c = names_of(e, Some(true));
            if c.is_empty() {
                return false;
            }
            let (i, n, mut dims) = rng.pick(&c).clone();
            // same name in the same dimension set (in half of the cases with the pairs listed in
            // another order: a set is a set); placed after the original so split config precedes it
            if dims.len() >= 2 && rng.bool() {
                dims.reverse();
                if dims.len() >= 3 && rng.bool() {
                    dims.swap(0, 1);
                }
            }
            let at = i + 1 + rng.usize_below(e.ops.len() - i);
            e.ops.insert(at, POp::Value(n, some_metric(rng, dims)));
        }
        "dup-string-metric" => {
            let c = names_of(e, Some(false));
            if c.is_empty() {
                return false;
            }
            let (_, n, _) = rng.pick(&c).clone();
            if declared.contains(&n) {
                return false; // that is the "metric-under-dimension-name" defect
            }
            let at = pos(rng, e);
            e.ops.insert(at, POp::Value(n, some_metric(rng, vec![])));
        }
        "dup-metric-string" => {
            let c = names_of(e, Some(true));
            if c.is_empty() {
                return false;
            }
            let (_, n, _) = rng.pick(&c).clone();
            let at = pos(rng, e);
            e.ops.insert(at, POp::Value(n, PVal::Str(gen_text(rng, true))));
        }
        "second-timestamp" => {
            if !e.ops.iter().any(|o| matches!(o, POp::Timestamp(_))) {
                let at = pos(rng, e);
                e.ops.insert(at, POp::Timestamp(gen_timestamp(rng)));
            }
            let at = pos(rng, e);
            e.ops.insert(at, POp::Timestamp(gen_timestamp(rng)));
        }
        "empty-name" => {
            let at = pos(rng, e);
            let v = if rng.bool() { PVal::Str("x".into()) } else { some_metric(rng, vec![]) };
            e.ops.insert(at, POp::Value(String::new(), v));
        }
        "reserved-name" => {
            let at = pos(rng, e);
            let v = if rng.bool() { PVal::Str("x".into()) } else { some_metric(rng, vec![]) };
            e.ops.insert(at, POp::Value("_aws".into(), v));
        }
        "metric-under-dimension-name" => {
            if declared.is_empty() {
                return false;
            }
            let d = rng.pick(&declared).clone();
            // replace the string that satisfies the dimension by a metric
            if let Some(i) = e.ops.iter().position(|o| matches!(o, POp::Value(n, PVal::Str(_)) if *n == d)) {
                e.ops[i] = POp::Value(d, some_metric(rng, vec![]));
            } else {
                return false;
            }
        }
        "missing-dimension" => {
            // default or entry-level declared dimension never written
            let mut all = declared.clone();
            for o in &e.ops {
                if let POp::Config(c) = o {
                    if let Some(ed) = (&**c as &dyn std::any::Any).downcast_ref::<EntryDimensions>() {
                        for s in ed.dim_sets() {
                            for d in s {
                                if !all.iter().any(|x| x == d) {
                                    all.push(d.to_string());
                                }
                            }
                        }
                    }
                }
            }
            if all.is_empty() {
                return false;
            }
            let d = rng.pick(&all).clone();
            let before = e.ops.len();
            e.ops.retain(|o| !matches!(o, POp::Value(n, _) if *n == d));
            if e.ops.len() == before {
                return false;
            }
        }
        "dims-without-split" => {
            if cfg.ignored_dims {
                return false; // not a defect in ignored-dimension mode
            }
            e.ops.retain(|o| !matches!(o, POp::Config(c) if (&**c as &dyn std::any::Any).is::<AllowSplitEntries>()));
            if !e.ops.iter().any(|o| matches!(o, POp::Value(_, PVal::Metric { dims, .. }) if !dims.is_empty())) {
                let at = pos(rng, e);
                e.ops.insert(at, POp::Value(format!("dimmed{}", e.ops.len()), some_metric(rng, vec![("pk".into(), "pv".into())])));
            }
        }
        "entry-dims-empty" => {
            e.ops.retain(|o| !matches!(o, POp::Config(c) if (&**c as &dyn std::any::Any).is::<EntryDimensions>()));
            e.ops.insert(0, POp::Config(Arc::new(entry_dimensions(&[]))));
        }
        "entry-dims-twice" => {
            let existing = e.ops.iter().position(|o| matches!(o, POp::Config(c) if (&**c as &dyn std::any::Any).is::<EntryDimensions>()));
            match existing {
                Some(i) => {
                    let c = e.ops[i].clone();
                    e.ops.insert(i, c);
                }
                None => {
                    // two configs naming only already-written dimensions (so only "twice" is wrong)
                    let sets = vec![cfg.default_dims.first().cloned().unwrap_or_default()];
                    e.ops.insert(0, POp::Config(Arc::new(entry_dimensions(&sets))));
                    e.ops.insert(0, POp::Config(Arc::new(entry_dimensions(&sets))));
                }
            }
        }
        "entry-dims-late" => {
            if cfg.ignored_dims {
                return false; // no split record exists, so nothing is "late"
            }
            e.ops.retain(|o| !matches!(o, POp::Config(c) if (&**c as &dyn std::any::Any).is::<EntryDimensions>()));
            if !e.ops.iter().any(|o| matches!(o, POp::Config(c) if (&**c as &dyn std::any::Any).is::<AllowSplitEntries>())) {
                e.ops.insert(0, POp::Config(Arc::new(AllowSplitEntries::new())));
            }
            e.ops.push(POp::Value(format!("late_dimmed{}", e.ops.len()), some_metric(rng, vec![("lk".into(), "lv".into())])));
            let sets = vec![cfg.default_dims.first().cloned().unwrap_or_default()];
            e.ops.push(POp::Config(Arc::new(entry_dimensions(&sets))));
        }
        "value-error" => {
            let at = pos(rng, e);
            e.ops.insert(at, POp::Value(format!("err{}", e.ops.len()), PVal::Error("scripted value error".into())));
        }
        _ => return false,
    }
    true
}

// ------------------------------------------------------------------------------------------
// reference: validity

#[derive(Clone, Debug, PartialEq, Eq)]
pub enum Validity {
    /// none of the listed defects, no value error: must be accepted
    Valid,
    /// has a defect that is rejected whatever the validation switches say
    InvalidAlways(String),
    /// has a defect that the (optional) validations must reject
    InvalidWhenValidating(String),
    /// outside the documented domain in a way the statement does not decide
    Unspecified(String),
}

/// Reference validity predicate, written from the list in the property statement and the
/// formatter documentation. Works on the recorded call log.
pub fn validity(log: &[Op], cfg: &Cfg) -> Validity {
    let unroutable = log.iter().any(|o| matches!(o, Op::Config { allow_unroutable: true, .. }));
    let mut always: Option<String> = None;
    let mut when_validating: Option<String> = None;
    let mut unspecified: Option<String> = None;
    let set = |slot: &mut Option<String>, s: &str| {
        if slot.is_none() {
            *slot = Some(s.to_string());
        }
    };
    let mut timestamps = 0;
    #[derive(PartialEq)]
    enum K {
        Str,
        Metric(Vec<Vec<(String, String)>>), // record keys in which it was written
        Declared,
    }
    let mut names: BTreeMap<String, K> = BTreeMap::new();
    for s in &cfg.default_dims {
        for d in s {
            names.insert(d.clone(), K::Declared);
        }
    }
    let mut allow_split = false;
    let mut entry_dims_seen = false;
    let mut any_split_record = false;
    for op in log {
        match op {
            Op::Timestamp(_) => {
                timestamps += 1;
                if timestamps > 1 {
                    set(&mut always, "more than one timestamp");
                }
            }
            Op::Config { entry_dims, allow_split: a, .. } => {
                if *a {
                    allow_split = true;
                }
                if let Some(sets) = entry_dims {
                    if any_split_record {
                        set(&mut always, "late entry-dimension configuration");
                        continue;
                    }
                    if entry_dims_seen {
                        set(&mut always, "repeated entry-dimension configuration");
                        continue;
                    }
                    if sets.is_empty() {
                        set(&mut always, "empty entry-dimension configuration");
                        continue;
                    }
                    entry_dims_seen = true;
                    for s in sets {
                        for d in s {
                            match names.get(d) {
                                None => {
                                    names.insert(d.clone(), K::Declared);
                                }
                                Some(K::Metric(_)) => set(&mut when_validating, "metric under a dimension name"),
                                Some(_) => {}
                            }
                        }
                    }
                }
            }
            Op::Value { name, val } => {
                if name.is_empty() {
                    set(&mut when_validating, "empty name");
                    continue;
                }
                if name == "_aws" {
                    set(&mut when_validating, "reserved name");
                    continue;
                }
                match val {
                    Val::Nothing => {}
                    Val::Error(_) => set(&mut always, "value reported an error"),
                    Val::String(_) => match names.get(name) {
                        None | Some(K::Declared) => {
                            names.insert(name.clone(), K::Str);
                        }
                        Some(_) => set(&mut when_validating, "two values under one name"),
                    },
                    Val::Metric { dims, .. } => {
                        let dimmed = !dims.is_empty() && !cfg.ignored_dims;
                        if dimmed && !allow_split {
                            set(&mut always, "per-metric dimensions without split mode");
                        }
                        let mut key: Vec<(String, String)> = if dimmed { dims.clone() } else { vec![] };
                        key.sort();
                        if dimmed {
                            any_split_record = true;
                            // a key repeated inside one dimension list, or colliding with another
                            // member name: not decided by the statement's list (known finding F4)
                            let mut ks: Vec<&String> = dims.iter().map(|d| &d.0).collect();
                            ks.sort();
                            if ks.windows(2).any(|w| w[0] == w[1]) {
                                set(&mut unspecified, "repeated key in a per-metric dimension list");
                            }
                        }
                        if unroutable {
                            continue;
                        }
                        match names.get_mut(name) {
                            None => {
                                names.insert(name.clone(), K::Metric(vec![key]));
                            }
                            Some(K::Declared) => set(&mut when_validating, "metric under a dimension name"),
                            Some(K::Str) => set(&mut when_validating, "two values under one name"),
                            Some(K::Metric(keys)) => {
                                if keys.contains(&key) {
                                    set(&mut when_validating, "two values under one name");
                                } else {
                                    keys.push(key);
                                    set(&mut unspecified, "same metric name in different dimension sets");
                                }
                            }
                        }
                    }
                }
            }
        }
    }
    if !unroutable && names.values().any(|k| *k == K::Declared) {
        set(&mut when_validating, "declared dimension never written");
    }
    // per-metric dimension keys colliding with other member names of the same record (F4 domain)
    for op in log {
        if let Op::Value { name, val: Val::Metric { dims, .. } } = op {
            if !dims.is_empty() && !cfg.ignored_dims {
                for (k, _) in dims {
                    if (names.contains_key(k) && k != name) || k == name || k == "_aws" || k.is_empty() {
                        set(&mut unspecified, "per-metric dimension key collides with another member name");
                    }
                }
            }
        }
    }
    if let Some(s) = always {
        Validity::InvalidAlways(s)
    } else if let Some(s) = when_validating {
        Validity::InvalidWhenValidating(s)
    } else if let Some(s) = unspecified {
        Validity::Unspecified(s)
    } else {
        Validity::Valid
    }
}

// ------------------------------------------------------------------------------------------
// reference: expected records

#[derive(Clone, Debug, PartialEq)]
pub enum NumTok {
    Int(String),
    Float(f64),
}

#[derive(Clone, Debug, PartialEq)]
pub enum Rendered {
    Scalar(NumTok),
    Hist { values: Vec<NumTok>, counts: Vec<String> },
}

#[derive(Clone, Debug, PartialEq)]
pub enum ExpMember {
    Str(String),
    Metric(Rendered),
}

#[derive(Clone, Debug, PartialEq)]
pub struct ExpDef {
    pub name: String,
    pub unit: Option<String>,
    pub high_res: bool,
}

#[derive(Clone, Debug)]
pub struct ExpRecord {
    pub key: Vec<(String, String)>,
    pub dimension_sets: Vec<Vec<String>>,
    pub defs: Vec<ExpDef>,
    pub members: Vec<(String, ExpMember)>,
}

fn clamp(v: f64) -> f64 {
    if v == f64::INFINITY {
        f64::MAX
    } else if v == f64::NEG_INFINITY {
        -f64::MAX
    } else {
        v
    }
}

/// how one metric must be rendered; None = appears nowhere
pub fn render(obs: &[Obs], multiplicity: Option<u64>) -> Option<Rendered> {
    if obs.is_empty() {
        return None;
    }
    if obs.len() == 1 && multiplicity.is_none() {
        match obs[0] {
            Obs::U(u) => return Some(Rendered::Scalar(NumTok::Int(u.to_string()))),
            Obs::F(b) => {
                let f = f64::from_bits(b);
                return if f.is_nan() { None } else { Some(Rendered::Scalar(NumTok::Float(clamp(f)))) };
            }
            _ => {}
        }
    }
    let m = multiplicity.unwrap_or(1);
    let (mut values, mut counts) = (vec![], vec![]);
    for o in obs {
        match *o {
            Obs::U(u) => {
                values.push(NumTok::Int(u.to_string()));
                counts.push(m.to_string());
            }
            Obs::F(b) => {
                let f = f64::from_bits(b);
                if !f.is_nan() {
                    values.push(NumTok::Float(clamp(f)));
                    counts.push(m.to_string());
                }
            }
            Obs::R { total, occ } => {
                let mean = if occ == 0 { 0.0 } else { f64::from_bits(total) / occ as f64 };
                if !mean.is_nan() {
                    values.push(NumTok::Float(clamp(mean)));
                    counts.push(occ.saturating_mul(m).to_string());
                }
            }
            Obs::Other => {}
        }
    }
    if values.is_empty() { None } else { Some(Rendered::Hist { values, counts }) }
}

pub fn expected_timestamp_millis(log: &[Op]) -> Option<u128> {
    log.iter().find_map(|o| match o {
        Op::Timestamp(t) => Some(t.duration_since(UNIX_EPOCH).map(|d| d.as_millis()).unwrap_or(0)),
        _ => None,
    })
}

/// The set of records a *valid* entry must produce (order of records is not specified).
pub fn expected_records(log: &[Op], cfg: &Cfg, multiplicity: Option<u64>) -> Vec<ExpRecord> {
    let entry_sets: Option<&Vec<Vec<String>>> = log.iter().find_map(|o| match o {
        Op::Config { entry_dims: Some(s), .. } => Some(s),
        _ => None,
    });
    let base_sets: Vec<Vec<String>> = match entry_sets {
        None => cfg.default_dims.clone(),
        Some(es) => {
            let mut v = vec![];
            for d in &cfg.default_dims {
                for e in es {
                    let mut s = d.clone();
                    s.extend(e.iter().cloned());
                    v.push(s);
                }
            }
            v
        }
    };
    let strings: Vec<(String, ExpMember)> = log
        .iter()
        .filter_map(|o| match o {
            Op::Value { name, val: Val::String(s) } => Some((name.clone(), ExpMember::Str(s.clone()))),
            _ => None,
        })
        .collect();
    // group metrics by record key, in order of first appearance
    let mut groups: Vec<(Vec<(String, String)>, Vec<(String, Rendered, ExpDef, bool)>)> = vec![(vec![], vec![])];
    for o in log {
        if let Op::Value { name, val: Val::Metric { obs, unit, dims, flags } } = o {
            let mut key: Vec<(String, String)> = if cfg.ignored_dims { vec![] } else { dims.clone() };
            key.sort();
            let gi = match groups.iter().position(|g| g.0 == key) {
                Some(i) => i,
                None => {
                    groups.push((key, vec![]));
                    groups.len() - 1
                }
            };
            if let Some(r) = render(obs, multiplicity) {
                let flags = flags.as_deref().unwrap_or("");
                let no_metric = flags.contains("NoMetric");
                let high = flags.contains("HighStorageResolution");
                let def = ExpDef { name: name.clone(), unit: if *unit == Unit::None { None } else { Some(unit.name().to_string()) }, high_res: high };
                groups[gi].1.push((name.clone(), r, def, no_metric));
            }
        }
    }
    let any_split = groups.iter().skip(1).any(|g| !g.1.is_empty());
    let mut out = vec![];
    for (gi, (key, metrics)) in groups.iter().enumerate() {
        if gi == 0 {
            if any_split && metrics.is_empty() {
                continue; // dimension-less record omitted
            }
        } else if metrics.is_empty() {
            continue;
        }
        let names: Vec<String> = key.iter().map(|(k, _)| k.clone()).collect();
        let dimension_sets = base_sets
            .iter()
            .map(|s| {
                let mut s = s.clone();
                s.extend(names.iter().cloned());
                s
            })
            .collect();
        let mut members: Vec<(String, ExpMember)> = vec![];
        for (k, v) in key {
            members.push((k.clone(), ExpMember::Str(v.clone())));
        }
        for (n, r, _, _) in metrics {
            members.push((n.clone(), ExpMember::Metric(r.clone())));
        }
        members.extend(strings.iter().cloned());
        out.push(ExpRecord {
            key: key.clone(),
            dimension_sets,
            defs: metrics.iter().filter(|m| !m.3).map(|m| m.2.clone()).collect(),
            members,
        });
    }
    out
}

// ------------------------------------------------------------------------------------------
// checks on parsed output

fn num_matches(js: &Js, exp: &NumTok) -> bool {
    let Some(tok) = js.num() else { return false };
    match exp {
        NumTok::Int(s) => tok == s,
        NumTok::Float(f) => tok.parse::<f64>().map(|p| p == *f).unwrap_or(false),
    }
}

/// C02: structural well-formedness of one record
pub fn check_wellformed(rec: &Js) -> Result<(), String> {
    let members = rec.members().ok_or("record is not an object")?;
    let aws = members.iter().find(|(k, _)| k == "_aws").map(|(_, v)| v).ok_or("no _aws member")?;
    if aws.members().is_none() {
        return Err("_aws is not an object".into());
    }
    let ts = aws.get("Timestamp").ok_or("no Timestamp")?;
    let tok = ts.num().ok_or("Timestamp is not a number")?;
    if !is_integer_token(tok) || tok.starts_with('-') {
        return Err(format!("Timestamp is not a non-negative integer token: {tok}"));
    }
    let cwm = aws.get("CloudWatchMetrics").and_then(|c| c.arr()).ok_or("CloudWatchMetrics is not an array")?;
    if cwm.is_empty() {
        return Err("CloudWatchMetrics is empty".into());
    }
    for d in cwm {
        d.members().ok_or("directive is not an object")?;
        d.get("Namespace").and_then(|n| n.str()).ok_or("directive without string Namespace")?;
        let dims = d.get("Dimensions").and_then(|x| x.arr()).ok_or("directive without Dimensions array")?;
        for s in dims {
            let s = s.arr().ok_or("dimension set is not an array")?;
            for n in s {
                n.str().ok_or("dimension name is not a string")?;
            }
        }
        let metrics = d.get("Metrics").and_then(|x| x.arr()).ok_or("directive without Metrics array")?;
        for m in metrics {
            m.members().ok_or("metric definition is not an object")?;
            m.get("Name").and_then(|n| n.str()).ok_or("metric definition without string Name")?;
        }
    }
    Ok(())
}

fn directive_matches(d: &Js, ns: &str, sets: &[Vec<String>], defs: &[ExpDef]) -> Result<(), String> {
    if d.get("Namespace").and_then(|n| n.str()) != Some(ns) {
        return Err(format!("namespace {:?} != {ns:?}", d.get("Namespace")));
    }
    let dims: Vec<Vec<String>> = d
        .get("Dimensions")
        .and_then(|x| x.arr())
        .ok_or("no Dimensions")?
        .iter()
        .map(|s| s.arr().unwrap_or(&[]).iter().map(|n| n.str().unwrap_or("<non-string>").to_string()).collect())
        .collect();
    if dims != sets {
        return Err(format!("Dimensions {dims:?} != expected {sets:?}"));
    }
    let metrics = d.get("Metrics").and_then(|x| x.arr()).ok_or("no Metrics")?;
    if metrics.len() != defs.len() {
        return Err(format!("{} metric definitions, expected {} ({:?})", metrics.len(), defs.len(), defs));
    }
    for (m, e) in metrics.iter().zip(defs) {
        let name = m.get("Name").and_then(|n| n.str());
        let unit = m.get("Unit").map(|u| u.str().unwrap_or("<non-string>").to_string());
        let sr = m.get("StorageResolution").and_then(|s| s.num()).map(|s| s.to_string());
        if name != Some(&e.name) || unit != e.unit || sr != if e.high_res { Some("1".into()) } else { None } {
            return Err(format!("metric definition {m:?} != expected {e:?}"));
        }
        let extra: Vec<&String> = m.members().unwrap().iter().map(|(k, _)| k).filter(|k| !["Name", "Unit", "StorageResolution"].contains(&k.as_str())).collect();
        if !extra.is_empty() {
            return Err(format!("unexpected members in metric definition: {extra:?}"));
        }
    }
    Ok(())
}

/// C03: does the parsed record carry exactly what `exp` says?
pub fn record_matches(rec: &Js, exp: &ExpRecord, cfg: &Cfg, ts_millis: Option<u128>, not_before_millis: u128) -> Result<(), String> {
    let members = rec.members().ok_or("not an object")?;
    let aws = rec.get("_aws").ok_or("no _aws")?;
    let ts = aws.get("Timestamp").and_then(|t| t.num()).ok_or("no Timestamp")?;
    match ts_millis {
        Some(t) => {
            if ts != t.to_string() {
                return Err(format!("Timestamp {ts} != expected {t}"));
            }
        }
        None => {
            let v: u128 = ts.parse().map_err(|_| "Timestamp not an integer")?;
            if v < not_before_millis {
                return Err(format!("generated Timestamp {v} is earlier than the start of the run {not_before_millis}"));
            }
        }
    }
    match (&cfg.log_group, aws.get("LogGroupName")) {
        (Some(a), Some(b)) if b.str() == Some(a) => {}
        (None, None) => {}
        (a, b) => return Err(format!("LogGroupName {b:?} != configured {a:?}")),
    }
    let cwm = aws.get("CloudWatchMetrics").and_then(|c| c.arr()).ok_or("no CloudWatchMetrics")?;
    if cwm.len() < cfg.namespaces.len() {
        return Err(format!("{} directives for {} namespaces", cwm.len(), cfg.namespaces.len()));
    }
    for (d, ns) in cwm.iter().zip(&cfg.namespaces) {
        directive_matches(d, ns, &exp.dimension_sets, &exp.defs).map_err(|e| format!("directive for namespace {ns:?}: {e}"))?;
    }
    let extra = &cwm[cfg.namespaces.len()..];
    let extras_ok = |extra: &[Js]| -> Result<(), String> {
        if extra.len() != cfg.directives.len() {
            return Err(format!("{} extra directives, configured {}", extra.len(), cfg.directives.len()));
        }
        for (d, spec) in extra.iter().zip(&cfg.directives) {
            if d.get("Namespace").and_then(|n| n.str()) != Some(&spec.namespace) {
                return Err("extra directive namespace differs".into());
            }
            let names: Vec<&str> = d.get("Metrics").and_then(|m| m.arr()).unwrap_or(&[]).iter().filter_map(|m| m.get("Name").and_then(|n| n.str())).collect();
            if names != spec.metrics.iter().map(|m| m.0.as_str()).collect::<Vec<_>>() {
                return Err("extra directive metrics differ".into());
            }
        }
        Ok(())
    };
    if exp.key.is_empty() {
        extras_ok(extra)?;
    } else if !extra.is_empty() {
        // split records: the documentation does not say whether extra directives are repeated
        extras_ok(extra)?;
    }
    // members: exactly the expected ones (besides _aws), each once
    let got: Vec<&(String, Js)> = members.iter().filter(|(k, _)| k != "_aws").collect();
    if got.len() != exp.members.len() {
        return Err(format!(
            "record has {} members besides _aws, expected {}: got {:?} expected {:?}",
            got.len(),
            exp.members.len(),
            got.iter().map(|m| &m.0).collect::<Vec<_>>(),
            exp.members.iter().map(|m| &m.0).collect::<Vec<_>>()
        ));
    }
    for (name, e) in &exp.members {
        let found: Vec<&&(String, Js)> = got.iter().filter(|(k, _)| k == name).collect();
        if found.len() != 1 {
            return Err(format!("member {name:?} occurs {} times", found.len()));
        }
        let v = &found[0].1;
        match e {
            ExpMember::Str(s) => {
                if v.str() != Some(s) {
                    return Err(format!("string member {name:?}: {:?} != {s:?}", v.str()));
                }
            }
            ExpMember::Metric(Rendered::Scalar(t)) => {
                if !num_matches(v, t) {
                    return Err(format!("metric {name:?}: {v:?} != scalar {t:?}"));
                }
            }
            ExpMember::Metric(Rendered::Hist { values, counts }) => {
                let vs = v.get("Values").and_then(|x| x.arr()).ok_or(format!("metric {name:?}: no Values array: {v:?}"))?;
                let cs = v.get("Counts").and_then(|x| x.arr()).ok_or(format!("metric {name:?}: no Counts array"))?;
                if vs.len() != values.len() || cs.len() != counts.len() || v.members().unwrap().len() != 2 {
                    return Err(format!("metric {name:?}: Values/Counts lengths {}/{} expected {}/{}", vs.len(), cs.len(), values.len(), counts.len()));
                }
                for (a, b) in vs.iter().zip(values) {
                    if !num_matches(a, b) {
                        return Err(format!("metric {name:?}: value {a:?} != {b:?}"));
                    }
                }
                for (a, b) in cs.iter().zip(counts) {
                    if a.num() != Some(b) {
                        return Err(format!("metric {name:?}: count {a:?} != {b}"));
                    }
                }
            }
        }
    }
    Ok(())
}

/// Match the parsed output lines against the expected record set (as a multiset).
pub fn records_match(lines: &[Js], exp: &[ExpRecord], cfg: &Cfg, ts_millis: Option<u128>, not_before: u128) -> Result<(), String> {
    if lines.len() != exp.len() {
        return Err(format!("{} records emitted, expected {} (keys {:?})", lines.len(), exp.len(), exp.iter().map(|e| &e.key).collect::<Vec<_>>()));
    }
    let mut used = vec![false; lines.len()];
    for e in exp {
        let mut last_err = String::new();
        let mut found = false;
        for (i, l) in lines.iter().enumerate() {
            if used[i] {
                continue;
            }
            match record_matches(l, e, cfg, ts_millis, not_before) {
                Ok(()) => {
                    used[i] = true;
                    found = true;
                    break;
                }
                Err(m) => {
                    // prefer the message of the line with the same dimension keys
                    let same_key = e.key.iter().all(|(k, v)| l.get(k).and_then(|x| x.str()) == Some(v));
                    if last_err.is_empty() || same_key {
                        last_err = m;
                    }
                }
            }
        }
        if !found {
            return Err(format!("no emitted record matches the expected record with key {:?}: {last_err}", e.key));
        }
    }
    Ok(())
}

/// Split output into lines and parse each strictly; cross-checked against serde_json.
/// Err(HarnessError) if the two parsers disagree on accept/reject.
pub enum ParseOutcome {
    Ok(Vec<Js>),
    Malformed(String),
    HarnessDisagreement(String),
}

pub fn parse_output(bytes: &[u8]) -> ParseOutcome {
    if bytes.is_empty() {
        return ParseOutcome::Malformed("no bytes written".into());
    }
    if *bytes.last().unwrap() != b'\n' {
        return ParseOutcome::Malformed("output does not end with a newline".into());
    }
    let mut out = vec![];
    for (i, line) in bytes[..bytes.len() - 1].split(|b| *b == b'\n').enumerate() {
        let mine = vcommon::strict_json::parse(line);
        let theirs: Result<vcommon::serde_json::Value, _> = vcommon::serde_json::from_slice(line);
        match (mine, theirs) {
            (Ok(v), Ok(_)) => {
                if v.members().is_none() {
                    return ParseOutcome::Malformed(format!("line {i} is not a JSON object"));
                }
                out.push(v)
            }
            (Err(e), Err(_)) => return ParseOutcome::Malformed(format!("line {i} is not valid JSON: {e}; line starts {:?}", String::from_utf8_lossy(&line[..line.len().min(300)]))),
            (Ok(_), Err(e)) => {
                // serde_json rejects numbers out of f64 range only when... it does not; treat as disagreement
                return ParseOutcome::HarnessDisagreement(format!("strict parser accepts, serde_json rejects line {i}: {e}"));
            }
            (Err(e), Ok(_)) => return ParseOutcome::HarnessDisagreement(format!("strict parser rejects ({e}), serde_json accepts line {i}")),
        }
    }
    ParseOutcome::Ok(out)
}

/// Format with a plain Vec writer; returns (result kind, bytes)
#[derive(Clone, Debug, PartialEq, Eq)]
pub enum FmtResult {
    Ok,
    Validation(String),
    Io(String),
}

pub fn format_to_vec(f: &mut impl Format, e: &ProgramEntry) -> (FmtResult, Vec<u8>) {
    let mut out = vec![];
    let r = f.format(e, &mut out);
    (
        match r {
            Ok(()) => FmtResult::Ok,
            Err(metrique_writer::IoStreamError::Validation(v)) => FmtResult::Validation(v.to_string()),
            Err(metrique_writer::IoStreamError::Io(i)) => FmtResult::Io(i.to_string()),
        },
        out,
    )
}

pub fn now_millis() -> u128 {
    SystemTime::now().duration_since(UNIX_EPOCH).unwrap().as_millis()
}

pub fn short(bytes: &[u8]) -> String {
    let s = String::from_utf8_lossy(bytes);
    if s.len() > 1200 { format!("{}…[{} bytes]", &s[..s.char_indices().nth(1200).map(|x| x.0).unwrap_or(s.len())], s.len()) } else { s.into_owned() }
}

pub fn is_skipped(o: Obs) -> bool {
    is_skipped_obs(o)
}
