//! A small strict RFC 8259 parser that keeps object members as an ordered list (so duplicate
//! members stay visible) and numbers as their source tokens (so 18446744073709551615 can be
//! compared as text). Independent of serde_json, and cross-checked against it by the harnesses.

#[derive(Clone, Debug, PartialEq)]
pub enum Js {
    Null,
    Bool(bool),
    Num(String),
    Str(String),
    Arr(Vec<Js>),
    Obj(Vec<(String, Js)>),
}

impl Js {
    pub fn get(&self, key: &str) -> Option<&Js> {
        match self {
            Js::Obj(m) => m.iter().find(|(k, _)| k == key).map(|(_, v)| v),
            _ => None,
        }
    }
    pub fn members(&self) -> Option<&[(String, Js)]> {
        match self {
            Js::Obj(m) => Some(m),
            _ => None,
        }
    }
    pub fn arr(&self) -> Option<&[Js]> {
        match self {
            Js::Arr(a) => Some(a),
            _ => None,
        }
    }
    pub fn str(&self) -> Option<&str> {
        match self {
            Js::Str(s) => Some(s),
            _ => None,
        }
    }
    pub fn num(&self) -> Option<&str> {
        match self {
            Js::Num(s) => Some(s),
            _ => None,
        }
    }
    /// names that occur more than once among this object's direct members
    pub fn duplicate_members(&self) -> Vec<String> {
        let mut out = vec![];
        if let Js::Obj(m) = self {
            for (i, (k, _)) in m.iter().enumerate() {
                if m[..i].iter().any(|(k2, _)| k2 == k) && !out.contains(k) {
                    out.push(k.clone());
                }
            }
        }
        out
    }
    /// duplicates at any depth: (path, name)
    pub fn duplicate_members_deep(&self, path: &str, out: &mut Vec<(String, String)>) {
        match self {
            Js::Obj(m) => {
                for d in self.duplicate_members() {
                    out.push((path.to_string(), d));
                }
                for (k, v) in m {
                    v.duplicate_members_deep(&format!("{path}/{k}"), out);
                }
            }
            Js::Arr(a) => {
                for (i, v) in a.iter().enumerate() {
                    v.duplicate_members_deep(&format!("{path}[{i}]"), out);
                }
            }
            _ => {}
        }
    }
}

pub fn is_integer_token(tok: &str) -> bool {
    let t = tok.strip_prefix('-').unwrap_or(tok);
    !t.is_empty() && t.bytes().all(|b| b.is_ascii_digit())
}

struct P<'a> {
    b: &'a [u8],
    i: usize,
    depth: usize,
}

pub fn parse(input: &[u8]) -> Result<Js, String> {
    if std::str::from_utf8(input).is_err() {
        return Err("not valid UTF-8".into());
    }
    let mut p = P { b: input, i: 0, depth: 0 };
    p.ws();
    let v = p.value()?;
    p.ws();
    if p.i != p.b.len() {
        return Err(format!("trailing characters at byte {}", p.i));
    }
    Ok(v)
}

impl P<'_> {
    fn ws(&mut self) {
        while self.i < self.b.len() && matches!(self.b[self.i], b' ' | b'\t' | b'\n' | b'\r') {
            self.i += 1;
        }
    }
    fn peek(&self) -> Option<u8> {
        self.b.get(self.i).copied()
    }
    fn err<T>(&self, what: &str) -> Result<T, String> {
        Err(format!("{what} at byte {}", self.i))
    }
    fn lit(&mut self, s: &[u8], v: Js) -> Result<Js, String> {
        if self.b[self.i..].starts_with(s) {
            self.i += s.len();
            Ok(v)
        } else {
            self.err("bad literal")
        }
    }
    fn value(&mut self) -> Result<Js, String> {
        self.depth += 1;
        if self.depth > 128 {
            return self.err("too deep");
        }
        let r = match self.peek() {
            None => self.err("unexpected end"),
            Some(b'{') => self.object(),
            Some(b'[') => self.array(),
            Some(b'"') => self.string().map(Js::Str),
            Some(b't') => self.lit(b"true", Js::Bool(true)),
            Some(b'f') => self.lit(b"false", Js::Bool(false)),
            Some(b'n') => self.lit(b"null", Js::Null),
            Some(b'-') | Some(b'0'..=b'9') => self.number(),
            Some(_) => self.err("unexpected character"),
        };
        self.depth -= 1;
        r
    }
    fn object(&mut self) -> Result<Js, String> {
        self.i += 1;
        let mut m = vec![];
        self.ws();
        if self.peek() == Some(b'}') {
            self.i += 1;
            return Ok(Js::Obj(m));
        }
        loop {
            self.ws();
            if self.peek() != Some(b'"') {
                return self.err("expected member name");
            }
            let k = self.string()?;
            self.ws();
            if self.peek() != Some(b':') {
                return self.err("expected ':'");
            }
            self.i += 1;
            self.ws();
            let v = self.value()?;
            m.push((k, v));
            self.ws();
            match self.peek() {
                Some(b',') => self.i += 1,
                Some(b'}') => {
                    self.i += 1;
                    return Ok(Js::Obj(m));
                }
                _ => return self.err("expected ',' or '}'"),
            }
        }
    }
    fn array(&mut self) -> Result<Js, String> {
        self.i += 1;
        let mut a = vec![];
        self.ws();
        if self.peek() == Some(b']') {
            self.i += 1;
            return Ok(Js::Arr(a));
        }
        loop {
            self.ws();
            a.push(self.value()?);
            self.ws();
            match self.peek() {
                Some(b',') => self.i += 1,
                Some(b']') => {
                    self.i += 1;
                    return Ok(Js::Arr(a));
                }
                _ => return self.err("expected ',' or ']'"),
            }
        }
    }
    fn hex4(&mut self) -> Result<u32, String> {
        if self.i + 4 > self.b.len() {
            return self.err("short \\u escape");
        }
        let mut v = 0u32;
        for k in 0..4 {
            let c = self.b[self.i + k];
            let d = match c {
                b'0'..=b'9' => c - b'0',
                b'a'..=b'f' => c - b'a' + 10,
                b'A'..=b'F' => c - b'A' + 10,
                _ => return self.err("bad hex digit"),
            };
            v = v * 16 + d as u32;
        }
        self.i += 4;
        Ok(v)
    }
    fn string(&mut self) -> Result<String, String> {
        self.i += 1; // opening quote
        let mut out: Vec<u8> = vec![];
        loop {
            let Some(c) = self.peek() else {
                return self.err("unterminated string");
            };
            match c {
                b'"' => {
                    self.i += 1;
                    return String::from_utf8(out).map_err(|_| "bad utf8 in string".to_string());
                }
                0..=0x1f => return self.err("raw control character in string"),
                b'\\' => {
                    self.i += 1;
                    let Some(e) = self.peek() else {
                        return self.err("unterminated escape");
                    };
                    self.i += 1;
                    match e {
                        b'"' => out.push(b'"'),
                        b'\\' => out.push(b'\\'),
                        b'/' => out.push(b'/'),
                        b'b' => out.push(8),
                        b'f' => out.push(12),
                        b'n' => out.push(b'\n'),
                        b'r' => out.push(b'\r'),
                        b't' => out.push(b'\t'),
                        b'u' => {
                            let hi = self.hex4()?;
                            let cp = if (0xD800..0xDC00).contains(&hi) {
                                if self.b[self.i..].starts_with(b"\\u") {
                                    self.i += 2;
                                    let lo = self.hex4()?;
                                    if !(0xDC00..0xE000).contains(&lo) {
                                        return self.err("bad low surrogate");
                                    }
                                    0x10000 + ((hi - 0xD800) << 10) + (lo - 0xDC00)
                                } else {
                                    return self.err("lone high surrogate");
                                }
                            } else if (0xDC00..0xE000).contains(&hi) {
                                return self.err("lone low surrogate");
                            } else {
                                hi
                            };
                            let ch = char::from_u32(cp).ok_or("bad code point")?;
                            let mut buf = [0u8; 4];
                            out.extend_from_slice(ch.encode_utf8(&mut buf).as_bytes());
                        }
                        _ => return self.err("bad escape"),
                    }
                }
                _ => {
                    out.push(c);
                    self.i += 1;
                }
            }
        }
    }
    fn number(&mut self) -> Result<Js, String> {
        let start = self.i;
        if self.peek() == Some(b'-') {
            self.i += 1;
        }
        match self.peek() {
            Some(b'0') => self.i += 1,
            Some(b'1'..=b'9') => {
                while matches!(self.peek(), Some(b'0'..=b'9')) {
                    self.i += 1;
                }
            }
            _ => return self.err("bad number"),
        }
        if self.peek() == Some(b'.') {
            self.i += 1;
            if !matches!(self.peek(), Some(b'0'..=b'9')) {
                return self.err("bad fraction");
            }
            while matches!(self.peek(), Some(b'0'..=b'9')) {
                self.i += 1;
            }
        }
        if matches!(self.peek(), Some(b'e' | b'E')) {
            self.i += 1;
            if matches!(self.peek(), Some(b'+' | b'-')) {
                self.i += 1;
            }
            if !matches!(self.peek(), Some(b'0'..=b'9')) {
                return self.err("bad exponent");
            }
            while matches!(self.peek(), Some(b'0'..=b'9')) {
                self.i += 1;
            }
        }
        Ok(Js::Num(String::from_utf8(self.b[start..self.i].to_vec()).unwrap()))
    }
}

#[cfg(test)]
mod tests {
    use super::*;
    #[test]
    fn basics() {
        assert!(parse(r#"{"a":1,"a":[1,2,{"b":"x\né😀"}]}"#.as_bytes()).is_ok());
        assert!(parse(br#"{"a":[1,]}"#).is_err());
        assert!(parse(br#"{"a":01}"#).is_err());
        assert!(parse(b"{\"a\":\"\x01\"}").is_err());
        assert!(parse(br#"{"a":1} x"#).is_err());
        assert!(parse(br#"{"a":NaN}"#).is_err());
        assert!(parse(br#"{"a":1e400}"#).is_ok());
        let v = parse(br#"{"a":1,"b":2,"a":3}"#).unwrap();
        assert_eq!(v.duplicate_members(), vec!["a".to_string()]);
    }
}
