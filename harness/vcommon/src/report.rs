//! Command-line arguments, verdict bookkeeping and evidence fragments.
//!
//! Every check binary ("leg") writes one JSON fragment; the `/verif/check` driver merges the
//! fragments of all legs of a property into `/verif/evidence/<id>.json`.
//!
//! Verdicts are three-valued: exit 0 = held on what was observed, exit 1 = violation (a line
//! `VIOLATION property=<id> replay=<path>` is printed for each), exit 2 = inconclusive.

use serde_json::{Value, json};
use std::collections::{BTreeMap, HashSet};
use std::path::PathBuf;
use std::sync::Mutex;
use std::sync::atomic::{AtomicU64, Ordering};
use std::time::Instant;

#[derive(Clone, Copy, PartialEq, Eq, Debug)]
pub enum Tier {
    Quick,
    Thorough,
}

#[derive(Clone, Debug)]
pub struct Args {
    pub tier: Tier,
    pub seed: u64,
    pub out: Option<PathBuf>,
    pub replay: Option<PathBuf>,
    pub leg: String,
    pub kv: BTreeMap<String, String>,
}

impl Args {
    /// `--tier quick|thorough --seed N --out FILE --replay FILE --leg NAME key=value ...`
    pub fn parse() -> Args {
        let mut a = Args {
            tier: Tier::Quick,
            seed: 1,
            out: None,
            replay: None,
            leg: "native".into(),
            kv: BTreeMap::new(),
        };
        let mut it = std::env::args().skip(1);
        while let Some(x) = it.next() {
            match x.as_str() {
                "--tier" => {
                    a.tier = match it.next().as_deref() {
                        Some("thorough") => Tier::Thorough,
                        _ => Tier::Quick,
                    }
                }
                "--seed" => a.seed = it.next().and_then(|s| s.parse().ok()).unwrap_or(1),
                "--out" => a.out = it.next().map(PathBuf::from),
                "--replay" => a.replay = it.next().map(PathBuf::from),
                "--leg" => a.leg = it.next().unwrap_or_default(),
                other => {
                    if let Some((k, v)) = other.split_once('=') {
                        a.kv.insert(k.to_string(), v.to_string());
                    }
                }
            }
        }
        a
    }

    pub fn get_u64(&self, key: &str, default: u64) -> u64 {
        self.kv.get(key).and_then(|v| v.parse().ok()).unwrap_or(default)
    }

    pub fn thorough(&self) -> bool {
        self.tier == Tier::Thorough
    }

    /// pick by tier
    pub fn by_tier<T>(&self, quick: T, thorough: T) -> T {
        if self.thorough() { thorough } else { quick }
    }
}

pub fn verif_dir() -> PathBuf {
    std::env::var_os("VERIF_DIR").map(PathBuf::from).unwrap_or_else(|| PathBuf::from("/verif"))
}

pub struct Report {
    pub prop: String,
    pub args: Args,
    start: Instant,
    evaluations: AtomicU64,
    distinct: Mutex<HashSet<u64>>,
    rule: Mutex<String>,
    samples: Mutex<Vec<Value>>,
    counters: Mutex<BTreeMap<String, u64>>,
    violations: AtomicU64,
    violation_kinds: Mutex<BTreeMap<String, u64>>,
    known_seen: Mutex<BTreeMap<String, (u64, String)>>,
    inconclusive: Mutex<Vec<String>>,
    assumptions: Mutex<Vec<String>>,
    known_listed: Vec<(String, String)>, // (id, status) for this property
}

const MAX_SAMPLES: usize = 6;
const MAX_REPLAY_FILES: u64 = 10;

impl Report {
    pub fn new(prop: &str, args: &Args) -> Report {
        let mut known_listed = vec![];
        if let Ok(s) = std::fs::read_to_string(verif_dir().join("known_findings.json")) {
            if let Ok(v) = serde_json::from_str::<Value>(&s) {
                for e in v["findings"].as_array().cloned().unwrap_or_default() {
                    if e["property"] == prop {
                        known_listed.push((
                            e["id"].as_str().unwrap_or("").to_string(),
                            e["status"].as_str().unwrap_or("").to_string(),
                        ));
                    }
                }
            }
        }
        Report {
            prop: prop.to_string(),
            args: args.clone(),
            start: Instant::now(),
            evaluations: AtomicU64::new(0),
            distinct: Mutex::new(HashSet::new()),
            rule: Mutex::new(String::new()),
            samples: Mutex::new(vec![]),
            counters: Mutex::new(BTreeMap::new()),
            violations: AtomicU64::new(0),
            violation_kinds: Mutex::new(BTreeMap::new()),
            known_seen: Mutex::new(BTreeMap::new()),
            inconclusive: Mutex::new(vec![]),
            assumptions: Mutex::new(vec![]),
            known_listed,
        }
    }

    pub fn rule(&self, rule: &str) {
        let mut r = self.rule.lock().unwrap();
        if !r.is_empty() {
            r.push_str(" | ");
        }
        r.push_str(rule);
    }

    pub fn assume(&self, a: &str) {
        self.assumptions.lock().unwrap().push(a.to_string());
    }

    pub fn eval(&self) {
        self.evaluations.fetch_add(1, Ordering::Relaxed);
    }

    pub fn eval_n(&self, n: u64) {
        self.evaluations.fetch_add(n, Ordering::Relaxed);
    }

    pub fn evaluations(&self) -> u64 {
        self.evaluations.load(Ordering::Relaxed)
    }

    /// register the fingerprint of a non-trivial case
    pub fn distinct(&self, fingerprint: u64) {
        self.distinct.lock().unwrap().insert(fingerprint);
    }

    pub fn distinct_many(&self, fps: impl IntoIterator<Item = u64>) {
        self.distinct.lock().unwrap().extend(fps);
    }

    pub fn distinct_count(&self) -> usize {
        self.distinct.lock().unwrap().len()
    }

    /// keep up to MAX_SAMPLES written-out cases
    pub fn sample(&self, v: impl FnOnce() -> Value) {
        let mut s = self.samples.lock().unwrap();
        if s.len() < MAX_SAMPLES {
            s.push(v());
        }
    }

    pub fn want_sample(&self) -> bool {
        self.samples.lock().unwrap().len() < MAX_SAMPLES
    }

    pub fn count(&self, key: &str, n: u64) {
        *self.counters.lock().unwrap().entry(key.to_string()).or_insert(0) += n;
    }

    pub fn set(&self, key: &str, n: u64) {
        self.counters.lock().unwrap().insert(key.to_string(), n);
    }

    pub fn max(&self, key: &str, n: u64) {
        let mut c = self.counters.lock().unwrap();
        let e = c.entry(key.to_string()).or_insert(0);
        if n > *e {
            *e = n;
        }
    }

    pub fn counter(&self, key: &str) -> u64 {
        self.counters.lock().unwrap().get(key).copied().unwrap_or(0)
    }

    pub fn violation_count(&self) -> u64 {
        self.violations.load(Ordering::Relaxed)
    }

    /// A violation with a witness. Writes a replay file and prints the VIOLATION line.
    pub fn violation(&self, kind: &str, detail: Value) {
        let n = self.violations.fetch_add(1, Ordering::Relaxed);
        *self.violation_kinds.lock().unwrap().entry(kind.to_string()).or_insert(0) += 1;
        if n >= MAX_REPLAY_FILES {
            return; // counted, but do not flood the disk / stdout
        }
        let dir = verif_dir().join("replay");
        let _ = std::fs::create_dir_all(&dir);
        let path = dir.join(format!(
            "{}-{}-seed{}-{}.json",
            self.prop, self.args.leg, self.args.seed, n
        ));
        let body = json!({
            "property": self.prop,
            "leg": self.args.leg,
            "tier": if self.args.thorough() { "thorough" } else { "quick" },
            "seed": self.args.seed,
            "kind": kind,
            "detail": detail,
        });
        let _ = std::fs::write(&path, serde_json::to_string_pretty(&body).unwrap());
        println!("VIOLATION property={} replay={}", self.prop, path.display());
        println!("  kind: {kind}");
        let d = body["detail"].to_string();
        println!("  detail: {}", if d.len() > 1500 { &d[..1500] } else { &d });
    }

    /// A violation that matches the signature of a listed known finding. If the id is not listed
    /// with status "known" in known_findings.json this is reported as a plain violation.
    pub fn known_finding(&self, id: &str, what: &str, detail: Value) {
        if self.known_listed.iter().any(|(i, s)| i == id && s == "known") {
            let mut k = self.known_seen.lock().unwrap();
            let e = k.entry(id.to_string()).or_insert((0, what.to_string()));
            e.0 += 1;
        } else {
            self.violation(&format!("unlisted-finding:{id}"), json!({"what": what, "detail": detail}));
        }
    }

    pub fn inconclusive(&self, why: &str) {
        println!("INCONCLUSIVE property={} leg={} {}", self.prop, self.args.leg, why);
        self.inconclusive.lock().unwrap().push(why.to_string());
    }

    pub fn elapsed_s(&self) -> f64 {
        self.start.elapsed().as_secs_f64()
    }

    pub fn fragment(&self) -> Value {
        let known: Vec<Value> = self
            .known_seen
            .lock()
            .unwrap()
            .iter()
            .map(|(id, (n, what))| json!({"id": id, "times": n, "what": what}))
            .collect();
        json!({
            "property_id": self.prop,
            "leg": self.args.leg,
            "tier": if self.args.thorough() { "thorough" } else { "quick" },
            "seed": self.args.seed,
            "evaluations": self.evaluations(),
            "distinct_nontrivial": self.distinct_count(),
            "rule": *self.rule.lock().unwrap(),
            "samples": *self.samples.lock().unwrap(),
            "counters": *self.counters.lock().unwrap(),
            "violations": self.violation_count(),
            "violation_kinds": *self.violation_kinds.lock().unwrap(),
            "known_findings": known,
            "inconclusive": *self.inconclusive.lock().unwrap(),
            "assumptions": *self.assumptions.lock().unwrap(),
            "wall_s": self.elapsed_s(),
        })
    }

    /// Write the fragment, print the summary and the KNOWN-FINDING lines; returns the exit code.
    pub fn finish(&self) -> i32 {
        // a run that observed nothing is inconclusive, never "held"
        if self.evaluations() == 0 || self.distinct_count() < 2 {
            if self.violation_count() == 0 {
                self.inconclusive(&format!(
                    "observed too little: evaluations={} distinct={}",
                    self.evaluations(),
                    self.distinct_count()
                ));
            }
        }
        let frag = self.fragment();
        if let Some(out) = &self.args.out {
            if let Some(p) = out.parent() {
                let _ = std::fs::create_dir_all(p);
            }
            let _ = std::fs::write(out, serde_json::to_string_pretty(&frag).unwrap());
        }
        for (id, (n, what)) in self.known_seen.lock().unwrap().iter() {
            println!("KNOWN-FINDING: property={} {} [{} x{}]", self.prop, what, id, n);
        }
        println!(
            "[{} {}] evaluations={} distinct={} violations={} wall={:.1}s counters={}",
            self.prop,
            self.args.leg,
            self.evaluations(),
            self.distinct_count(),
            self.violation_count(),
            self.elapsed_s(),
            serde_json::to_string(&*self.counters.lock().unwrap()).unwrap()
        );
        if self.violation_count() > 0 {
            1
        } else if !self.inconclusive.lock().unwrap().is_empty() {
            2
        } else {
            0
        }
    }

    pub fn finish_and_exit(&self) -> ! {
        let code = self.finish();
        std::process::exit(code)
    }
}
