//! Tickets (one global logical clock), progress-based waiting, a hand-written block_on,
//! and the perturbation function installed into the repo's hook slot.

use crate::rng::Rng;
use std::cell::RefCell;
use std::future::Future;
use std::pin::Pin;
use std::sync::atomic::{AtomicBool, AtomicU64, Ordering};
use std::sync::{Arc, Mutex};
use std::task::{Context, Poll, Wake, Waker};
use std::time::{Duration, Instant};

static TICKET: AtomicU64 = AtomicU64::new(0);

/// next value of the one global logical clock (1, 2, 3, ...)
#[inline]
pub fn ticket() -> u64 {
    TICKET.fetch_add(1, Ordering::SeqCst) + 1
}

#[inline]
pub fn ticket_now() -> u64 {
    TICKET.load(Ordering::SeqCst)
}

/// Progress counter watched by the progress watchdog. Only *meaningful* events bump it (an entry
/// handed to a stream, an append/operation returning, a future completing): periodic wake-ups of
/// an idle writer thread and its periodic flushes deliberately do not count, otherwise a stuck
/// obligation on an idle queue would never be noticed.
static PROGRESS: AtomicU64 = AtomicU64::new(0);

#[inline]
pub fn progress_tick() {
    PROGRESS.fetch_add(1, Ordering::SeqCst);
}

#[inline]
pub fn progress_now() -> u64 {
    PROGRESS.load(Ordering::SeqCst)
}

pub fn is_miri() -> bool {
    cfg!(miri)
}

pub fn pause() {
    // (under Miri a sleep blocks the thread on the real clock instead of burning interpreter steps)
    std::thread::sleep(Duration::from_micros(if is_miri() { 500 } else { 100 }));
}

/// Wait until `cond()`; gives up (returns false) only if the global progress counter has not moved
/// for `stall` while waiting ("progress watchdog"): a merely slow machine keeps the counter moving.
/// A reusable barrier that releases its waiters as simultaneously as the machine allows: waiters
/// spin (and yield after a while, or always under Miri) instead of sleeping on a condvar, so the
/// operations that follow start within nanoseconds of each other. Same interface as `std::sync::Barrier`.
pub struct SpinGate {
    n: usize,
    count: std::sync::atomic::AtomicUsize,
    generation: std::sync::atomic::AtomicUsize,
}

impl SpinGate {
    pub fn new(n: usize) -> Self {
        SpinGate { n, count: Default::default(), generation: Default::default() }
    }
    pub fn wait(&self) {
        let g = self.generation.load(Ordering::SeqCst);
        if self.count.fetch_add(1, Ordering::SeqCst) + 1 == self.n {
            self.count.store(0, Ordering::SeqCst);
            self.generation.fetch_add(1, Ordering::SeqCst);
            return;
        }
        let mut spins = 0u32;
        while self.generation.load(Ordering::SeqCst) == g {
            spins += 1;
            if spins > 2000 || is_miri() {
                std::thread::yield_now();
            } else {
                std::hint::spin_loop();
            }
        }
    }
}

pub fn progress_wait(mut cond: impl FnMut() -> bool, stall: Duration) -> bool {
    let mut last = progress_now();
    let mut last_change = Instant::now();
    let mut spins = 0u32;
    loop {
        if cond() {
            return true;
        }
        let now = progress_now();
        if now != last {
            last = now;
            last_change = Instant::now();
        } else if last_change.elapsed() > stall {
            return cond();
        }
        spins += 1;
        if spins < 50 {
            std::thread::yield_now();
        } else {
            pause();
        }
    }
}

pub fn default_stall() -> Duration {
    // (under the interpreter: 10 minutes. One thorough run on a machine loaded far beyond its cores -
    // four seeded sweeps, two quick series and 8 x 16 interpreter threads at once - had an append
    // that did not return within 120 s of wall clock and returned fine when re-run; a stall verdict
    // must not be a statement about the machine's load. DESIGN.md section 12.)
    Duration::from_secs(if is_miri() { 600 } else { 20 })
}

struct ThreadWaker(std::thread::Thread, AtomicBool);
impl Wake for ThreadWaker {
    fn wake(self: Arc<Self>) {
        self.1.store(true, Ordering::SeqCst);
        self.0.unpark();
    }
}

/// Minimal executor: polls on the current thread, parks between polls.
pub fn block_on<F: Future>(fut: F) -> F::Output {
    let mut fut = std::pin::pin!(fut);
    let tw = Arc::new(ThreadWaker(std::thread::current(), AtomicBool::new(false)));
    let waker = Waker::from(tw.clone());
    let mut cx = Context::from_waker(&waker);
    loop {
        if let Poll::Ready(v) = fut.as_mut().poll(&mut cx) {
            return v;
        }
        while !tw.1.swap(false, Ordering::SeqCst) {
            std::thread::park_timeout(Duration::from_millis(50));
        }
    }
}

struct NoopWaker;
impl Wake for NoopWaker {
    fn wake(self: Arc<Self>) {}
}

/// Poll a pinned future once with a no-op waker
pub fn poll_once<F: Future + ?Sized>(fut: Pin<&mut F>) -> Poll<F::Output> {
    let waker = Waker::from(Arc::new(NoopWaker));
    let mut cx = Context::from_waker(&waker);
    fut.poll(&mut cx)
}

// ------------------------------------------------------------------------------------------
// Perturbation

const MAX_POINTS: usize = 32;
static POINT_NAMES: Mutex<Vec<&'static str>> = Mutex::new(Vec::new());
static POINT_HITS: [AtomicU64; MAX_POINTS] = [const { AtomicU64::new(0) }; MAX_POINTS];
static POINT_LAST: [AtomicU64; MAX_POINTS] = [const { AtomicU64::new(0) }; MAX_POINTS];
static PERTURB_SEED: AtomicU64 = AtomicU64::new(0);
/// 0 = record only; otherwise roughly "per-mille of hits that get perturbed"
static PERTURB_INTENSITY: AtomicU64 = AtomicU64::new(0);
static THREAD_COUNTER: AtomicU64 = AtomicU64::new(0);
static TRACE_ON: AtomicBool = AtomicBool::new(false);
static TRACE_HASH: AtomicU64 = AtomicU64::new(0xcbf2_9ce4_8422_2325);

thread_local! {
    static TL_RNG: RefCell<Option<(u64, Rng, u64)>> = const { RefCell::new(None) };
    static TL_NAMES: RefCell<Vec<(&'static str, usize)>> = const { RefCell::new(Vec::new()) };
}

fn point_index(id: &'static str) -> usize {
    TL_NAMES.try_with(|n| {
        let mut n = n.borrow_mut();
        if let Some((_, i)) = n.iter().find(|(s, _)| std::ptr::eq(*s, id) || *s == id) {
            return *i;
        }
        let mut g = POINT_NAMES.lock().unwrap();
        let i = match g.iter().position(|s| *s == id) {
            Some(i) => i,
            None => {
                g.push(id);
                g.len() - 1
            }
        };
        let i = i.min(MAX_POINTS - 1);
        n.push((id, i));
        i
    })
    .unwrap_or(MAX_POINTS - 1)
}

fn hook(id: &'static str) {
    let idx = point_index(id);
    POINT_HITS[idx].fetch_add(1, Ordering::Relaxed);
    // remember when each point was last reached (hook points do NOT count as watchdog progress)
    POINT_LAST[idx].store(ticket(), Ordering::SeqCst);
    let intensity = PERTURB_INTENSITY.load(Ordering::Relaxed);
    let seed = PERTURB_SEED.load(Ordering::Relaxed);
    let Ok((thread_idx, action)) = TL_RNG.try_with(|r| {
        let mut r = r.borrow_mut();
        if r.as_ref().map(|x| x.0) != Some(seed) {
            let t = THREAD_COUNTER.fetch_add(1, Ordering::Relaxed);
            *r = Some((seed, Rng::derive(seed, 0x5eed_0000 + t), t));
        }
        let (_, rng, t) = r.as_mut().unwrap();
        let a = if intensity == 0 { 1000 } else { rng.below(1000 * 1000 / intensity.max(1)) };
        (*t, (a, rng.below(4000)))
    }) else {
        return; // thread is being torn down
    };
    if TRACE_ON.load(Ordering::Relaxed) {
        let v = (idx as u64) * 64 + (thread_idx % 64);
        let _ = TRACE_HASH.fetch_update(Ordering::SeqCst, Ordering::SeqCst, |h| {
            Some((h ^ v).wrapping_mul(0x0000_0100_0000_01B3))
        });
    }
    if intensity == 0 {
        return;
    }
    let (a, amount) = action;
    if is_miri() {
        if a < 1000 {
            std::thread::yield_now();
        }
        return;
    }
    match a {
        0..400 => std::thread::yield_now(),
        400..800 => {
            for _ in 0..(amount + 20) {
                std::hint::spin_loop();
            }
        }
        800..1000 => std::thread::sleep(Duration::from_micros(20 + amount / 10)),
        _ => {}
    }
}

/// Install the perturbation function into the repo's hook slot (needs `--cfg metrique_verif`).
pub fn install_perturbation(seed: u64, intensity_per_mille: u64) {
    PERTURB_SEED.store(seed, Ordering::Relaxed);
    PERTURB_INTENSITY.store(intensity_per_mille, Ordering::Relaxed);
    #[cfg(metrique_verif)]
    metrique_writer_core::verif_hooks::install(hook);
    #[cfg(not(metrique_verif))]
    {
        let _ = hook;
    }
}

pub fn hooks_compiled_in() -> bool {
    cfg!(metrique_verif)
}

pub fn set_perturbation(seed: u64, intensity_per_mille: u64) {
    PERTURB_SEED.store(seed, Ordering::Relaxed);
    PERTURB_INTENSITY.store(intensity_per_mille, Ordering::Relaxed);
}

pub fn trace_enable(on: bool) {
    TRACE_ON.store(on, Ordering::SeqCst);
}

/// returns the rolling hash of (point, thread) events since the last call, and resets it
pub fn trace_take() -> u64 {
    TRACE_HASH.swap(0xcbf2_9ce4_8422_2325, Ordering::SeqCst)
}

/// ticket at which the named hook point was last reached (0 = never)
pub fn hook_last_ticket(name: &str) -> u64 {
    let g = POINT_NAMES.lock().unwrap();
    match g.iter().position(|s| *s == name) {
        Some(i) => POINT_LAST[i.min(MAX_POINTS - 1)].load(Ordering::SeqCst),
        None => 0,
    }
}

/// (point name, hits) for every hook point reached so far
pub fn hook_hits() -> Vec<(String, u64)> {
    let g = POINT_NAMES.lock().unwrap();
    g.iter()
        .enumerate()
        .map(|(i, n)| (n.to_string(), POINT_HITS[i.min(MAX_POINTS - 1)].load(Ordering::Relaxed)))
        .collect()
}
