//! `RecordingWriter`: an `EntryWriter` that keeps the *ordered call log* (duplicates and order
//! preserved, unlike `test_util::TestEntry` which is a map), and `ProgramEntry`: an `Entry` whose
//! `write` replays an arbitrary generated list of writer calls.

use metrique_writer_core::entry::SampleGroupElement;
use metrique_writer_core::value::MetricFlags;
use metrique_writer_core::{
    Entry, EntryConfig, EntryWriter, Observation, Unit, ValidationError, Value, ValueWriter,
};
use serde_json::{Value as J, json};
use std::any::{Any, TypeId};
use std::borrow::Cow;
use std::sync::Arc;
use std::time::{SystemTime, UNIX_EPOCH};

/// Observation with bitwise float identity (so NaN == NaN and -0 != +0)
#[derive(Clone, Copy, Debug, PartialEq, Eq, Hash)]
pub enum Obs {
    U(u64),
    F(u64),
    R { total: u64, occ: u64 },
    Other,
}

impl From<Observation> for Obs {
    fn from(o: Observation) -> Self {
        match o {
            Observation::Unsigned(u) => Obs::U(u),
            Observation::Floating(f) => Obs::F(f.to_bits()),
            Observation::Repeated { total, occurrences } => Obs::R {
                total: total.to_bits(),
                occ: occurrences,
            },
            _ => Obs::Other,
        }
    }
}

impl Obs {
    pub fn to_observation(self) -> Observation {
        match self {
            Obs::U(u) => Observation::Unsigned(u),
            Obs::F(b) => Observation::Floating(f64::from_bits(b)),
            Obs::R { total, occ } => Observation::Repeated {
                total: f64::from_bits(total),
                occurrences: occ,
            },
            Obs::Other => Observation::Unsigned(0),
        }
    }
    pub fn json(self) -> J {
        match self {
            Obs::U(u) => json!({"u": u.to_string()}),
            Obs::F(b) => json!({"f": format!("{:?}", f64::from_bits(b))}),
            Obs::R { total, occ } => {
                json!({"r": [format!("{:?}", f64::from_bits(total)), occ.to_string()]})
            }
            Obs::Other => json!("other"),
        }
    }
}

#[derive(Clone, Debug, PartialEq)]
pub enum Val {
    String(String),
    Metric {
        obs: Vec<Obs>,
        unit: Unit,
        dims: Vec<(String, String)>,
        /// Debug rendering of the flags, None when empty
        flags: Option<String>,
    },
    Error(String),
    /// the Value called no ValueWriter method
    Nothing,
}

#[derive(Clone, Debug, PartialEq)]
pub enum Op {
    Timestamp(SystemTime),
    Config {
        type_id: TypeId,
        debug: String,
        /// Some(sets) when the config is an `EntryDimensions`
        entry_dims: Option<Vec<Vec<String>>>,
        allow_split: bool,
        allow_unroutable: bool,
    },
    Value { name: String, val: Val },
}

impl Op {
    pub fn json(&self) -> J {
        match self {
            Op::Timestamp(t) => json!({"timestamp": sys_time_json(*t)}),
            Op::Config { debug, .. } => json!({"config": debug}),
            Op::Value { name, val } => json!({"name": name, "value": val.json()}),
        }
    }
}

pub fn sys_time_json(t: SystemTime) -> J {
    match t.duration_since(UNIX_EPOCH) {
        Ok(d) => json!(format!("+{}.{:09}", d.as_secs(), d.subsec_nanos())),
        Err(e) => json!(format!("-{}.{:09}", e.duration().as_secs(), e.duration().subsec_nanos())),
    }
}

impl Val {
    pub fn json(&self) -> J {
        match self {
            Val::String(s) => json!({"string": s}),
            Val::Metric { obs, unit, dims, flags } => json!({
                "obs": obs.iter().map(|o| o.json()).collect::<Vec<_>>(),
                "unit": unit.name(),
                "dims": dims,
                "flags": flags,
            }),
            Val::Error(e) => json!({"error": e}),
            Val::Nothing => json!("nothing"),
        }
    }
}

pub fn log_json(log: &[Op]) -> J {
    J::Array(log.iter().map(|o| o.json()).collect())
}

#[derive(Default, Debug)]
pub struct RecordingWriter {
    pub log: Vec<Op>,
}

struct RecValue<'s> {
    slot: &'s mut Option<Val>,
}

impl ValueWriter for RecValue<'_> {
    fn string(self, value: &str) {
        *self.slot = Some(Val::String(value.to_string()));
    }

    fn metric<'a>(
        self,
        distribution: impl IntoIterator<Item = Observation>,
        unit: Unit,
        dimensions: impl IntoIterator<Item = (&'a str, &'a str)>,
        flags: MetricFlags<'_>,
    ) {
        let flags_dbg = format!("{flags:?}");
        *self.slot = Some(Val::Metric {
            obs: distribution.into_iter().map(Obs::from).collect(),
            unit,
            dims: dimensions
                .into_iter()
                .map(|(k, v)| (k.to_string(), v.to_string()))
                .collect(),
            flags: if flags_dbg == "MetricFlags(None)" {
                None
            } else {
                Some(flags_dbg)
            },
        });
    }

    fn error(self, error: ValidationError) {
        *self.slot = Some(Val::Error(error.to_string()));
    }
}

impl<'a> EntryWriter<'a> for RecordingWriter {
    fn timestamp(&mut self, timestamp: SystemTime) {
        self.log.push(Op::Timestamp(timestamp));
    }

    fn value(&mut self, name: impl Into<Cow<'a, str>>, value: &(impl Value + ?Sized)) {
        let mut slot = None;
        value.write(RecValue { slot: &mut slot });
        self.log.push(Op::Value {
            name: name.into().into_owned(),
            val: slot.unwrap_or(Val::Nothing),
        });
    }

    fn config(&mut self, config: &'a dyn EntryConfig) {
        use metrique_writer_core::config::{AllowSplitEntries, AllowUnroutableEntries, EntryDimensions};
        let any = config as &dyn Any;
        self.log.push(Op::Config {
            type_id: any.type_id(),
            debug: format!("{config:?}"),
            entry_dims: any
                .downcast_ref::<EntryDimensions>()
                .map(|d| d.dim_sets().map(|s| s.map(|x| x.to_string()).collect()).collect()),
            allow_split: any.downcast_ref::<AllowSplitEntries>().is_some(),
            allow_unroutable: any.downcast_ref::<AllowUnroutableEntries>().is_some(),
        });
    }
}

/// Replay an entry into a fresh RecordingWriter
pub fn record(entry: &impl Entry) -> Vec<Op> {
    let mut w = RecordingWriter::default();
    entry.write(&mut w);
    w.log
}

pub fn record_sample_group(entry: &impl Entry) -> Vec<(String, String)> {
    entry
        .sample_group()
        .map(|(k, v)| (k.into_owned(), v.into_owned()))
        .collect()
}

/// Record just one Value
pub fn record_value(value: &(impl Value + ?Sized)) -> Val {
    let mut slot = None;
    value.write(RecValue { slot: &mut slot });
    slot.unwrap_or(Val::Nothing)
}

// ------------------------------------------------------------------------------------------
// ProgramEntry

pub type FlagCtor = fn() -> MetricFlags<'static>;

#[derive(Clone, Debug)]
pub enum PVal {
    Str(String),
    Metric {
        obs: Vec<Obs>,
        unit: Unit,
        dims: Vec<(String, String)>,
        flags: Option<FlagCtor>,
    },
    Error(String),
    Nothing,
}

impl Value for PVal {
    fn write(&self, writer: impl ValueWriter) {
        match self {
            PVal::Str(s) => writer.string(s),
            // every other value hands its dimensions over through an iterator without an exact size
            // hint (lower bound 0), as a filtering user-written Value would
            PVal::Metric { obs, unit, dims, flags } if (dims.len() + obs.len()) % 2 == 1 => writer.metric(
                obs.iter().map(|o| o.to_observation()),
                *unit,
                dims.iter().filter(|_| true).map(|(k, v)| (k.as_str(), v.as_str())),
                flags.map(|f| f()).unwrap_or(MetricFlags::empty()),
            ),
            PVal::Metric { obs, unit, dims, flags } => writer.metric(
                obs.iter().map(|o| o.to_observation()),
                *unit,
                dims.iter().map(|(k, v)| (k.as_str(), v.as_str())),
                flags.map(|f| f()).unwrap_or(MetricFlags::empty()),
            ),
            PVal::Error(msg) => writer.error(ValidationError::invalid(msg.clone())),
            PVal::Nothing => {}
        }
    }
}

impl PVal {
    pub fn json(&self) -> J {
        match self {
            PVal::Str(s) => json!({"string": s}),
            PVal::Metric { obs, unit, dims, flags } => json!({
                "obs": obs.iter().map(|o| o.json()).collect::<Vec<_>>(),
                "unit": unit.name(),
                "dims": dims,
                "flags": flags.map(|f| format!("{:?}", f())),
            }),
            PVal::Error(e) => json!({"error": e}),
            PVal::Nothing => json!("nothing"),
        }
    }
}

#[derive(Clone)]
pub enum POp {
    Timestamp(SystemTime),
    Config(Arc<dyn EntryConfig + Send + Sync>),
    Value(String, PVal),
}

impl std::fmt::Debug for POp {
    fn fmt(&self, f: &mut std::fmt::Formatter<'_>) -> std::fmt::Result {
        write!(f, "{}", self.json())
    }
}

impl POp {
    pub fn json(&self) -> J {
        match self {
            POp::Timestamp(t) => json!({"timestamp": sys_time_json(*t)}),
            POp::Config(c) => json!({"config": format!("{c:?}")}),
            POp::Value(n, v) => json!({"name": n, "value": v.json()}),
        }
    }
}

#[derive(Clone, Debug, Default)]
pub struct ProgramEntry {
    pub ops: Vec<POp>,
    pub sample_group: Vec<(String, String)>,
}

impl ProgramEntry {
    pub fn new(ops: Vec<POp>) -> Self {
        ProgramEntry { ops, sample_group: vec![] }
    }
    pub fn json(&self) -> J {
        json!({
            "ops": self.ops.iter().map(|o| o.json()).collect::<Vec<_>>(),
            "sample_group": self.sample_group,
        })
    }
}

struct SgIter<'a> {
    inner: std::slice::Iter<'a, (String, String)>,
    exact: bool,
}
impl Iterator for SgIter<'_> {
    type Item = SampleGroupElement;
    fn next(&mut self) -> Option<SampleGroupElement> {
        self.inner.next().map(|(k, v)| (Cow::Owned(k.clone()), Cow::Owned(v.clone())))
    }
    fn size_hint(&self) -> (usize, Option<usize>) {
        if self.exact { self.inner.size_hint() } else { (0, self.inner.size_hint().1) }
    }
}

impl Entry for ProgramEntry {
    fn write<'a>(&'a self, writer: &mut impl EntryWriter<'a>) {
        for (i, op) in self.ops.iter().enumerate() {
            match op {
                POp::Timestamp(t) => writer.timestamp(*t),
                POp::Config(c) => {
                    let c: &'a (dyn EntryConfig + Send + Sync) = &**c;
                    writer.config(c)
                }
                // names reach a writer borrowed (field names known at compile time) or owned (names
                // assembled at run time, e.g. prefix + field): every other position hands over an
                // owned String
                POp::Value(name, v) => {
                    if (name.len() + i) % 2 == 0 {
                        writer.value(name.as_str(), v)
                    } else {
                        writer.value(name.clone(), v)
                    }
                }
            }
        }
    }

    fn sample_group(&self) -> impl Iterator<Item = SampleGroupElement> {
        // (the size hint of this iterator is exact for groups of even length and has a lower bound of 0
        // otherwise: a wrapper must iterate, not trust the hint)
        SgIter { inner: self.sample_group.iter(), exact: self.sample_group.len() % 2 == 0 }
    }
}
