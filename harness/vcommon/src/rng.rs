//! Own PRNG (SplitMix64 seeding xoshiro256**) so that results depend on VERIF_SEED only,
//! never on a crate version.

#[derive(Clone, Debug)]
pub struct Rng {
    s: [u64; 4],
}

fn splitmix(x: &mut u64) -> u64 {
    *x = x.wrapping_add(0x9E37_79B9_7F4A_7C15);
    let mut z = *x;
    z = (z ^ (z >> 30)).wrapping_mul(0xBF58_476D_1CE4_E5B9);
    z = (z ^ (z >> 27)).wrapping_mul(0x94D0_49BB_1331_11EB);
    z ^ (z >> 31)
}

impl Rng {
    pub fn new(seed: u64) -> Self {
        let mut x = seed ^ 0xA076_1D64_78BD_642F;
        let s = [
            splitmix(&mut x),
            splitmix(&mut x),
            splitmix(&mut x),
            splitmix(&mut x),
        ];
        Rng { s }
    }

    /// independent stream derived from this seed and a label
    pub fn derive(seed: u64, stream: u64) -> Self {
        Rng::new(seed.wrapping_mul(0x2545_F491_4F6C_DD1D) ^ stream.rotate_left(17) ^ (stream << 1))
    }

    pub fn fork(&mut self) -> Rng {
        Rng::new(self.next_u64())
    }

    pub fn next_u64(&mut self) -> u64 {
        let s = &mut self.s;
        let result = s[1].wrapping_mul(5).rotate_left(7).wrapping_mul(9);
        let t = s[1] << 17;
        s[2] ^= s[0];
        s[3] ^= s[1];
        s[1] ^= s[2];
        s[0] ^= s[3];
        s[2] ^= t;
        s[3] = s[3].rotate_left(45);
        result
    }

    /// uniform in 0..n (n > 0)
    pub fn below(&mut self, n: u64) -> u64 {
        debug_assert!(n > 0);
        // multiply-shift; bias is irrelevant for workload generation
        ((self.next_u64() as u128 * n as u128) >> 64) as u64
    }

    pub fn usize_below(&mut self, n: usize) -> usize {
        self.below(n as u64) as usize
    }

    /// uniform in lo..=hi
    pub fn range(&mut self, lo: u64, hi: u64) -> u64 {
        lo + self.below(hi - lo + 1)
    }

    pub fn chance(&mut self, num: u64, den: u64) -> bool {
        self.below(den) < num
    }

    pub fn bool(&mut self) -> bool {
        self.next_u64() & 1 == 1
    }

    pub fn f64(&mut self) -> f64 {
        (self.next_u64() >> 11) as f64 / (1u64 << 53) as f64
    }

    pub fn pick<'a, T>(&mut self, xs: &'a [T]) -> &'a T {
        &xs[self.usize_below(xs.len())]
    }

    pub fn shuffle<T>(&mut self, xs: &mut [T]) {
        for i in (1..xs.len()).rev() {
            let j = self.usize_below(i + 1);
            xs.swap(i, j);
        }
    }
}

/// FNV-1a, used for "distinct case" fingerprints
#[derive(Clone, Copy)]
pub struct Fnv(pub u64);

impl Default for Fnv {
    fn default() -> Self {
        Fnv(0xcbf2_9ce4_8422_2325)
    }
}

impl Fnv {
    pub fn new() -> Self {
        Self::default()
    }
    pub fn bytes(&mut self, b: &[u8]) -> &mut Self {
        for &x in b {
            self.0 ^= x as u64;
            self.0 = self.0.wrapping_mul(0x0000_0100_0000_01B3);
        }
        self
    }
    pub fn u64(&mut self, v: u64) -> &mut Self {
        self.bytes(&v.to_le_bytes())
    }
    pub fn str(&mut self, s: &str) -> &mut Self {
        self.bytes(s.as_bytes()).bytes(&[0xff])
    }
    pub fn finish(&self) -> u64 {
        self.0
    }
}
