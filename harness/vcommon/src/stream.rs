//! `ScriptedStream`: a recording, gate-able `EntryIoStream`, and `IdEntry`, the entry type used
//! by the queue/sink harnesses (every entry carries a unique id, so histories are unambiguous).

use crate::rng::Rng;
use crate::sync::{is_miri, progress_tick, ticket};
use metrique_writer_core::{
    Entry, EntryConfig, EntryIoStream, EntryWriter, IoStreamError, Observation, Unit,
    ValidationError, Value, ValueWriter, value::MetricFlags,
};
use std::borrow::Cow;
use std::cell::RefCell;
use std::io;
use std::sync::atomic::{AtomicBool, AtomicU64, Ordering};
use std::sync::{Arc, Condvar, Mutex};
use std::time::{Duration, SystemTime};

pub fn make_id(producer: u32, seq: u32) -> u64 {
    ((producer as u64) << 32) | seq as u64
}
pub fn id_producer(id: u64) -> u32 {
    (id >> 32) as u32
}
pub fn id_seq(id: u64) -> u32 {
    id as u32
}

/// Entry carrying a unique id
#[derive(Clone, Debug)]
pub struct IdEntry {
    pub id: u64,
}

impl IdEntry {
    pub fn new(producer: u32, seq: u32) -> Self {
        IdEntry { id: make_id(producer, seq) }
    }
}

impl Entry for IdEntry {
    fn write<'a>(&'a self, writer: &mut impl EntryWriter<'a>) {
        writer.value("id", &self.id);
    }
}

#[derive(Clone, Debug, PartialEq, Eq)]
pub enum EntryKind {
    Id(u64),
    /// the queue's in-band `MetriqueValidationError` report entry
    ErrorReport(String),
    Other,
}

#[derive(Clone, Copy, Debug, PartialEq, Eq)]
pub enum Outcome {
    Ok,
    Validation,
    Io,
}

#[derive(Clone, Debug, PartialEq, Eq)]
pub enum Ev {
    Next { kind: EntryKind, ticket: u64, outcome: Outcome },
    Flush { ticket: u64, ok: bool },
}

impl Ev {
    pub fn id(&self) -> Option<u64> {
        match self {
            Ev::Next { kind: EntryKind::Id(i), .. } => Some(*i),
            _ => None,
        }
    }
    pub fn ticket(&self) -> u64 {
        match self {
            Ev::Next { ticket, .. } | Ev::Flush { ticket, .. } => *ticket,
        }
    }
    pub fn is_flush(&self) -> bool {
        matches!(self, Ev::Flush { .. })
    }
}

#[derive(Default)]
struct Extract {
    id: Option<u64>,
    report: Option<String>,
    values: usize,
}

struct ExtractValue<'s>(&'s mut Option<u64>, &'s mut Option<String>);
impl ValueWriter for ExtractValue<'_> {
    fn string(self, value: &str) {
        *self.1 = Some(value.to_string());
    }
    fn metric<'a>(
        self,
        distribution: impl IntoIterator<Item = Observation>,
        _unit: Unit,
        _dimensions: impl IntoIterator<Item = (&'a str, &'a str)>,
        _flags: MetricFlags<'_>,
    ) {
        if let Some(Observation::Unsigned(u)) = distribution.into_iter().next() {
            *self.0 = Some(u);
        }
    }
    fn error(self, _error: ValidationError) {}
}

impl<'a> EntryWriter<'a> for Extract {
    fn timestamp(&mut self, _timestamp: SystemTime) {}
    fn value(&mut self, name: impl Into<Cow<'a, str>>, value: &(impl Value + ?Sized)) {
        let name = name.into();
        self.values += 1;
        let (mut n, mut s) = (None, None);
        value.write(ExtractValue(&mut n, &mut s));
        if name == "id" {
            self.id = n;
        } else if name == "MetriqueValidationError" {
            self.report = s;
        }
    }
    fn config(&mut self, _config: &'a dyn EntryConfig) {}
}

pub fn classify(entry: &impl Entry) -> EntryKind {
    let mut x = Extract::default();
    entry.write(&mut x);
    match (x.id, x.report) {
        (Some(id), _) => EntryKind::Id(id),
        (None, Some(r)) if x.values == 1 => EntryKind::ErrorReport(r),
        _ => EntryKind::Other,
    }
}

struct GateState {
    /// None = unlimited; Some(n) = n more `next` calls may proceed
    fuel: Option<u64>,
    flush_closed: bool,
}

pub type ResultScript = dyn Fn(&EntryKind) -> Outcome + Send + Sync;

/// State shared between the harness and the stream that lives on the writer thread
pub struct StreamShared {
    log: Mutex<Vec<Ev>>,
    gate: Mutex<GateState>,
    cv: Condvar,
    /// number of threads currently blocked at the gate (next or flush)
    pub blocked_next: AtomicBool,
    pub blocked_flush: AtomicBool,
    /// `next` calls that passed the gate
    pub started: AtomicU64,
    /// `next` calls that returned
    pub consumed: AtomicU64,
    /// `next` calls for id-carrying entries that returned
    pub consumed_ids: AtomicU64,
    pub flushes: AtomicU64,
    /// ticket at which the stream object was dropped (0 = alive)
    pub dropped_at: AtomicU64,
    /// ticket at which the thread that called next/flush exited (0 = not yet / never used)
    pub thread_exit_at: AtomicU64,
    pub thread_registered: AtomicBool,
    script: Mutex<Option<Arc<ResultScript>>>,
    pub flush_fail: AtomicBool,
    /// number of scripted I/O errors returned so far (selects the error kind)
    pub io_errors: AtomicU64,
    /// random delay inside next (per-mille probability), 0 = none
    pub delay_per_mille: AtomicU64,
    rng: Mutex<Rng>,
}

impl StreamShared {
    pub fn new(seed: u64) -> Arc<Self> {
        Arc::new(StreamShared {
            log: Mutex::new(vec![]),
            gate: Mutex::new(GateState { fuel: None, flush_closed: false }),
            cv: Condvar::new(),
            blocked_next: AtomicBool::new(false),
            blocked_flush: AtomicBool::new(false),
            started: AtomicU64::new(0),
            consumed: AtomicU64::new(0),
            consumed_ids: AtomicU64::new(0),
            flushes: AtomicU64::new(0),
            dropped_at: AtomicU64::new(0),
            thread_exit_at: AtomicU64::new(0),
            thread_registered: AtomicBool::new(false),
            script: Mutex::new(None),
            flush_fail: AtomicBool::new(false),
            io_errors: AtomicU64::new(0),
            delay_per_mille: AtomicU64::new(0),
            rng: Mutex::new(Rng::new(seed)),
        })
    }

    pub fn stream(self: &Arc<Self>) -> ScriptedStream {
        ScriptedStream { sh: self.clone() }
    }

    pub fn set_script(&self, f: impl Fn(&EntryKind) -> Outcome + Send + Sync + 'static) {
        *self.script.lock().unwrap() = Some(Arc::new(f));
    }

    /// Stop `next` calls at the gate (after `n` more have passed)
    pub fn set_fuel(&self, n: Option<u64>) {
        self.gate.lock().unwrap().fuel = n;
        self.cv.notify_all();
    }
    pub fn add_fuel(&self, n: u64) {
        let mut g = self.gate.lock().unwrap();
        if let Some(f) = g.fuel.as_mut() {
            *f += n;
        }
        drop(g);
        self.cv.notify_all();
    }
    pub fn close_flush_gate(&self, closed: bool) {
        self.gate.lock().unwrap().flush_closed = closed;
        self.cv.notify_all();
    }
    pub fn open_all(&self) {
        let mut g = self.gate.lock().unwrap();
        g.fuel = None;
        g.flush_closed = false;
        drop(g);
        self.cv.notify_all();
    }

    pub fn log(&self) -> Vec<Ev> {
        self.log.lock().unwrap().clone()
    }
    pub fn log_len(&self) -> usize {
        self.log.lock().unwrap().len()
    }
    pub fn is_dropped(&self) -> bool {
        self.dropped_at.load(Ordering::SeqCst) != 0
    }
    pub fn thread_exited(&self) -> bool {
        self.thread_exit_at.load(Ordering::SeqCst) != 0
    }

    fn maybe_delay(&self) {
        let p = self.delay_per_mille.load(Ordering::Relaxed);
        if p == 0 {
            return;
        }
        let (hit, amount) = {
            let mut r = self.rng.lock().unwrap();
            (r.below(1000) < p, r.below(3000))
        };
        if hit {
            if is_miri() || amount < 1000 {
                std::thread::yield_now();
            } else if amount < 2500 {
                for _ in 0..amount {
                    std::hint::spin_loop();
                }
            } else {
                std::thread::sleep(Duration::from_micros(amount / 20));
            }
        }
    }

    fn register_thread(self: &Arc<Self>) {
        if self.thread_registered.swap(true, Ordering::SeqCst) {
            return;
        }
        struct ExitFlag(Arc<StreamShared>);
        impl Drop for ExitFlag {
            fn drop(&mut self) {
                self.0.thread_exit_at.store(ticket(), Ordering::SeqCst);
            }
        }
        thread_local! {
            static EXIT: RefCell<Vec<ExitFlag>> = const { RefCell::new(Vec::new()) };
        }
        let me = self.clone();
        EXIT.with(|e| e.borrow_mut().push(ExitFlag(me)));
    }
}

pub struct ScriptedStream {
    sh: Arc<StreamShared>,
}

impl ScriptedStream {
    pub fn shared(&self) -> &Arc<StreamShared> {
        &self.sh
    }
}

impl Drop for ScriptedStream {
    fn drop(&mut self) {
        self.sh.dropped_at.store(ticket(), Ordering::SeqCst);
    }
}

impl EntryIoStream for ScriptedStream {
    fn next(&mut self, entry: &impl Entry) -> Result<(), IoStreamError> {
        let sh = &self.sh;
        sh.register_thread();
        {
            let mut g = sh.gate.lock().unwrap();
            loop {
                match g.fuel {
                    None => break,
                    Some(0) => {
                        sh.blocked_next.store(true, Ordering::SeqCst);
                        g = sh.cv.wait(g).unwrap();
                    }
                    Some(n) => {
                        g.fuel = Some(n - 1);
                        break;
                    }
                }
            }
            sh.blocked_next.store(false, Ordering::SeqCst);
        }
        sh.started.fetch_add(1, Ordering::SeqCst);
        let kind = classify(entry);
        let is_id = matches!(kind, EntryKind::Id(_));
        let outcome = match sh.script.lock().unwrap().clone() {
            Some(f) => f(&kind),
            None => Outcome::Ok,
        };
        sh.maybe_delay();
        // logged under the stream's own lock, ticket taken inside the lock
        {
            let mut log = sh.log.lock().unwrap();
            log.push(Ev::Next { kind, ticket: ticket(), outcome });
        }
        sh.consumed.fetch_add(1, Ordering::SeqCst);
        progress_tick();
        if is_id {
            sh.consumed_ids.fetch_add(1, Ordering::SeqCst);
        }
        match outcome {
            Outcome::Ok => Ok(()),
            Outcome::Validation => Err(IoStreamError::Validation(ValidationError::invalid(
                "scripted validation error",
            ))),
            // every kind of I/O error, transient-looking ones included: a sink treats them all alike
            Outcome::Io => {
                const KINDS: [io::ErrorKind; 12] = [
                    io::ErrorKind::Other, io::ErrorKind::Interrupted, io::ErrorKind::WouldBlock, io::ErrorKind::BrokenPipe,
                    io::ErrorKind::TimedOut, io::ErrorKind::WriteZero, io::ErrorKind::UnexpectedEof, io::ErrorKind::StorageFull,
                    io::ErrorKind::InvalidInput, io::ErrorKind::InvalidData, io::ErrorKind::Unsupported, io::ErrorKind::OutOfMemory,
                ];
                let k = sh.io_errors.fetch_add(1, Ordering::Relaxed) as usize;
                Err(IoStreamError::Io(io::Error::new(KINDS[k % KINDS.len()], "scripted io error")))
            }
        }
    }

    fn flush(&mut self) -> io::Result<()> {
        let sh = &self.sh;
        sh.register_thread();
        {
            let mut g = sh.gate.lock().unwrap();
            while g.flush_closed {
                sh.blocked_flush.store(true, Ordering::SeqCst);
                g = sh.cv.wait(g).unwrap();
            }
            sh.blocked_flush.store(false, Ordering::SeqCst);
        }
        let ok = !sh.flush_fail.load(Ordering::Relaxed);
        {
            let mut log = sh.log.lock().unwrap();
            log.push(Ev::Flush { ticket: ticket(), ok });
        }
        sh.flushes.fetch_add(1, Ordering::SeqCst);
        if ok { Ok(()) } else { Err(io::Error::other("scripted flush error")) }
    }
}
