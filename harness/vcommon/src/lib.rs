//! Shared monitor infrastructure for the metrique verification harnesses.
pub mod recording;
pub mod report;
pub mod rng;
pub mod stream;
pub mod strict_json;
pub mod sync;

pub use report::{Args, Report, Tier};
pub use rng::{Fnv, Rng};
pub use serde_json;
