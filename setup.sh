#!/bin/sh
# MANIFEST.setup_cmd: build every flavour of the harness once, offline, from files on disk.
# (Checks rebuild incrementally from /repo's working tree on every run; this only warms the caches.)
set -u
cd "$(dirname "$0")/harness" || exit 1
export CARGO_NET_OFFLINE=true
cp /repo/Cargo.lock Cargo.lock.repo 2>/dev/null || true
echo "== native debug";   RUSTFLAGS="--cfg metrique_verif" cargo build --offline --target-dir target/native --bins 2>&1 | tail -2
echo "== native release"; RUSTFLAGS="--cfg metrique_verif" cargo build --offline --release --target-dir target/native --bins 2>&1 | tail -2
echo "== miri";           RUSTFLAGS="--cfg metrique_verif" MIRIFLAGS="-Zmiri-disable-isolation" cargo +nightly miri run --offline --target-dir target/miri --bin c00_selftest 2>&1 | tail -2
if [ "${VERIF_SETUP_SANITIZERS:-1}" = "1" ]; then
echo "== tsan";           RUSTFLAGS="--cfg metrique_verif -Zsanitizer=thread" cargo +nightly build --offline -Zbuild-std --target x86_64-unknown-linux-gnu --target-dir target/tsan --bins 2>&1 | tail -2
echo "== asan";           RUSTFLAGS="--cfg metrique_verif -Zsanitizer=address -Cforce-frame-pointers=yes" cargo +nightly build --offline --target x86_64-unknown-linux-gnu --target-dir target/asan --bins 2>&1 | tail -2
fi
rm -f Cargo.lock.repo
exit 0
