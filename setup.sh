#!/bin/sh
# MANIFEST.setup_cmd: build, offline and from files on disk only, every (flavour, binary) pair that a
# leg in legs.py needs (native debug/release, miri, tsan, asan). Checks rebuild incrementally from
# /repo's working tree on every run; this only warms the caches so that quick checks are quick.
# VERIF_SETUP_SKIP=tsan,asan skips flavours.
cd "$(dirname "$0")" || exit 1
export CARGO_NET_OFFLINE=true
exec ./check --setup
