#!/bin/sh
# usage: seedrun.sh <patch.diff> <check args...>   -- applies a seeded patch to /repo, runs ./check, always reverts
p="$1"; shift
git -C /repo apply "$p" || exit 9
cd /verif && ./check "$@"; rc=$?
git -C /repo checkout -- .
echo "seedrun exit=$rc"
