#!/usr/bin/env python3
"""Confirm a seeded defect delivered by a sub-agent, in a scratch worktree (never in /repo), and
file it under /verif/seeded/<prop>-<variant>/ with what was run.

usage: confirm_seed.py <prop> <variant> <out_dir> [--dest DIR_IN_TREE] [--cmd "cargo test ..."] [--skip-suite]

Steps (all in /tmp/mut/confirm, a detached worktree of /repo HEAD with its own target dir):
  1. apply patch.diff, place the demo file(s), run the demo  -> must FAIL
  2. remove the demo, run the whole existing suite with the patch -> must PASS (349)
  3. revert the patch, place the demo again, run it -> must PASS
"""
import json, os, re, shutil, subprocess, sys, time

WT = os.environ.get("CONFIRM_WT", "/tmp/mut/confirm")


def sh(cmd, cwd=WT, timeout=3600):
    t0 = time.time()
    p = subprocess.run(cmd, shell=True, cwd=cwd, stdout=subprocess.PIPE, stderr=subprocess.STDOUT, text=True,
                       errors="replace", timeout=timeout,
                       env={**os.environ, "CARGO_NET_OFFLINE": "true", "CARGO_TERM_COLOR": "never"})
    return p.returncode, p.stdout, round(time.time() - t0, 1)


def main():
    prop, variant, out = sys.argv[1], sys.argv[2], sys.argv[3]
    rest = sys.argv[4:]
    dest = cmd = None
    skip_suite = False
    while rest:
        a = rest.pop(0)
        if a == "--dest":
            dest = rest.pop(0)
        elif a == "--cmd":
            cmd = rest.pop(0)
        elif a == "--skip-suite":
            skip_suite = True
    if not os.path.isdir(WT):
        rc, o, _ = sh(f"git -C /repo worktree add --detach {WT} HEAD", cwd="/")
        assert rc == 0, o
    sh("git checkout -q --detach $(git -C /repo rev-parse HEAD) && git checkout -- . && git clean -fdq -e target")
    readme = open(os.path.join(out, "demo", "README.md")).read() if os.path.exists(os.path.join(out, "demo", "README.md")) else ""
    demos = [f for f in os.listdir(os.path.join(out, "demo")) if not f.lower().startswith("readme")]
    placed = []

    def place():
        for f in demos:
            d = dest
            if d is None:
                m = re.search(r"`?%s`?\s+to\s+`([^`]+)`" % re.escape(f), readme)
                d = os.path.dirname(m.group(1)) if m else None
            if d is None:
                m = re.search(r"`([\w\-/]+/(?:tests|examples)/)%s`" % re.escape(f), readme)
                d = m.group(1) if m else "metrique-writer/tests"
            os.makedirs(os.path.join(WT, d), exist_ok=True)
            shutil.copy(os.path.join(out, "demo", f), os.path.join(WT, d, f))
            placed.append(os.path.join(d, f))

    def unplace():
        for p in placed:
            try:
                os.remove(os.path.join(WT, p))
            except FileNotFoundError:
                pass
        placed.clear()

    c = cmd
    if c is None:
        m = re.search(r"^\s*(?:[A-Z_]+=\S+\s+)*(cargo (?:test|run|nextest)[^\n]*)$", readme, re.M)
        c = m.group(1).strip() if m else None
    assert c, "no demo command found; pass --cmd"
    c = c.replace("-j 6", "-j 8")
    result = {"property": prop, "variant": variant, "demo_cmd": c}
    rc, o, _ = sh(f"git apply {os.path.join(out, 'patch.diff')}")
    assert rc == 0, "patch does not apply: " + o
    place()
    result["demo_files"] = list(placed)
    rc1, o1, t1 = sh(f"timeout 900 {c}")
    result["with_patch_demo"] = {"exit": rc1, "wall_s": t1, "tail": o1[-1500:]}
    unplace()
    if not skip_suite:
        rc2, o2, t2 = sh("cargo nextest run --workspace --no-fail-fast --offline -j 8 --build-jobs 8 2>&1 | tail -5")
        m = re.search(r"(\d+) tests run: (\d+) passed", o2)
        result["with_patch_suite"] = {"summary": m.group(0) if m else o2[-400:], "wall_s": t2}
        suite_ok = bool(m and m.group(1) == m.group(2) and int(m.group(1)) >= 349)
    else:
        suite_ok = None
    sh("git checkout -- .")
    place()
    rc3, o3, t3 = sh(f"timeout 900 {c}")
    result["without_patch_demo"] = {"exit": rc3, "wall_s": t3, "tail": o3[-800:]}
    unplace()
    sh("git checkout -- . && git clean -fdq -e target")
    confirmed = rc1 != 0 and rc3 == 0 and suite_ok is not False
    result["confirmed"] = confirmed
    result["suite_passes_with_patch"] = suite_ok
    print(json.dumps({k: v for k, v in result.items() if k not in ("with_patch_demo", "without_patch_demo")}, indent=1))
    print("with patch demo exit", rc1, "| without patch demo exit", rc3)
    if confirmed:
        d = f"/verif/seeded/{prop}-{variant}"
        os.makedirs(d, exist_ok=True)
        shutil.copy(os.path.join(out, "patch.diff"), os.path.join(d, "patch.diff"))
        if os.path.isdir(os.path.join(d, "demo")):
            shutil.rmtree(os.path.join(d, "demo"))
        shutil.copytree(os.path.join(out, "demo"), os.path.join(d, "demo"))
        meta = {}
        try:
            meta = json.load(open(os.path.join(out, "meta.json")))
        except Exception:
            pass
        meta_out = {
            "property": prop,
            "breaks": meta.get("summary", ""),
            "needs_to_manifest": meta.get("needs_to_manifest", ""),
            "files_changed": meta.get("files_changed", []),
            "author": "independent sub-agent given only the property text and a scratch worktree",
            "confirmed_by_me": result,
            "detected_by": "see DESIGN.md §10 (filled in after running the checks against it)",
        }
        json.dump(meta_out, open(os.path.join(d, "meta.json"), "w"), indent=1)
        print("filed under", d)
    else:
        print("NOT CONFIRMED")
        print(o1[-1500:])
        print("-----")
        print(o3[-800:])
    sys.exit(0 if confirmed else 1)


if __name__ == "__main__":
    main()
