#!/usr/bin/env python3
"""Regenerates the seeded-defect table of DESIGN.md §13 (between the SEED-TABLE markers) from
seeded/<id>/meta.json and seeded/RESULTS.json."""
import json, os, re
V = os.path.dirname(os.path.abspath(__file__))
MISSED = {
    # round 1
    "C02-A": "no failing writer interleaved on the long-lived formatter",
    "C06-B": "guards were only created on one thread",
    "C08-A": "a fresh formatter per entry",
    "C10-A": "no tiny worker flush interval",
    "C10-B": "never more than 36 keys per flush",
    "C19-B": "the lie was only tried with a real conversion",
    # round 2 ((*) = strengthened after reading the patch, before the old check was run against it)
    "C01-C": "(*) every history had a metrics recorder; the defect only shows without one",
    "C01-D": "(*) the tracing subscriber was always installed before the queue was built",
    "C03-C": "per-metric dimension sets never shared (key, value) pairs nor contained each other",
    "C03-D": "a fresh formatter per entry and no output failures in C03",
    "C04-C": "(*) no flush request was pending across the start of a shutdown with a backlog",
    "C04-D": "(*) never more than a few dozen outstanding flush requests",
    "C05-C": "(*) backlog at shutdown was at most 40 entries",
    "C05-D": "(*) no metrics recorder in the shutdown histories",
    "C08-D": "at most 3 dimension sets per entry",
    "C10-C": "flushes were requested by one controller thread only",
    "C10-D": "only macro-generated keys, whose hash is as fine as their equality",
    "C11-C": "concurrent recordings were not released at the same moment into an empty histogram",
    "C11-D": "every strategy object was used for a single window",
    "C12-C": "interval totals never hit the target exactly after busier intervals",
    "C13-C": "wait_for_data was called at most once",
    "C13-D": "guards were never dropped by unwinding",
    "C14-D": "per-metric dimension names/values were fresh random strings in every entry",
    "C17-C": "attach never raced with attach",
    "C18-C": "owned guards were always ended on one thread",
    "C18-D": "the stopwatch was closed by reference only",
    "C19-C": "a lying value was only tried alone, never inside a distribution after honest elements",
    "C19-D": "durations stayed below 2^32 s",
    "C20-C": "all metrics were registered before the first readout",
    # round 3
    "C02-F": "custom unit names had quotes and backslashes but no control characters",
    "C03-E": "floating observations came from a small set of magnitudes",
    "C05-E": "racers on a global sink appended through a sink handle obtained earlier, never through the global itself",
    "C05-F": "appenders always stopped before the shutdown was checked: no sustained load",
    "C06-F": "no read-only use (Debug formatting) of owner or guards concurrent with the drops",
    "C07-E": "variant identifiers were plain CamelCase words (no acronym runs, no underscores)",
    "C07-F": "no prefix text was used both as prefix and as exact_prefix within one generated crate",
    "C08-F": "no error-report entry between the entries of a long-lived formatter",
    "C09-E": "no flush requests in the overflow histories",
    "C09-F": "the stream never reported errors in the overflow histories (and only one error kind elsewhere)",
    "C10-F": "every input contributed exactly one observation to a distribution",
    "C11-F": "occurrence counts were always at least 1",
    "C12-F": "draw == rate was forced for the fixed-fraction sampler only",
    "C13-F": "slots were never used inside a tokio task (let alone one without budget)",
    "C14-E": "a sampled formatter was always called the same way within a sequence",
    "C14-F": "big entries were big by their strings, never by the number of observations",
    "C15-E": "every stream/format adapter was used for a single entry",
    "C16-E": "one kind of hard error only; a retried write was rescued by the script's next step",
    "C16-F": "the output_to_makewriter stream was not exercised",
    "C17-E": "no contention on the runtime-sink map while a guard was dropped",
    "C17-F": "no rejected attach attempts concurrent with appends",
    "C18-E": "the stopwatch was never closed while guards were being stopped on another thread",
    "C18-F": "values were always closed under the time source they were created under",
    # round 4
    "C01-G": "the last queue handle was never dropped while the writer was held inside the stream (C01 never took the forget path)",
    "C04-G": "the streams of the barrier histories never reported errors",
    "C05-G": "the join / attach handle was never dropped by unwinding",
    "C05-H": "no flush future was kept un-polled across the forget path",
    "C06-G": "a force-flush guard was only created before, never after, concurrently created flush guards",
    "C06-H": "the sink never panicked: no entry finished on a thread after a caught panic inside a final drop",
    "C07-G": "no field identifier or tag name started with a run of capitals",
    "C08-H": "names always reached the writer as borrowed strings",
    "C09-G": "only local metrics recorders, one queue each",
    "C09-H": "entries were 8 bytes",
    "C10-G": "the last two handles of a worker sink were never dropped at the same moment",
    "C10-H": "a mutex-shared aggregate was never closed while a (slow) merge held its lock",
    "C13-H": "the deprecated, still public open_slot() + delay_flush() path was not exercised",
    "C15-G": "deny-lists only held the ASCII name `dup`",
    "C15-H": "sample-group iterators had exact size hints",
    "C16-H": "only the sequence of next() calls was observed for immediate-flush sinks, not the flush after each",
    "C18-G": "owned guards were never dropped by unwinding",
    "C19-H": "a refused value's effect on a long-lived Mean was not inspected",
    "C20-G": "histograms were only fed through record(), with values below 2^32",
    # round 5
    "C01-I": "shutdown_timeout was never configured; no shutdown from an old, stalled writer iteration",
    "C01-J": "subscriber legs used a subscriber that lets errors through",
    "C02-I": "outputs took every byte they were offered",
    "C03-J": "no dimension value spelled out another dimension set",
    "C04-J": "the never-empty-queue monitor's stream never refused an entry",
    "C05-I": "no entry was appended while the writer sat between its periodic flush and its shutdown check",
    "C05-J": "the streams of the shutdown histories never failed",
    "C06-I": "no force-flush guard outlived its entry into the next entry's life on the same thread",
    "C09-J": "no appends while a shutdown was pending with the writer held",
    "C10-I": "every flush future was awaited to completion",
    "C12-I": "ordering was judged by the sampler's own averages; no group with an every-other-interval pattern over many intervals",
    "C12-J": "ordering was judged by the sampler's own averages (corrupted consistently by the defect)",
    "C13-J": "only builds with debug assertions",
    "C15-I": "no wrapped write ever unwound",
    "C16-J": "one failing queue at a time",
    "C17-I": "all global sink types had different names",
    "C17-J": "when routing moved on during a detach was not compared with when the detached sink finished flushing",
    "C19-I": "lying values wrote a unit of another KIND, never the same kind at another scale",
    "C20-I": "gauges only took finite values",
    # round 6
    "C01-L": "every append came from an application thread, never from a queue's writer thread",
    "C02-K": "formatters lived for a dozen entries, never for 2^16 format calls with a dormant dimension set",
    "C04-K": "the never-empty-queue monitor always kept the queue FULL, never a small constant backlog",
    "C05-K": "the last two handles of a forgotten queue were never dropped at the same moment",
    "C05-L": "no refused entries in the tail of the backlog at shutdown",
    "C06-K": "an append was only required to happen, not to have happened when the last drop returned",
    "C07-K": "prefix chains beyond 100 bytes crossed the limit at the last or last-but-one segment only",
    "C07-L": "no field was declared no_close",
    "C08-K": "per-metric dimensions always came through iterators with exact size hints",
    "C09-L": "capacity was always the last builder call",
    "C10-L": "distributions held integers only: no NaN with the sign bit set",
    "C11-K": "zero was always +0.0",
    "C11-L": "the oracle took its inputs through the source's own Value impl; most durations were whole microseconds",
    "C12-K": "every sample group was a single pair; validate_groups stayed at the debug default",
    "C13-K": "delay_flush was only called on discard-mode guards",
    "C13-L": "no Debug formatting of a guard concurrent with flush_guard()",
    "C14-K": "the in-band error report was never merged with globals providing the default dimensions",
    "C15-K": "every flag constructor returned a flag",
    "C15-L": "configuration objects were separate allocations, never zero-sized fields of one struct",
    "C16-K": "Interrupted came a handful of times per record, never thousands",
    "C17-K": "attach always went through attach(), never attach_to_stream()",
    "C17-L": "destinations never panicked inside append",
    # round 7
    "C09-N": "the overflow counter was read after shutdown or a completed flush, never while the writer was stalled",
    "C10-M": "worker flush intervals went up to an hour, never to Duration::MAX",
    "C10-N": "keep-last fields were never optional",
    "C13-M": "wait_for_data futures were always polled at least once",
    "C15-M": "globals always carried data: never a zero-sized type",
    "C15-N": "WithGlobalDimensions was only constructed, its mutators never called",
    "C17-M": "runtime test sinks were installed and dropped by one controller thread, never for different runtimes at once",
    "C17-N": "with_test_sink was not exercised (set_test_sink with an explicit guard was)",
    # round 8
    "C08-O": "a duplicate always listed its dimension pairs in the order of the original",
    "C12-O": "no history landed on a rate of exactly 1 - 2^-23",
    "C12-P": "every sampled formatter got an injected rng; the default rng was never used",
    "C18-O": "the manual clock only moved between operations, never between two readings inside one",
    "C18-P": "thread-local time-source injections were never nested",
    "C19-O": "lying values always wrote some other unit, never no unit",
    # round 9
    "C01-R": "the scripted stream always accepted the in-band report entry",
    "C04-Q": "every flush request of a batch was awaited; none was abandoned",
    "C06-R": "flush guards were always held and dropped by the harness itself, never by a slot guard",
    "C11-R": "every source wrote one observation per metric() call",
    "C16-Q": "the scripted stream always accepted the in-band report entry",
    "C16-R": "hard errors came in eight kinds, InvalidInput not among them",
}


def cell(t, n):
    t = " ".join((t or "").split()).replace("|", "/")
    return t if len(t) <= n else t[: n - 3] + "..."


res = json.load(open(f"{V}/seeded/RESULTS.json"))
rows = ["| id | what the change breaks | what it needs to manifest | violation kinds reported by `./check <prop> quick` | missed at first because |", "|---|---|---|---|---|"]
n = det = 0
for sid in sorted(os.listdir(f"{V}/seeded")):
    mp = f"{V}/seeded/{sid}/meta.json"
    if not os.path.isfile(mp):
        continue
    m = json.load(open(mp))
    r = res.get(sid, {})
    n += 1
    det += bool(r.get("detected"))
    kinds = ", ".join(r.get("violation_kinds", [])) if r.get("detected") else "**NOT DETECTED**" if r else "(not run)"
    rows.append(f"| {sid} | {cell(m.get('breaks'), 170)} | {cell(m.get('needs_to_manifest'), 150)} | {kinds} | {MISSED.get(sid, '')} |")
table = "\n".join(rows) + f"\n\nLast sweep: **{det} of {n}** detected.\n"
p = f"{V}/DESIGN.md"
s = open(p).read()
b, e = "<!-- SEED-TABLE-BEGIN -->", "<!-- SEED-TABLE-END -->"
assert b in s and e in s, "markers missing in DESIGN.md"
s = s[: s.index(b) + len(b)] + "\n" + table + s[s.index(e):]
open(p, "w").write(s)
print(f"{det} of {n} detected; table written")
