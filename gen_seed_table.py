#!/usr/bin/env python3
"""Regenerates the seeded-defect table of DESIGN.md §13 (between the SEED-TABLE markers) from
seeded/<id>/meta.json and seeded/RESULTS.json."""
import json, os, re
V = os.path.dirname(os.path.abspath(__file__))
MISSED = {
    # round 1
    "C02-A": "no failing writer interleaved on the long-lived formatter",
    "C06-B": "guards were only created on one thread",
    "C08-A": "a fresh formatter per entry",
    "C10-A": "no tiny worker flush interval",
    "C10-B": "never more than 36 keys per flush",
    "C19-B": "the lie was only tried with a real conversion",
    # round 2 ((*) = strengthened after reading the patch, before the old check was run against it)
    "C01-C": "(*) every history had a metrics recorder; the defect only shows without one",
    "C01-D": "(*) the tracing subscriber was always installed before the queue was built",
    "C03-C": "per-metric dimension sets never shared (key, value) pairs nor contained each other",
    "C03-D": "a fresh formatter per entry and no output failures in C03",
    "C04-C": "(*) no flush request was pending across the start of a shutdown with a backlog",
    "C04-D": "(*) never more than a few dozen outstanding flush requests",
    "C05-C": "(*) backlog at shutdown was at most 40 entries",
    "C05-D": "(*) no metrics recorder in the shutdown histories",
    "C08-D": "at most 3 dimension sets per entry",
    "C10-C": "flushes were requested by one controller thread only",
    "C10-D": "only macro-generated keys, whose hash is as fine as their equality",
    "C11-C": "concurrent recordings were not released at the same moment into an empty histogram",
    "C11-D": "every strategy object was used for a single window",
    "C12-C": "interval totals never hit the target exactly after busier intervals",
    "C13-C": "wait_for_data was called at most once",
    "C13-D": "guards were never dropped by unwinding",
    "C14-D": "per-metric dimension names/values were fresh random strings in every entry",
    "C17-C": "attach never raced with attach",
    "C18-C": "owned guards were always ended on one thread",
    "C18-D": "the stopwatch was closed by reference only",
    "C19-C": "a lying value was only tried alone, never inside a distribution after honest elements",
    "C19-D": "durations stayed below 2^32 s",
    "C20-C": "all metrics were registered before the first readout",
}


def cell(t, n):
    t = " ".join((t or "").split()).replace("|", "/")
    return t if len(t) <= n else t[: n - 3] + "..."


res = json.load(open(f"{V}/seeded/RESULTS.json"))
rows = ["| id | what the change breaks | what it needs to manifest | violation kinds reported by `./check <prop> quick` | missed at first because |", "|---|---|---|---|---|"]
n = det = 0
for sid in sorted(os.listdir(f"{V}/seeded")):
    mp = f"{V}/seeded/{sid}/meta.json"
    if not os.path.isfile(mp):
        continue
    m = json.load(open(mp))
    r = res.get(sid, {})
    n += 1
    det += bool(r.get("detected"))
    kinds = ", ".join(r.get("violation_kinds", [])) if r.get("detected") else "**NOT DETECTED**" if r else "(not run)"
    rows.append(f"| {sid} | {cell(m.get('breaks'), 170)} | {cell(m.get('needs_to_manifest'), 150)} | {kinds} | {MISSED.get(sid, '')} |")
table = "\n".join(rows) + f"\n\nLast sweep: **{det} of {n}** detected.\n"
p = f"{V}/DESIGN.md"
s = open(p).read()
b, e = "<!-- SEED-TABLE-BEGIN -->", "<!-- SEED-TABLE-END -->"
assert b in s and e in s, "markers missing in DESIGN.md"
s = s[: s.index(b) + len(b)] + "\n" + table + s[s.index(e):]
open(p, "w").write(s)
print(f"{det} of {n} detected; table written")
