#!/bin/sh
# usage: seedrun2.sh <patch.diff|-> <check args...>
# Runs ./check against a seeded defect WITHOUT touching /repo: a scratch worktree of /repo's HEAD
# (plus /repo's uncommitted changes, if any) gets the patch, and a scratch copy of /verif (without
# build output, evidence or replay files) has its path dependencies pointed at that worktree.
# Scratch lives in $SEEDWS (default /tmp/seedws); remove it with: seedrun2.sh --clean
WS="${SEEDWS:-/tmp/seedws}"
if [ "$1" = "--clean" ]; then
  git -C /repo worktree remove --force "$WS/repo" 2>/dev/null
  rm -rf "$WS"; git -C /repo worktree prune; exit 0
fi
p="$1"; shift
mkdir -p "$WS"
if [ ! -d "$WS/repo" ]; then
  git -C /repo worktree add --detach "$WS/repo" HEAD >/dev/null 2>&1 || exit 9
fi
git -C "$WS/repo" checkout -q --detach "$(git -C /repo rev-parse HEAD)" || exit 9
git -C "$WS/repo" checkout -q -- . && git -C "$WS/repo" clean -fdq -e target
if [ "$p" != "-" ]; then git -C "$WS/repo" apply "$p" || exit 9; fi
rsync -a --delete --exclude '.git' --exclude 'harness/target' --exclude 'evidence' --exclude 'replay' \
      --exclude '__pycache__' --exclude 'seeded' /verif/ "$WS/verif/"
mkdir -p "$WS/verif/evidence"
grep -rl '/repo/' "$WS/verif/harness" --include=Cargo.toml --include=*.rs | grep -v '/target/' \
  | xargs sed -i "s#\"/repo/#\"$WS/repo/#g"
cd "$WS/verif" && ./check "$@"; rc=$?
git -C "$WS/repo" checkout -q -- .
echo "seedrun2 exit=$rc"
exit $rc
