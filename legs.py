"""Registry of legs per property (read by ./check). One leg = one process flavour of one harness binary."""

def native(bin, q=None, t=None, name="native", flavour="debug", tiers=("quick", "thorough"), timeout=None):
    return {"name": name, "flavour": flavour, "bin": bin, "tiers": list(tiers),
            "args": {"quick": q or [], "thorough": t or (q or [])},
            "timeout": timeout or {"quick": 600, "thorough": 3000}}

def miri(bin, seeds_q, seeds_t, variants_q, variants_t, name="miri", tiers=("quick", "thorough"), flags=""):
    return {"name": name, "flavour": "miri", "bin": bin, "tiers": list(tiers),
            "seeds": {"quick": seeds_q, "thorough": seeds_t},
            "variants": {"quick": variants_q, "thorough": variants_t},
            "miriflags": flags,
            "timeout": {"quick": 900, "thorough": 3000}}

PROPS = {
    "C01": {
        "level": "exploration",
        "assumptions": [
            "the recording stream's own log (taken under its lock on the writer thread) is the ground truth for what reached the stream",
            "histories in which the local metrics recorder saw an overflow are excluded (they belong to C09)",
        ],
        "legs": [
            native("c01_queue", ["secs=10"], ["secs=150"]),
            native("c01_queue", ["secs=5", "subscriber=1"], ["secs=60", "subscriber=1"], name="native-subscriber"),
            miri("c01_queue", 16, 64, [0, 1, 2], [0, 1, 2, 3, 4, 5]),
            native("c01_queue", t=["secs=60", "lanes=3"], name="tsan", flavour="tsan", tiers=("thorough",)),
        ],
    },
    "C04": {
        "level": "exploration",
        "assumptions": [
            "the recording stream's log is the ground truth; the log length read after completion can only hide a violation, never invent one (the gated variant makes hidden ones definite)",
            "liveness is restated as bounded progress in logical units (entries consumed by the stream), not wall time",
        ],
        "legs": [
            native("c04_flush", ["secs=14"], ["secs=170", "m3len=11"]),
            miri("c04_flush", 12, 48, [0, 1, 2], [0, 1, 2, 3, 4, 5]),
            native("c04_flush", t=["secs=60", "lanes=3", "monitor=12"], name="tsan", flavour="tsan", tiers=("thorough",)),
        ],
    },
    "C09": {
        "level": "exploration",
        "assumptions": [
            "sequential histories are made deterministic by holding the writer thread at a gate inside next(); the reference is a displace-oldest ring plus one in-hand slot",
        ],
        "legs": [
            native("c09_overflow", ["secs=12"], ["secs=150"]),
            miri("c09_overflow", 12, 48, [0, 1, 2, 3], [0, 1, 2, 3, 4, 5, 6, 7]),
            native("c09_overflow", t=["secs=45", "lanes=3"], name="tsan", flavour="tsan", tiers=("thorough",)),
        ],
    },
    "C05": {
        "level": "exploration",
        "assumptions": [
            "Drop of the stream object and exit of the writer thread are observed through a Drop impl and a thread-local destructor registered by the recording stream",
            "termination on the forget path is decided by the progress watchdog (no meaningful progress for 20 s) together with the logical evidence 'last queue handle dropped, stream alive'",
        ],
        "legs": [
            native("c05_shutdown", ["secs=12"], ["secs=150"]),
            miri("c05_shutdown", 4, 24, [0, 1, 2, 3, 4, 5], [0, 1, 2, 3, 4, 5, 6, 7, 8, 9, 10, 11]),
            native("c05_shutdown", t=["secs=45", "lanes=3"], name="tsan", flavour="tsan", tiers=("thorough",)),
        ],
    },
}
