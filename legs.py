"""Registry of legs per property (read by ./check). One leg = one process flavour of one harness binary."""

def native(bin, q=None, t=None, name="native", flavour="debug", tiers=("quick", "thorough"), timeout=None):
    return {"name": name, "flavour": flavour, "bin": bin, "tiers": list(tiers),
            "args": {"quick": q or [], "thorough": t or (q or [])},
            "timeout": timeout or {"quick": 600, "thorough": 3000}}

def miri(bin, seeds_q, seeds_t, variants_q, variants_t, name="miri", tiers=("quick", "thorough"), flags=""):
    return {"name": name, "flavour": "miri", "bin": bin, "tiers": list(tiers),
            "seeds": {"quick": seeds_q, "thorough": seeds_t},
            "variants": {"quick": variants_q, "thorough": variants_t},
            "miriflags": flags,
            "timeout": {"quick": 900, "thorough": 3000}}

PROPS = {
    "C01": {
        "level": "exploration",
        "assumptions": [
            "the recording stream's own log (taken under its lock on the writer thread) is the ground truth for what reached the stream",
            "histories in which the local metrics recorder saw an overflow are excluded (they belong to C09)",
        ],
        "legs": [
            native("c01_queue", ["secs=10"], ["secs=150"]),
            native("c01_queue", ["secs=5", "subscriber=1"], ["secs=60", "subscriber=1"], name="native-subscriber"),
            miri("c01_queue", 16, 64, [0, 1, 2], [0, 1, 2, 3, 4, 5]),
            native("c01_queue", t=["secs=60", "lanes=3"], name="tsan", flavour="tsan", tiers=("thorough",)),
        ],
    },
}
