"""Registry of legs per property (read by ./check). One leg = one process flavour of one harness binary."""

def native(bin, q=None, t=None, name="native", flavour="debug", tiers=("quick", "thorough"), timeout=None):
    return {"name": name, "flavour": flavour, "bin": bin, "tiers": list(tiers),
            "args": {"quick": q or [], "thorough": t or (q or [])},
            "timeout": timeout or {"quick": 600, "thorough": 3000}}

def miri(bin, seeds_q, seeds_t, variants_q, variants_t, name="miri", tiers=("quick", "thorough"), flags="", q=None, t=None):
    return {"name": name, "flavour": "miri", "bin": bin, "tiers": list(tiers),
            "args": {"quick": q or [], "thorough": t or (q or [])},
            "seeds": {"quick": seeds_q, "thorough": seeds_t},
            "variants": {"quick": variants_q, "thorough": variants_t},
            "miriflags": flags,
            "timeout": {"quick": 900, "thorough": 3000}}

PROPS = {
    "C01": {
        "level": "exploration",
        "assumptions": [
            "the recording stream's own log (taken under its lock on the writer thread) is the ground truth for what reached the stream",
            "histories in which the local metrics recorder saw an overflow are excluded (they belong to C09)",
        ],
        "legs": [
            native("c01_queue", ["secs=10"], ["secs=150"]),
            native("c01_queue", ["secs=5", "subscriber=1"], ["secs=60", "subscriber=1"], name="native-subscriber"),
            native("c01_queue", ["secs=4", "subscriber=2"], ["secs=40", "subscriber=2"], name="native-filtered-subscriber"),
            miri("c01_queue", 16, 64, [0, 1, 2], [0, 1, 2, 3, 4, 5]),
            native("c01_queue", t=["secs=60", "lanes=3"], name="tsan", flavour="tsan", tiers=("thorough",)),
        ],
    },
    "C04": {
        "level": "exploration",
        "assumptions": [
            "the recording stream's log is the ground truth; the log length read after completion can only hide a violation, never invent one (the gated variant makes hidden ones definite)",
            "liveness is restated as bounded progress in logical units (entries consumed by the stream), not wall time",
        ],
        "legs": [
            native("c04_flush", ["secs=22"], ["secs=170", "m3len=11"]),
            miri("c04_flush", 12, 48, [0, 1, 2], [0, 1, 2, 3, 4, 5]),
            native("c04_flush", t=["secs=60", "lanes=3", "monitor=12"], name="tsan", flavour="tsan", tiers=("thorough",)),
        ],
    },
    "C09": {
        "level": "exploration",
        "assumptions": [
            "sequential histories are made deterministic by holding the writer thread at a gate inside next(); the reference is a displace-oldest ring plus one in-hand slot",
        ],
        "legs": [
            native("c09_overflow", ["secs=12"], ["secs=150"]),
            miri("c09_overflow", 12, 48, [0, 1, 2, 3], [0, 1, 2, 3, 4, 5, 6, 7]),
            native("c09_overflow", t=["secs=45", "lanes=3"], name="tsan", flavour="tsan", tiers=("thorough",)),
        ],
    },
    "C05": {
        "level": "exploration",
        "assumptions": [
            "Drop of the stream object and exit of the writer thread are observed through a Drop impl and a thread-local destructor registered by the recording stream",
            "termination on the forget path is decided by the progress watchdog (no meaningful progress for 20 s) together with the logical evidence 'last queue handle dropped, stream alive'",
        ],
        "legs": [
            native("c05_shutdown", ["secs=12"], ["secs=150"]),
            miri("c05_shutdown", 4, 24, [0, 1, 2, 3, 4, 5], [0, 1, 2, 3, 4, 5, 6, 7, 8, 9, 10, 11]),
            native("c05_shutdown", t=["secs=45", "lanes=3"], name="tsan", flavour="tsan", tiers=("thorough",)),
        ],
    },
    "C02": {
        "level": "exploration",
        "assumptions": [
            "the strict RFC 8259 parser in vcommon is the oracle for 'syntactically valid'; every line is also parsed by serde_json and a disagreement is a harness error, never a violation",
            "when validations are off and the entry itself writes a member named _aws, the first _aws member is the formatter's",
        ],
        "legs": [
            native("c02_emf_json", ["secs=15"], ["secs=200"]),
            miri("c02_emf_json", 1, 1, [0], [0, 1, 2, 3], q=["entries=40"], t=["entries=120"]),
            native("c02_emf_json", t=["secs=60", "lanes=8"], name="asan", flavour="asan", tiers=("thorough",)),
        ],
    },
    "C03": {
        "level": "exploration",
        "assumptions": [
            "the reference interpretation in checks/src/emf_util.rs (written from the crate documentation, sharing no code with emf.rs) is the oracle; the input space is the documented domain (unique names etc.)",
            "above 2^53 the sampling weight is only required to be within 1 of 1/rate (C12), so the reference accepts floor-1..ceil+1 there",
        ],
        "legs": [
            native("c03_emf_content", ["secs=15"], ["secs=200"]),
        ],
    },
    "C08": {
        "level": "exploration",
        "assumptions": [
            "the reference validity predicate (checks/src/emf_util.rs::validity) encodes the defect list of the statement; entries whose only oddity is not decided by that list (same metric name in two different dimension sets, per-metric dimension key colliding with another member name) are classified 'unspecified' and only checked for duplicate members",
            "validation is 'promised' for Emf::all_validations in every profile and for Emf::builder() only in builds with debug assertions, as documented",
        ],
        "legs": [
            native("c08_emf_validation", ["secs=10"], ["secs=120"], name="native-debug"),
            native("c08_emf_validation", ["secs=10"], ["secs=120"], name="native-release", flavour="release"),
        ],
    },
    "C14": {
        "level": "exploration",
        "assumptions": [
            "records are compared as a multiset of lines (split records are emitted in hash order); for entries without a timestamp the generated _aws.Timestamp is replaced by a token after checking that it is not older than the run",
            "for positions whose writer fails only the Ok/Validation/Io decision is compared; the effect of the failure on LATER positions is what is checked",
        ],
        "legs": [
            native("c14_emf_independence", ["secs=12"], ["secs=150"]),
        ],
    },
    "C16": {
        "level": "fault_enumeration",
        "assumptions": [
            "the reference bytes of a record are those a plain Vec<u8> writer receives; split records may come in any order (hash order), so received bytes are matched against permutations of the reference lines",
            "scripted writers/streams are the fault model: accept-k, Interrupted, zero-length, hard error, plain-write-only; per-entry Ok/Validation/Io and flush errors for streams",
        ],
        "coverage_extra": {"quick": {"exhaustive": False}, "thorough": {"exhaustive": False}},
        "legs": [
            native("c16_io_faults", ["secs=10"], ["secs=120"]),
            miri("c16_io_faults", 1, 2, [0], [0, 1], q=["lanes=2"], t=["lanes=5"]),
            native("c16_io_faults", t=["secs=40", "lanes=6", "sink_rounds=600"], name="asan", flavour="asan", tiers=("thorough",)),
        ],
    },
    "C06": {
        "level": "exploration",
        "assumptions": [
            "guards of one kind are interchangeable, so the sequential enumeration drops them in LIFO order (symmetry reduction)",
            "concurrent histories assert only what every linearization satisfies: exactly one append, not before the START of the drops it needs",
        ],
        "coverage_extra": {"quick": {"exhaustive": False}, "thorough": {"exhaustive": False}},
        "legs": [
            native("c06_append_on_drop", ["secs=8", "objects=5"], ["secs=120", "objects=6"]),
            miri("c06_append_on_drop", 16, 64, [0, 1], [0, 1, 2, 3]),
            native("c06_append_on_drop", t=["secs=40", "objects=4", "lanes=3"], name="tsan", flavour="tsan", tiers=("thorough",)),
        ],
    },
    "C13": {
        "level": "exploration",
        "assumptions": [
            "sequential op sequences are enumerated exhaustively up to the depth bound and completed by a fixed clean-up; concurrent histories assert only linearization-invariant facts (drop start/end tickets vs the append ticket)",
        ],
        "coverage_extra": {"quick": {"exhaustive": False}, "thorough": {"exhaustive": False}},
        "legs": [
            native("c13_slots", ["secs=8", "depth=7"], ["secs=100", "depth=8"]),
            # the same monitor on a build without debug assertions (what ships): code inside debug_assert! is gone there
            native("c13_slots", ["secs=4", "depth=6"], ["secs=30", "depth=7"], name="native-release", flavour="release"),
            miri("c13_slots", 16, 64, [0, 1], [0, 1, 2, 3]),
            native("c13_slots", t=["secs=40", "depth=5", "lanes=3"], name="tsan", flavour="tsan", tiers=("thorough",)),
        ],
    },
    "C10": {
        "level": "exploration",
        "assumptions": [
            "every input's distribution value is a unique id, so the aggregate an input contributed to is identified by the output alone",
            "keep-last under concurrent producers is only required to be one of the inputs of that aggregate; with a known merge order it must be the last",
            "termination of the worker thread is observed through Drop of a wrapper around the inner sink, decided by the progress watchdog plus the flush-call counter as evidence",
        ],
        "legs": [
            native("c10_aggregation", ["secs=10"], ["secs=120"]),
            miri("c10_aggregation", 4, 16, [0, 1], [0, 1, 2, 3]),
            native("c10_aggregation", t=["secs=40", "lanes=3"], name="tsan", flavour="tsan", tiers=("thorough",)),
        ],
    },
    "C11": {
        "level": "exploration",
        "assumptions": [
            "the value an observation 'is' for a Repeated{total, n} source is total/n as computed in f64 (the same quantity every consumer of an Observation uses)",
            "occurrence counts are kept below 2^40 so that midpoint*count stays exact for the width-1/2 buckets (beyond that a float artefact, not the library, could move an observation to the neighbouring bucket)",
            "domain: finite, non-negative values below 2^43 as the statement says",
        ],
        "legs": [
            native("c11_histograms", ["secs=8"], ["secs=100"]),
            miri("c11_histograms", 4, 16, [0, 1], [0, 1, 2, 3]),
            native("c11_histograms", t=["secs=30", "lanes=3"], name="tsan", flavour="tsan", tiers=("thorough",)),
        ],
    },
    "C12": {
        "level": "exploration",
        "assumptions": [
            "exact 1/rate is computed as a rational from the f32 bits; for 1/rate >= 2^53 '1/rate' means the correctly rounded double-precision quotient (doubles no longer resolve integers there; the statement's own threshold)",
            "the random draw is recomputed by calling rand's own random::<f32>() on a replay of the scripted generator's state before the call",
            "the congressional sampler's clock is not injectable: intervals are ended through the cfg(metrique_verif) trigger, which calls the real update_rates",
        ],
        "legs": [
            native("c12_sampling", ["secs=8"], ["secs=30"], name="native"),
            native("c12_sampling", t=["secs=90", "all_f32=1"], name="native-release-all-f32", flavour="release", tiers=("thorough",)),
        ],
    },
    "C18": {
        "level": "exploration",
        "assumptions": [
            "a borrowed guard excludes every other use of the stopwatch (borrow checker), so it is modelled as one compound op; the exhaustive part allows 2 concurrently live owned guards, the random part 3",
            "overwrite means: the total becomes this guard's span (the code's documented behaviour); clear removes the total, spans completing afterwards count in full",
            "guards ended concurrently are only stopped, dropped or discarded (a concurrent overwrite has no order-independent expected total); the clock does not advance during the race, so every span is known exactly",
        ],
        "coverage_extra": {"quick": {"exhaustive": False}, "thorough": {"exhaustive": False}},
        "legs": [
            native("c18_timers", ["secs=5", "depth=8"], ["secs=60", "depth=9"]),
            miri("c18_timers", 8, 32, [0, 1], [0, 1, 2, 3]),
            native("c18_timers", t=["tiny=1", "rounds=20000"], name="tsan", flavour="tsan", tiers=("thorough",)),
        ],
    },
    "C19": {
        "level": "exploration",
        "assumptions": [
            "the scale table in checks/src/bin/c19_units.rs (seconds / bits per unit) is the oracle and is independent of unit.rs; byte and bit rates share the scale of their plain counterparts, as the crate's conversion families do",
            "'up to floating-point rounding' = 4 ulp; cases whose exact result over/underflows are skipped",
            "the table of unit pairs is complete by construction: a pair that is not convertible does not compile",
        ],
        "coverage_extra": {"quick": {"exhaustive": True}, "thorough": {"exhaustive": True}},
        "legs": [
            native("c19_units", ["rounds=3"], ["rounds=60"]),
        ],
    },
    "C17": {
        "level": "exploration",
        "assumptions": [
            "the reference routing state machine (thread-local test sink > runtime test sink > attached sink > none) is the oracle; a forgotten attach handle keeps its sink attached (it can never be detached again), so it is only exercised at the end of a lane",
            "the racing part asserts Ok <=> written before drop(AttachHandle) returned, which holds in every linearization because try_append keeps the global's read lock while appending",
        ],
        "legs": [
            native("c17_global_sinks", ["secs=8"], ["secs=100"]),
            native("c17_global_sinks", t=["secs=30", "lanes=3"], name="tsan", flavour="tsan", tiers=("thorough",)),
        ],
    },
    "C20": {
        "level": "exploration",
        "assumptions": [
            "every readout (tight reader loop, the MetricReporter task's sink, the final one) is replayed into the recording EntryWriter; the sum over all of them is the observable",
            "gauges have one writer each with increasing values, so 'a readout reports a value that was set' is decidable per readout stream",
            "the unit of a readout is required only when describe() returned before the readout began",
        ],
        "legs": [
            native("c20_metrics_bridge", ["secs=10"], ["secs=120"]),
            miri("c20_metrics_bridge", 8, 48, [0, 1], [0, 1, 2, 3]),
            native("c20_metrics_bridge", t=["secs=40", "lanes=2"], name="tsan", flavour="tsan", tiers=("thorough",)),
        ],
    },
    "C15": {
        "level": "exploration",
        "assumptions": [
            "dynamic compositions re-box between layers (boxing is itself one of the wrappers under test); Arc/Cow/Box/Option of the plain entry are the base variations",
            "flag families are never mixed in one case (merging an EMF flag with a foreign flag panics by design)",
        ],
        "legs": [
            native("c15_wrappers", ["secs=8"], ["secs=100"]),
        ],
    },
    "C07": {
        "level": "translation_validation",
        "coverage_from_counters": {"programs": ["native:programs"], "disagreements_checked": ["native:instances_showing_known_finding_F8"]},
        "assumptions": [
            "the naming reference in checks/src/bin/c07_macro_programs.rs is the oracle; like the documentation it takes the Inflector crate's to_pascal_case/to_snake_case/to_kebab_case as the definition of inflection",
            "generated programs avoid three shapes the pinned macro does not compile (ignored fields inside enum struct variants, two flatten prefixes with the same text in one container, by-value children inside subfield structs); a generated program that does not compile is INCONCLUSIVE, never a verdict on naming",
            "identifiers come from a fixed word list; attribute strings are restricted to what the macro accepts (inflectable prefixes: alphanumerics, '_' and '-'; container prefixes end in a delimiter)",
        ],
        "legs": [
            native("c07_macro_programs", ["programs=2", "roots=150"], ["programs=16", "roots=400"], timeout={"quick": 900, "thorough": 3000}),
        ],
    },
}
